#!/usr/bin/env python3
"""Store one round of confirmed seeded changes under /verif/seeded.

usage: store_round.py <round> <srcdir> <notes.json>
  <srcdir>/<id>/{patch.diff,meta.json,<demo>.go} as delivered by a sub-agent and
  <srcdir>/<id>.verify.txt as written by `tools/seedcheck.sh <srcdir>/<id> --suite`
  (for a change attributed to another property: <srcdir>/<id>.verify-<prop>.txt too).
  notes.json: {"missed": {id: why the first evaluation missed it and what was added},
               "attributed": {id: [property, note]}, "skip": [ids]}
Refuses to store a change whose confirmation is incomplete.
"""
import json, os, re, shutil, glob, sys

rnd, src, notes = int(sys.argv[1]), sys.argv[2], json.load(open(sys.argv[3]))
missed, attributed, skip = notes.get("missed", {}), notes.get("attributed", {}), set(notes.get("skip", []))
V = os.path.dirname(os.path.dirname(os.path.abspath(__file__)))
n = 0
for d in sorted(glob.glob(src + "/C[0-9][0-9][a-zA-Z]")):
    i = os.path.basename(d)
    if i in skip:
        continue
    m = json.load(open(d + "/meta.json"))
    v = open(src + "/" + i + ".verify.txt").read()
    prop = m["property"]
    demo = m.get("demo_file")
    out = {
        "id": i, "round": rnd, "kind": m.get("kind"), "property": prop, "summary": m["summary"], "needs": m["needs"],
        "origin": "independent sub-agent given only the property text, a free choice of hard kind, a detailed paraphrase of what the hardened suite covers by now (no file from /verif), a request to report hazards seen in the unchanged tree, and a scratch worktree of /repo",
        "demo_file": demo, "demo_dest": m.get("demo_dest", demo), "demo_cmd": m.get("demo_cmd"),
        "confirmed": {
            "how": "tools/seedcheck.sh <dir> --suite in a scratch worktree of /repo HEAD (never /repo itself): demo run without and with the patch, go build, go test -vet=off -count=1 ./..., then VERIF_REPO=<worktree> ./check %s quick" % prop,
            "demo_passes_without_change": "demo without change rc=0" in v,
            "demo_fails_with_change": bool(re.search(r"with change rc=[1-9]", v.split("suite")[0])),
            "suite_passes_with_change": "suite with change rc=0" in v,
        },
        "caught_by_quick_check": ("check %s rc=1" % prop) in v,
        "caught_by_tests": sorted(set(re.findall(r"^  (Test\w+)", v, re.M))),
        "missed_in_first_round": missed.get(i),
    }
    if i in attributed:
        ap, note = attributed[i]
        v2 = open("%s/%s.verify-%s.txt" % (src, i, ap)).read()
        assert ("check %s rc=1" % ap) in v2, (i, "not caught by", ap)
        out["attributed_to"], out["attribution_note"] = ap, note
        out["caught_by_quick_check"] = True
        out["caught_by_tests"] = sorted(set(re.findall(r"^  (Test\w+)", v2, re.M)))
        out["missed_in_first_round"] = missed.get(i) or "not caught by %s (correctly: nothing %s states changes); caught by %s's quick check" % (prop, prop, ap)
    c = out["confirmed"]
    assert c["demo_passes_without_change"] and c["demo_fails_with_change"] and c["suite_passes_with_change"] and out["caught_by_quick_check"], (i, c, out["caught_by_quick_check"])
    dst = os.path.join(V, "seeded", i)
    os.makedirs(dst, exist_ok=True)
    shutil.copy(d + "/patch.diff", dst + "/patch.diff")
    shutil.copy(d + "/" + demo, dst + "/" + demo)
    json.dump(out, open(dst + "/meta.json", "w"), indent=1)
    n += 1
print("stored", n)
