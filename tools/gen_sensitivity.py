#!/usr/bin/env python3
"""Rewrites section 8 of DESIGN.md (between the markers) from the recorded sensitivity data:
tools/mutants/results.txt (hand-written mutants), seeded/*/meta.json and seeded/matrix_*.txt (seeded changes)."""
import glob, json, os, re
V = os.path.dirname(os.path.dirname(os.path.abspath(__file__)))
out = []
out.append("## 8. Sensitivity: which checks catch which changes\n")
out.append("Every check was tried against deliberately broken copies of the repository, always in scratch worktrees of /repo (`VERIF_REPO=<worktree> ./check ...`; "
           "the driver keeps evidence of such runs apart from `evidence/`), never in /repo itself. Three sources:\n")
out.append("1. **Reverting each repair.** Pointing the driver at a worktree of the original commit 0c5d337 makes C04, C07, C08, C09, C13, C14, C15, C16, C17, C19 "
           "report violations (both the `R` regression and the `P` property of each), i.e. every defect of section 7 is found again without the regression tests; "
           "C06/C20 report F12 on a worktree of 622f3d0.\n")
out.append("2. **Hand-written mutants** (`tools/mutants/mutants.json`, applied by `tools/mutants/run.py`): small realistic slips taken from the plan in the first version of this section. "
           "Result of the last campaign (quick tier, seed 1):\n")
res = os.path.join(V, "tools/mutants/results.txt")
muts = {m["id"]: m for m in json.load(open(os.path.join(V, "tools/mutants/mutants.json")))}
if os.path.exists(res):
    out.append("| mutant | file | property | result |")
    out.append("|---|---|---|---|")
    for line in open(res):
        p = line.split()
        if len(p) < 3 or p[0] not in muts:
            continue
        m = muts[p[0]]
        note = m.get("note", "")
        out.append("| %s | %s | %s | %s%s |" % (p[0], m["file"], p[1], p[2], (" - " + note) if (note and p[2] != "caught") else ""))
    out.append("")
    notes = [(m["id"], m["note"]) for m in muts.values() if m.get("note")]
    if notes:
        out.append("Mutants that some check rightly does not flag (they do not violate that property):")
        for i, n in notes:
            out.append("* `%s`: %s" % (i, n))
        out.append("")
out.append("3. **Independently seeded changes** (`seeded/<id>/`: `patch.diff`, demonstration test, `meta.json`). Twenty rounds of twenty sub-agents each (two changes per agent; one agent of round 17 failed to deliver; 782 changes kept, sixteen rejected because they violate no listed property - `seeded/_rejected/`); every agent got only the text of one property "
           "and a private scratch worktree, and was asked for two changes that compile, pass the repository's unedited suite and break the property only under something specific "
           "(round 1: any such change; round 2: a prescribed hard kind - multi-step history, fault at one point, interleaving, cooperating edits, unusual boundary, stale/shared state; round 3: the same kinds, and the agent was told in general terms to assume a competent property-based suite - many small random inputs, reference and model oracles, single faults everywhere, short histories - and to aim at what such a suite still misses; still nothing from /verif; round 4: as round 3, plus a request to prefer helper code, rarely used entry points and DAGs written by other implementations; round 5: two new kinds - *scale* (only at production-like sizes, widths, counts) and *entrypoint* (only through a less common exported entry point, option or setting); round 6: free choice of kind, and the agent was given a detailed paraphrase of what the by then hardened suite covers, with the request to find a dimension or a conjunction it still misses; round 7: the same with the paraphrase brought up to date, plus a request to mention hazards noticed in the unchanged tree - which led to defects F16 .. F19 and a second known finding; round 8: as round 7 with the paraphrase brought up to date once more - no new defect came out of the agents' hazard notes; round 9: the same again - one hazard note led to defect F21; round 10 and 11: the same again, no new defect; round 12: the same; widening the harness for one of its changes exposed defect F22; round 13: the same, no new defect; round 14 and 15: the same, no new defect; round 16: the same - widening the harness for one of its changes exposed defect F24, and one hazard note became the fourth known finding, F23; round 17, 18 and 19: the same, no new defect). "
           "Each change was kept only after `tools/seedcheck.sh <dir> --suite` confirmed in a scratch worktree that it builds, that the suite passes with it, and that its demonstration fails with it and passes without it. "
           "A final sweep (`seeded/diag_final.txt`) ran the quick check of the property each kept change of rounds 1-16 is kept for against that change once more, on the harness as it stood after round 16 and the repaired tree: all 632 are reported (four needed a second look: three patches applied but no longer built after the F24 repair changed a signature and were adapted; one concurrency change was missed while five sweeps shared the machine and caught when re-run alone). Further sweeps on the harness as it stood after round 20 (six at a time) did the same for the 150 kept changes of rounds 17-20 (`seeded/diag_r17_20.txt`) and the 196 of rounds 12-16 (`seeded/diag_r12_16.txt`): all 346 are reported; so are the 119 of rounds 9-11 (`seeded/diag_r09_11.txt`); of the changes of rounds 1-8 (`seeded/diag_r01_08.txt`, eight at a time) one was no longer reported: C09k (a pooled scratch buffer used after it was handed back) is only disturbed when a goroutine is descheduled in the middle of an encode, which eight goroutines on sixteen idle processors never are - `TestC09_R_ConcurrentEncode` now runs 64 goroutines for 150000 encodes each and reported it three times out of three. " +
           "The tables give, per change, the checks (quick tier, seed 1) that report a violation when pointed at the changed tree - the property's own check first - and whether the change was missed when first tried.\n")
for rnd, title in (("1", "Round 1"), ("2", "Round 2 (hard kinds)"), ("3", "Round 3 (hard kinds, aimed at the harness's blind spots)"), ("4", "Round 4 (fault-heavy kinds, helper code and rarely used entry points)"), ("5", "Round 5 (scale and entry-point kinds)"), ("6", "Round 6 (free kinds against a described, hardened suite)"), ("7", "Round 7 (as round 6; agents also reported hazards in the unchanged tree)"), ("8", "Round 8 (as round 7)"), ("9", "Round 9 (as round 7)"), ("10", "Round 10 (as round 7)"), ("11", "Round 11 (as round 7)"), ("12", "Round 12 (as round 7)"), ("13", "Round 13 (as round 7)"), ("14", "Round 14 (as round 7)"), ("15", "Round 15 (as round 7)"), ("16", "Round 16 (as round 7)"), ("17", "Round 17 (as round 7)"), ("18", "Round 18 (as round 7)"), ("19", "Round 19 (as round 7)"), ("20", "Round 20 (as round 7)")):
    mfile = os.path.join(V, "seeded/matrix_round%s.txt" % rnd)
    matrix = {}
    if os.path.exists(mfile):
        for line in open(mfile):
            p = line.split()
            if len(p) > 2:
                matrix[p[0]] = dict(x.split("=") for x in p[1:])
    metas = []
    for d in sorted(glob.glob(os.path.join(V, "seeded/C*"))):
        if not os.path.isdir(d):
            continue
        m = json.load(open(os.path.join(d, "meta.json")))
        if str(m.get("round", "1")) == rnd:
            metas.append(m)
    if not metas:
        continue
    out.append("**%s** (%d changes)\n" % (title, len(metas)))
    out.append("| id | kind | change (one line) | caught by | first try |")
    out.append("|---|---|---|---|---|")
    for m in metas:
        row = matrix.get(m["id"], {})
        own = m.get("attributed_to", m["property"])
        caught = [k for k, v in sorted(row.items()) if v == "1"]
        if own in caught:
            caught.remove(own)
            caught = ["**%s**" % own] + caught
        elif row:
            caught = ["(own check %s: rc=%s)" % (own, row.get(own))] + caught
        else:
            caught = ["**%s**" % own] if m.get("caught_by_quick_check") else ["?"]
        summ = re.sub(r"\s+", " ", m["summary"]).replace("|", "/")
        if len(summ) > 150:
            summ = summ[:147] + "..."
        first = "missed: " + m["missed_in_first_round"] if m.get("missed_in_first_round") else "caught"
        if m.get("attributed_to"):
            summ = "(labelled %s by its author; it violates %s) " % (m["property"], m["attributed_to"]) + summ
        out.append("| %s | %s | %s | %s | %s |" % (m["id"], m.get("kind", ""), summ, " ".join(caught), first.replace("|", "/")))
    out.append("")
out.append("Misses were never silenced: each one led to a stronger generator or oracle (listed in the last column and in the *As built* notes of section 6), "
           "and three of them led to further genuine findings: C06a to defect F12, C05f to defect F13 (both repaired), C13e to the known finding C13-shared-subtree-iteration. A change is counted as caught only if the property's own check reports it.\n")
text = "\n".join(out) + "\n"
p = os.path.join(V, "DESIGN.md")
s = open(p).read()
a = s.index("## 8. Sensitivity")
b = s.index("## 9. Limits")
s = s[:a] + text + "\n" + s[b:]
open(p, "w").write(s)
print("section 8 rewritten: %d lines" % len(out))
