#!/usr/bin/env python3
"""Regenerates /verif/MANIFEST.json from /verif/checks.json (single source of truth for per-check metadata)."""
import json, os, subprocess
V = os.path.dirname(os.path.dirname(os.path.abspath(__file__)))
cfg = json.load(open(os.path.join(V, "checks.json")))
props = [json.loads(l) for l in open(os.path.join(V, "properties.jsonl")) if l.strip()]
checks = []
na = []
for p in props:
    pid = p["id"]
    c = cfg["checks"].get(pid)
    if not c or not c.get("claimed", True):
        na.append({"property_id": pid, "reason": (c or {}).get("na_reason", "check not built yet in this session; see DESIGN.md section 6/%s for the planned generated-input check" % pid)})
        continue
    checks.append({
        "property_id": pid,
        "quick_cmd": "./check %s quick" % pid,
        "thorough_cmd": "./check %s thorough" % pid,
        "evidence_file": "/verif/evidence/%s.json" % pid,
        "replay_cmd_template": "./check %s --replay {path}" % pid,
        "engine": "rapid-harness",
        "level_claimed": {"category": c["level"], "text": c["level_text"], "design_ref": "DESIGN.md section 6, " + pid},
        "level_note": c["level_note"],
        "technique": c["technique"],
    })
m = {
    "version": 1,
    "setup_cmd": "./check --setup",
    "hooks": {
        "guard": cfg["guard"],
        "enable": "go test -tags %s (only /verif/harness/hooksweep is built with the tag; all other checks build /repo without it)" % cfg["guard"],
        "baseline_off_cmd": cfg["baseline_off_cmd"],
        "source_commits": cfg.get("hook_commits", []),
        "add_only": True,
    },
    "engines": [{
        "name": "rapid-harness",
        "path": "/verif/harness",
        "serves_properties": [c["property_id"] for c in checks],
        "kind_free_text": "Go test package driven by pgregory.net/rapid v1.3.0 (generators, stateful t.Repeat machines, shrinking, .fail replay files) plus native go test -fuzz targets; oracles: boxo v0.24.0 reference importers/HAMT, gogo unixfs_pb, an independent walker over stored blocks, io.ReadSeeker model; driver /verif/check (python3 stdlib)",
    }],
    "checks": checks,
    "notes": cfg.get("notes", ""),
    "not_applicable": na,
}
json.dump(m, open(os.path.join(V, "MANIFEST.json"), "w"), indent=1)
print("MANIFEST.json: %d checks, %d not_applicable" % (len(checks), len(na)))
