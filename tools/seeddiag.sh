#!/bin/bash
# usage: tools/seeddiag.sh <seeded-dir> [tier]  -> prints "<id> <property checked> rc=<rc>": the quick check of the property the
# change was kept for (meta.attributed_to if set, else meta.property) run against a scratch worktree of /repo HEAD + patch.diff
here=$(cd "$(dirname "$0")/.." && pwd)
d=$(realpath "$1"); tier=${2:-quick}; id=$(basename $d)
prop=$(python3 -c "import json;m=json.load(open('$d/meta.json'));print(m.get('attributed_to') or m['property'])")
wt=$(mktemp -d /tmp/seeddg-XXXXXX); rmdir $wt
git -C /repo worktree add -q --detach $wt HEAD || exit 3
trap 'git -C /repo worktree remove --force $wt >/dev/null 2>&1; rm -rf $wt' EXIT
git -C $wt apply "$d/patch.diff" || { echo "$id $prop PATCH-DOES-NOT-APPLY"; exit 3; }
cd "$here"
out=$(VERIF_REPO=$wt ./check $prop $tier 2>&1); rc=$?
echo "$id $prop rc=$rc $(echo "$out" | grep -o 'replay=[^ ]*' | sed 's#.*/##' | sort -u | head -3 | tr '\n' ' ')"
