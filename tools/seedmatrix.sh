#!/bin/bash
# usage: tools/seedmatrix.sh <seeded-dir> [tier]   -> prints "<id> <check>=<rc> ..." : every check run against one seeded change
here=$(cd "$(dirname "$0")/.." && pwd)
d=$(realpath "$1"); tier=${2:-quick}; id=$(basename $d)
wt=$(mktemp -d /tmp/seedmx-XXXXXX); rmdir $wt
git -C /repo worktree add -q --detach $wt HEAD || exit 3
trap 'git -C /repo worktree remove --force $wt >/dev/null 2>&1; rm -rf $wt' EXIT
git -C $wt apply "$d/patch.diff" || { echo "$id PATCH-DOES-NOT-APPLY"; exit 3; }
line="$id"
cd "$here"
for p in C01 C02 C03 C04 C05 C06 C07 C08 C09 C10 C11 C12 C13 C14 C15 C16 C17 C18 C19 C20; do
  VERIF_REPO=$wt ./check $p $tier >/dev/null 2>&1; line="$line $p=$?"
done
echo "$line"
