#!/bin/bash
# usage: tools/seedcheck.sh <dir with patch.diff + meta.json + demo file> [--suite] [ID ...]
# Verifies a seeded change in a scratch worktree of /repo (never touches /repo itself): applies, builds, runs the demo with
# and without the change, optionally the repository's suite, then runs the named checks (default: meta.property) against it.
set -u
here=$(cd "$(dirname "$0")/.." && pwd)
d=$(realpath "$1"); shift
suite=0; if [ "${1:-}" = "--suite" ]; then suite=1; shift; fi
export GOFLAGS=-mod=mod GOPROXY=off GOSUMDB=off GOTOOLCHAIN=local
prop=$(python3 -c "import json;print(json.load(open('$d/meta.json'))['property'])")
demo=$(python3 -c "import json;print(json.load(open('$d/meta.json'))['demo_file'])")
dest=$(python3 -c "import json;print(json.load(open('$d/meta.json'))['demo_dest'])")
cmd=$(python3 -c "import json;print(json.load(open('$d/meta.json'))['demo_cmd'])")
ids=${@:-$prop}
wt=$(mktemp -d /tmp/seedchk-XXXXXX); rmdir $wt
git -C /repo worktree add -q --detach $wt HEAD || exit 3
trap 'git -C /repo worktree remove --force $wt >/dev/null 2>&1; rm -rf $wt' EXIT
cd $wt
# demo without the change
case "$dest" in */) dest="$dest$demo";; esac
[ -d "$dest" ] && dest="$dest/$demo"
mkdir -p "$(dirname "$dest")"; cp "$d/$demo" "$dest"
( eval "$cmd" ) > $wt.demo0.log 2>&1; r0=$?
git apply "$d/patch.diff" || { echo "PATCH DOES NOT APPLY"; exit 3; }
go build ./... > $wt.build.log 2>&1 || { echo "DOES NOT BUILD"; cat $wt.build.log | tail -5; exit 3; }
( eval "$cmd" ) > $wt.demo1.log 2>&1; r1=$?
echo "demo without change rc=$r0 (want 0); with change rc=$r1 (want != 0)"
rm -f "$dest"
if [ $suite = 1 ]; then
  go test -vet=off -count=1 -timeout 25m ./... > $wt.suite.log 2>&1; echo "suite with change rc=$? $(grep -c '^ok' $wt.suite.log) ok / $(grep -c '^FAIL\|^---' $wt.suite.log) fail lines"
fi
cd "$here"
for p in $ids; do
  out=$(VERIF_REPO=$wt ./check $p ${TIER:-quick} 2>&1); rc=$?
  echo "check $p rc=$rc :: $(echo "$out" | grep -E 'VIOLATION|INCONCLUSIVE|OK property' | head -3 | cut -c1-200 | tr '\n' '|')"
  echo "$out" | grep -A1 VIOLATION | grep -v VIOLATION | head -2 | cut -c1-400
done
rm -f $wt.*.log
