#!/usr/bin/env python3-vt
import json, sys, glob, jsonschema
jsonschema.validate(json.load(open('/verif/MANIFEST.json')), json.load(open('/root/.vp/MANIFEST.schema.json')))
es = json.load(open('/root/.vp/EVIDENCE.schema.json'))
for f in sorted(glob.glob('/verif/evidence/*.json')):
    e = json.load(open(f)); jsonschema.validate(e, es)
    c = e['coverage']
    print(f.split('/')[-1], e['tier'], 'evals', c['evaluations'], 'distinct_nt', c['distinct_nontrivial'], 'nt', c.get('nontrivial_cases'), 'wall', e['wall_s'], 'viol', e.get('violations'))
print('manifest + evidence valid')
