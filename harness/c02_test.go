package harness

// C02 - built directories (plain, sharded, auto-selecting, quick builder) behave as the map of their entries.

import (
	"fmt"
	"github.com/ipfs/go-unixfsnode"
	"github.com/spaolacci/murmur3"
	"sort"
	"strings"
	"testing"

	pb "github.com/ipfs/boxo/ipld/unixfs/pb"
	"github.com/ipfs/go-cid"
	"github.com/ipfs/go-unixfsnode/data/builder"
	quickbuilder "github.com/ipfs/go-unixfsnode/data/builder/quick"
	"github.com/ipfs/go-unixfsnode/iter"
	dagpb "github.com/ipld/go-codec-dagpb"
	"github.com/ipld/go-ipld-prime"
	"github.com/ipld/go-ipld-prime/datamodel"
	cidlink "github.com/ipld/go-ipld-prime/linking/cid"
	"github.com/ipld/go-ipld-prime/node/basicnode"
	"github.com/ipld/go-ipld-prime/schema"
	"pgregory.net/rapid"
)

type nativeDir interface {
	Iterator() *iter.UnixFSDir__Itr
	Lookup(key dagpb.String) dagpb.Link
}

func pbString(s string) dagpb.String {
	nb := dagpb.Type.String.NewBuilder()
	if err := nb.AssignString(s); err != nil {
		panic(err)
	}
	return nb.Build().(dagpb.String)
}

func linkOf(n datamodel.Node) (cid.Cid, error) {
	if n == nil {
		return cid.Undef, fmt.Errorf("nil node")
	}
	l, err := n.AsLink()
	if err != nil {
		return cid.Undef, err
	}
	return cidOf(l), nil
}

func isNoSuchField(err error) bool {
	_, ok := err.(schema.ErrNoSuchField)
	return ok
}

// checkDirIsMap verifies that the reified directory dir behaves exactly as the map want.
func checkDirIsMap(dir datamodel.Node, want map[string]cid.Cid, nonMembers []string) error {
	return checkDirIsMapOpt(dir, want, nonMembers, true)
}

// checkDirIsMapOpt: with lengthFirst false, Length() is first asked after the iterations (a node must not need it up front).
func checkDirIsMapOpt(dir datamodel.Node, want map[string]cid.Cid, nonMembers []string, lengthFirst bool) error {
	if dir.Kind() != datamodel.Kind_Map {
		return fmt.Errorf("kind %s, want map", dir.Kind())
	}
	if lengthFirst && dir.Length() != int64(len(want)) {
		return fmt.Errorf("Length() = %d, want %d", dir.Length(), len(want))
	}
	// MapIterator
	seen := map[string]bool{}
	steps := 0
	type keptPair struct {
		k, v datamodel.Node
		ks   string
		c    cid.Cid
	}
	var kept []keptPair // what an iterator hands out are values: they must read the same after the iteration moved on
	for it := dir.MapIterator(); !it.Done(); {
		steps++
		if steps > 2*len(want)+10 {
			return fmt.Errorf("MapIterator does not terminate (%d steps for %d entries)", steps, len(want))
		}
		k, v, err := it.Next()
		if err != nil {
			return fmt.Errorf("MapIterator.Next: %v", err)
		}
		ks, err := k.AsString()
		if err != nil {
			return err
		}
		c, err := linkOf(v)
		if err != nil {
			return fmt.Errorf("iterated value of %q: %v", ks, err)
		}
		if seen[ks] {
			return fmt.Errorf("MapIterator yielded %q twice", ks)
		}
		seen[ks] = true
		w, ok := want[ks]
		if !ok {
			return fmt.Errorf("MapIterator yielded unknown name %q", ks)
		}
		if w != c {
			return fmt.Errorf("MapIterator: %q -> %s, want %s", ks, c, w)
		}
		if len(kept) < 64 || steps%97 == 0 {
			kept = append(kept, keptPair{k, v, ks, c})
		}
	}
	if len(seen) != len(want) {
		return fmt.Errorf("MapIterator yielded %d entries, want %d", len(seen), len(want))
	}
	for i, kp := range kept {
		ks, err := kp.k.AsString()
		c, err2 := linkOf(kp.v)
		if err != nil || err2 != nil || ks != kp.ks || c != kp.c {
			return fmt.Errorf("pair #%d yielded as %q -> %s reads %q -> %s after the iteration moved on (%v, %v)", i, kp.ks, kp.c, ks, c, err, err2)
		}
	}
	// count-driven iteration: Next() called Length() times without asking Done() in between yields the same entries
	if n := len(want); n > 0 {
		it := dir.MapIterator()
		for i := 0; i < n; i++ {
			k, v, err := it.Next()
			if err != nil || k == nil || v == nil {
				return fmt.Errorf("count-driven iteration (no Done() polling): Next #%d of %d returned (%v, %v, %v)", i+1, n, k, v, err)
			}
			ks, _ := k.AsString()
			if c, _ := linkOf(v); want[ks] != c {
				return fmt.Errorf("count-driven iteration: Next #%d yielded %q -> %s", i+1, ks, c)
			}
		}
		if !it.Done() {
			return fmt.Errorf("count-driven iteration: not Done after Length() = %d calls of Next", n)
		}
	}
	nd, isNative := dir.(nativeDir)
	if !isNative {
		return fmt.Errorf("%T has no native accessors", dir)
	}
	seenN := map[string]bool{}
	steps = 0
	for it := nd.Iterator(); !it.Done(); {
		steps++
		if steps > 2*len(want)+10 {
			return fmt.Errorf("native Iterator does not terminate")
		}
		k, v := it.Next()
		if k == nil || v == nil {
			return fmt.Errorf("native Iterator yielded nil at step %d", steps)
		}
		if seenN[k.String()] {
			return fmt.Errorf("native Iterator yielded %q twice", k.String())
		}
		seenN[k.String()] = true
		if w, ok := want[k.String()]; !ok || cidOf(v.Link()) != w {
			return fmt.Errorf("native Iterator: %q -> %s, want %s (member=%v)", k.String(), v.Link(), w, ok)
		}
	}
	if len(seenN) != len(want) {
		return fmt.Errorf("native Iterator yielded %d entries, want %d", len(seenN), len(want))
	}
	// members through every lookup entry point
	for name, w := range want {
		n1, err := dir.LookupByString(name)
		if err != nil {
			return fmt.Errorf("LookupByString(%q): %v", name, err)
		}
		if c, err := linkOf(n1); err != nil || c != w {
			return fmt.Errorf("LookupByString(%q) = %s,%v want %s", name, c, err, w)
		}
		n2, err := dir.LookupByNode(basicnode.NewString(name))
		if err != nil {
			return fmt.Errorf("LookupByNode(%q): %v", name, err)
		}
		if c, err := linkOf(n2); err != nil || c != w {
			return fmt.Errorf("LookupByNode(%q) = %s,%v want %s", name, c, err, w)
		}
		n3, err := dir.LookupBySegment(datamodel.PathSegmentOfString(name))
		if err != nil {
			return fmt.Errorf("LookupBySegment(%q): %v", name, err)
		}
		if c, err := linkOf(n3); err != nil || c != w {
			return fmt.Errorf("LookupBySegment(%q) = %s,%v want %s", name, c, err, w)
		}
		l := nd.Lookup(pbString(name))
		if l == nil || cidOf(l.Link()) != w {
			return fmt.Errorf("native Lookup(%q) = %v want %s", name, l, w)
		}
	}
	// a name that is NOT an entry but has the full 64-bit name hash of one (16 bytes obtained by running murmur3
	// backwards), looked up right after that entry was found through every entry point
	{
		probes := 0
		var sortedNames []string
		for name := range want {
			sortedNames = append(sortedNames, name)
		}
		sort.Strings(sortedNames)
		for _, name := range sortedNames {
			w := want[name]
			if probes >= 4 {
				break
			}
			probes++
			twin := craftName(murmur3.Sum64([]byte(name)), uint64(len(name))+uint64(probes))
			if _, isMember := want[twin]; isMember {
				continue
			}
			for ep := 0; ep < 4; ep++ {
				v, err := dir.LookupByString(name)
				if c, e := linkOf(v); err != nil || e != nil || c != w {
					return fmt.Errorf("LookupByString(%q) = %v, %v", name, v, err)
				}
				var tv datamodel.Node
				var terr error
				switch ep {
				case 0:
					tv, terr = dir.LookupByString(twin)
				case 1:
					tv, terr = dir.LookupByNode(basicnode.NewString(twin))
				case 2:
					tv, terr = dir.LookupBySegment(datamodel.PathSegmentOfString(twin))
				default:
					if l := nd.Lookup(pbString(twin)); l != nil {
						return fmt.Errorf("native Lookup of %x (not an entry; same 64-bit name hash as entry %q, which was looked up just before) found %s", twin, name, l.Link())
					}
					continue
				}
				if terr == nil {
					return fmt.Errorf("lookup #%d of %x (not an entry; same 64-bit name hash as entry %q, which was looked up just before) found %v", ep, twin, name, tv)
				}
			}
		}
	}
	// Length() is a function of the directory, not of what was done to the node before: ask again after full iterations,
	// after an over-read of an exhausted iterator, and after an iteration that was abandoned half way
	it := dir.MapIterator()
	for !it.Done() {
		if _, _, err := it.Next(); err != nil {
			return fmt.Errorf("MapIterator.Next: %v", err)
		}
	}
	_, _, _ = it.Next() // over-read: an error or nothing, never a change of the directory
	_, _, _ = it.Next()
	nit := nd.Iterator()
	for !nit.Done() {
		nit.Next()
	}
	nit.Next()
	if dir.Length() != int64(len(want)) {
		return fmt.Errorf("Length() = %d after iterating to the end (and reading past it), want %d", dir.Length(), len(want))
	}
	if len(want) > 1 {
		pit := dir.MapIterator()
		for i := 0; i < (len(want)*2)/3 && !pit.Done(); i++ {
			if _, _, err := pit.Next(); err != nil {
				return fmt.Errorf("MapIterator.Next: %v", err)
			}
		}
		if dir.Length() != int64(len(want)) {
			return fmt.Errorf("Length() = %d after an iteration that was dropped after %d steps, want %d", dir.Length(), (len(want)*2)/3, len(want))
		}
	}
	for _, name := range nonMembers {
		if _, in := want[name]; in {
			continue
		}
		if n, err := dir.LookupByString(name); err == nil || !isNoSuchField(err) {
			return fmt.Errorf("LookupByString(non-member %q) = %v, %v; want ErrNoSuchField", name, n, err)
		}
		if n, err := dir.LookupByNode(basicnode.NewString(name)); err == nil {
			return fmt.Errorf("LookupByNode(non-member %q) = %v, nil", name, n)
		}
		if n, err := dir.LookupBySegment(datamodel.PathSegmentOfString(name)); err == nil {
			return fmt.Errorf("LookupBySegment(non-member %q) = %v, nil", name, n)
		}
		if l := nd.Lookup(pbString(name)); l != nil {
			return fmt.Errorf("native Lookup(non-member %q) = %v", name, l)
		}
	}
	return nil
}

// genNonMembers draws names to probe as non-members, related to the member set.
func genNonMembers(t *rapid.T, names []string, fanout int) []string {
	out := []string{"", "zz-none", "00", "0", "A", "FF", "000", "Links"}
	pad := padWidth(fanout)
	for i := 0; i < 12 && len(names) > 0; i++ {
		m := names[rapid.IntRange(0, len(names)-1).Draw(t, "nm")]
		switch rapid.IntRange(0, 4).Draw(t, "nmkind") {
		case 0:
			b := []byte(m)
			j := rapid.IntRange(0, len(b)-1).Draw(t, "flip")
			b[j] ^= 1
			out = append(out, string(b))
		case 1:
			idx, _ := hashBitsRef(m, 0, padBits(fanout))
			out = append(out, fmt.Sprintf("%0*X%s", pad, idx, m)) // the stored, prefixed form of a member
		case 2:
			out = append(out, m+"x")
		case 3:
			if len(m) > 1 {
				out = append(out, m[:len(m)-1])
			}
		case 4:
			out = append(out, strings.Repeat("0", pad)+m)
		}
	}
	// proper suffixes and prefixes of members (a lookup must match whole names only)
	for i := 0; i < 6 && len(names) > 0; i++ {
		m := names[rapid.IntRange(0, len(names)-1).Draw(t, "sfx")]
		for k := 1; k < len(m) && k <= 6; k++ {
			out = append(out, m[k:], m[:len(m)-k])
		}
	}
	return out
}

func padBits(fanout int) int {
	b := 0
	for 1<<b < fanout {
		b++
	}
	return b
}

type qbNode struct {
	l  ipld.Link
	sz int64
}

func (q qbNode) Size() (int64, error) { return q.sz, nil }
func (q qbNode) Link() ipld.Link      { return q.l }

var c02Builders = []string{"sharded", "plain", "quick"}

// c02Build builds the entries with the chosen builder and returns the root.
func c02Build(st *Store, es []entrySpec, how string, fanout int) (root cid.Cid, size uint64, err error) {
	switch how {
	case "sharded":
		return buildSharded(st, es, fanout)
	case "plain":
		return buildDir(st, es)
	default:
		m := map[string]quickbuilder.Node{}
		for _, e := range es {
			m[e.Name] = qbNode{cidlink.Link{Cid: e.Cid}, int64(e.Tsize)}
		}
		err = quickbuilder.Store(st.LinkSystem(), func(b *quickbuilder.Builder) error {
			n := b.NewMapDirectory(m)
			if n == nil {
				return fmt.Errorf("NewMapDirectory returned nil")
			}
			root = cidOf(n.Link())
			sz, _ := n.Size()
			size = uint64(sz)
			return nil
		})
		return
	}
}

func estimateSize(es []entrySpec) int {
	s := 0
	for _, e := range es {
		s += len(e.Name) + e.Cid.ByteLen()
	}
	return s
}

const shardThreshold = 262144

const c02Rule = "case = (set of distinct non-empty names incl. murmur3 prefix-collision groups, fanout, builder in {sharded, plain/auto, quick}); oracle = Go map of the inserted entries " +
	"(every member via LookupByString/ByNode/BySegment/native Lookup, drawn non-members not found, MapIterator and native Iterator yield each entry exactly once, Length); " +
	"non-trivial = sharded with at least one child shard; distinct by (builder, fanout, entry-count bucket, max shard depth, name classes)"

// c02Past, when set by a property, is run on the freshly reified directory before the map check (a history the node
// must be indifferent to); it returns a description for failure messages.
type c02Past func(st *Store, dir datamodel.Node, root cid.Cid) string

func c02OneCase(st *Store, es []entrySpec, how string, fanout int, nonMembers []string) (depth int, sharded bool, err error) {
	return c02OneCasePast(st, es, how, fanout, nonMembers, nil)
}

func c02OneCasePast(st *Store, es []entrySpec, how string, fanout int, nonMembers []string, past c02Past) (depth int, sharded bool, err error) {
	root, _, err := c02Build(st, es, how, fanout)
	if err != nil {
		return 0, false, fmt.Errorf("build (%s): %v", how, err)
	}
	bi, err := st.Decode(root)
	if err != nil {
		return 0, false, err
	}
	if bi.UFS == nil {
		return 0, false, fmt.Errorf("root has no UnixFS data")
	}
	sharded = bi.UFS.GetType() == pb.Data_HAMTShard
	if how != "sharded" {
		// auto-selection: sharded iff the estimated size exceeds the threshold
		if wantSharded := estimateSize(es) > shardThreshold; wantSharded != sharded {
			return 0, sharded, fmt.Errorf("auto-sharding: estimate %d, sharded=%v", estimateSize(es), sharded)
		}
	} else if !sharded {
		return 0, sharded, fmt.Errorf("sharded builder produced type %v", bi.UFS.GetType())
	}
	depth = 1
	if sharded {
		tr, err := st.ShardTree(root)
		if err != nil {
			return 0, sharded, err
		}
		depth = tr.Depth()
	}
	want := map[string]cid.Cid{}
	for _, e := range es {
		want[e.Name] = e.Cid
	}
	// one store in five is a trusted one that hands out its receive buffer and reuses it for the next block
	st.Trusted, st.Recycle = len(es)%5 == 1, len(es)%5 == 1
	ls := st.LinkSystem()
	st.RequireSession = len(es)%3 == 0 // (the store serves only loads that carry the request's context)
	st.HonorCtx = true                 // (and refuses loads whose context is already done)
	for _, reifier := range []string{"unixfs", "unixfs-preload"} {
		dir, err := loadReified(ls, root, reifier)
		if err != nil {
			return depth, sharded, fmt.Errorf("reify (%s): %v", reifier, err)
		}
		st.RecycleNow()
		hist := ""
		if past != nil {
			hist = past(st, dir, root)
		}
		if err := checkDirIsMapOpt(dir, want, nonMembers, len(es)%2 == 0); err != nil {
			return depth, sharded, fmt.Errorf("%s builder, fanout %d, %d entries, via %s %s: %v", how, fanout, len(es), reifier, hist, err)
		}
	}
	return depth, sharded, nil
}

func TestC02_P_DirIsMap(t *testing.T) {
	ev := newEvid(t, c02Rule)
	maxN := scale(300, 3000)
	rapid.Check(t, func(t *rapid.T) {
		names, classes, fanout := genNamesFanout(t, nameOpts{Max: maxN})
		how := rapid.SampledFrom(c02Builders).Draw(t, "builder")
		salt := rapid.IntRange(0, 50).Draw(t, "salt")
		es := make([]entrySpec, len(names))
		for i, n := range names {
			es[i] = entryFor(n, salt)
		}
		// builders receive the entries in a drawn order
		es = rapid.Permutation(es).Draw(t, "order")
		nonMembers := genNonMembers(t, names, fanout)
		if how == "sharded" && rapid.IntRange(0, 19).Draw(t, "inseparable") == 0 {
			// two names whose digests agree in every bit this fanout can address (they differ only in the left-over low bits,
			// or not at all): no HAMT of this fanout can hold both, so the builder has to refuse - building something the
			// reader cannot look up would not be "that map"
			u := usableBits(fanout)
			pair := craftGroupU(rapid.Uint64().Draw(t, "insepBase"), u, 2, uint64(rapid.IntRange(0, 999).Draw(t, "insepSalt")), u)
			bad := append(append([]entrySpec{}, es...), entryFor(pair[0], salt), entryFor(pair[1], salt))
			var berr error
			var broot cid.Cid
			bst := NewStore()
			must(t, "build with inseparable names", func() { broot, _, berr = c02Build(bst, bad, how, fanout) })
			if berr == nil {
				want := map[string]cid.Cid{}
				for _, e := range bad {
					want[e.Name] = e.Cid
				}
				dir, err := loadReified(bst.LinkSystem(), broot, "unixfs")
				if err == nil {
					err = checkDirIsMapOpt(dir, want, nil, true)
				}
				if err != nil {
					t.Fatalf("C02: fanout %d, %d entries plus two names whose digests agree in all %d addressable bits: the builder returned a directory (%s) that is not the map of its entries: %v", fanout, len(es), u, broot, err)
				}
			}
			ev.Count("inseparable-pair", 1)
		}
		if how == "sharded" && len(es) > 0 && rapid.IntRange(0, 5).Draw(t, "selfRef") == 0 {
			// entries that point INTO the directory's own structure: their target is the block of one of the directory's
			// child shards (a link to a sub-shard is a link like any other: "ipfs ls" of a shard CID works, and tools that
			// pin or index blocks produce such listings). The link of an entry and the link of a shard are then equal; a
			// reader that recognises shards by their link instead of by their name takes the entry for a shard.
			pst := NewStore()
			if proot, _, perr := c02Build(pst, es, how, fanout); perr == nil {
				if tr, terr := pst.ShardTree(proot); terr == nil {
					if shards := tr.ShardsPreOrder(); len(shards) > 0 {
						for i := rapid.IntRange(1, 2).Draw(t, "selfRefs"); i > 0; i-- {
							c := shards[rapid.IntRange(0, len(shards)-1).Draw(t, "selfRefShard")]
							es = append(es, entrySpec{Name: fmt.Sprintf("self-ref-%d-%d", salt, i), Cid: c, Tsize: 1})
						}
						classes = append(classes, "self-ref")
					}
				}
			}
		}
		var depth int
		var sharded bool
		var err error
		// one case in three: before the map is checked the node lives through operations that met unavailable shards
		var past c02Past
		if rapid.IntRange(0, 2).Draw(t, "faultyPast") == 0 {
			past = func(st *Store, dir datamodel.Node, root cid.Cid) string {
				tr, err := st.ShardTree(root)
				if err != nil {
					return ""
				}
				return "after " + faultyPast(t, st, dir, tr, names)
			}
		}
		must(t, "directory build/read", func() { depth, sharded, err = c02OneCasePast(NewStore(), es, how, fanout, nonMembers, past) })
		if err != nil {
			t.Fatalf("C02: %v", err)
		}
		deep := ""
		if depth >= 5 {
			deep = "deep(>=5)"
		}
		ev.Case(fmt.Sprintf("%s f=%d n=%s d=%d %v", how, fanout, bucket(len(es)), depth, classes), sharded && depth >= 2,
			"builder:"+how, fmt.Sprintf("fanout:%d", fanout), "entries:"+bucket(len(es)), fmt.Sprintf("depth:%d", depth), deep)
		smp := names
		if len(smp) > 8 {
			smp = smp[:8]
		}
		ev.Sample(map[string]any{"builder": how, "fanout": fanout, "entries": len(es), "depth": depth, "name_classes": classes, "first_names": smp})
	})
}

// Threshold straddle: entry sets whose estimated size is exactly threshold-1, threshold, threshold+1.
// c02ThresholdPlus: the exact-threshold set (a proper prefix of the entries sums to exactly the threshold) followed by
// `extra` more entries, so the total is above the threshold.
func c02ThresholdPlus(salt, extra int) []entrySpec {
	es := c02ThresholdSet(shardThreshold, salt)
	for i := 0; i < extra; i++ {
		es = append(es, entryFor(fmt.Sprintf("zzzz-extra-%d-%d", salt, i), salt))
	}
	return es
}

func c02ThresholdSet(target int, salt int) []entrySpec {
	var es []entrySpec
	total := 0
	lastCidLen := sumRaw(nil).ByteLen()
	for i := 0; ; i++ {
		name := fmt.Sprintf("%04d-%d-%s", i, salt, strings.Repeat("n", 190))
		e := entryFor(name, salt) // mixed link lengths
		if total+len(name)+e.Cid.ByteLen() > target-(lastCidLen+1) {
			// the last entry (a CIDv1 raw link) absorbs the remainder exactly
			rem := target - total - lastCidLen
			if rem < 1 {
				panic("bad threshold construction")
			}
			last := fmt.Sprintf("L%d", salt)
			for len(last) < rem {
				last += "z"
			}
			es = append(es, entryForKind(last[:rem], salt, 0))
			return es
		}
		es = append(es, e)
		total += len(name) + e.Cid.ByteLen()
	}
}

func TestC02_P_Threshold(t *testing.T) {
	ev := newEvid(t, "auto-sharding threshold straddle: entry sets of ~1150 entries with 200-byte names whose estimate (sum of name length + CID length) is exactly 262144-1, 262144, 262144+1, built with BuildUnixFSDirectory and the quick builder; same map oracle; all cases non-trivial; distinct by (delta, builder, salt)")
	rapid.Check(t, func(t *rapid.T) {
		delta := rapid.IntRange(-1, 2).Draw(t, "delta")
		salt := rapid.IntRange(0, 9999).Draw(t, "salt")
		how := rapid.SampledFrom([]string{"plain", "quick"}).Draw(t, "builder")
		var es []entrySpec
		if delta == 2 {
			// a prefix of the entries sums to exactly the threshold, the whole set is above it
			es = c02ThresholdPlus(salt, rapid.IntRange(1, 3).Draw(t, "extra"))
		} else {
			es = c02ThresholdSet(shardThreshold+delta, salt)
			if estimateSize(es) != shardThreshold+delta {
				t.Fatalf("harness bug: estimate %d", estimateSize(es))
			}
		}
		var names []string
		for _, e := range es {
			names = append(names, e.Name)
		}
		sort.Strings(names)
		var sharded bool
		var err error
		must(t, "threshold build/read", func() { _, sharded, err = c02OneCase(NewStore(), es, how, 256, genNonMembers(t, names, 256)) })
		if err != nil {
			t.Fatalf("C02 threshold delta=%d: %v", delta, err)
		}
		ev.Case(fmt.Sprintf("thr d=%d %s s=%d", delta, how, salt), true, fmt.Sprintf("delta:%d", delta), fmt.Sprintf("sharded:%v", sharded))
		ev.Sample(map[string]any{"estimate": shardThreshold + delta, "entries": len(es), "builder": how, "sharded": sharded})
	})
}

func TestC02_R_Basics(t *testing.T) {
	// empty directories with every builder, one entry, hex-looking names that resemble shard prefixes
	for _, how := range c02Builders {
		for _, names := range [][]string{{}, {"a"}, {"00", "0", "000", "00a", "A", "FF", "FFx"}, {".", "..", " ", "%41"}} {
			var es []entrySpec
			for _, n := range names {
				es = append(es, entryFor(n, 1))
			}
			for _, f := range []int{8, 16, 256, 1024} {
				if _, _, err := c02OneCase(NewStore(), es, how, f, []string{"", "b", "0", "00", "0000a"}); err != nil {
					t.Fatalf("C02 basics: %v", err)
				}
			}
		}
	}
	// a deep pair (shares >= 45 hash bits)
	p := collisions.Pairs[0]
	es := []entrySpec{entryFor(p[0], 0), entryFor(p[1], 0), entryFor("other", 0)}
	d, _, err := c02OneCase(NewStore(), es, "sharded", 8, []string{"nope"})
	if err != nil {
		t.Fatalf("C02 deep pair: %v", err)
	}
	if d < 12 {
		t.Fatalf("harness: collision pair only produced depth %d", d)
	}
}

// TestC02_P_RepointedLinkSystem: a directory built through a link system that was used before (and re-pointed at another store)
// must be readable, as the map of its entries, from the store the link system points at now.
func TestC02_P_RepointedLinkSystem(t *testing.T) {
	ev := newEvid(t, "case = entry set (incl. the empty set) x builder x fanout built twice through one *ipld.LinkSystem re-pointed at a fresh store in between; oracle = the second directory, read from the second store, is the map of its entries (C02 oracle); every case non-trivial; distinct by (builder, fanout, size bucket)")
	rapid.Check(t, func(t *rapid.T) {
		names, _ := genNames(t, nameOpts{Max: 60})
		if rapid.IntRange(0, 3).Draw(t, "empty") == 0 {
			names = nil
		}
		fanout := genFanout(t)
		how := rapid.SampledFrom(c02Builders).Draw(t, "builder")
		var es []entrySpec
		want := map[string]cid.Cid{}
		for _, n := range names {
			e := entryFor(n, 2)
			es = append(es, e)
			want[n] = e.Cid
		}
		st1 := NewStore()
		ls := st1.LinkSystem()
		build := func() (cid.Cid, error) {
			switch how {
			case "sharded":
				l, _, err := builder.BuildUnixFSShardedDirectory(fanout, 0x22, pbEntries(es), ls)
				return linkCid(l), err
			case "plain":
				l, _, err := builder.BuildUnixFSDirectory(pbEntries(es), ls)
				return linkCid(l), err
			}
			m := map[string]quickbuilder.Node{}
			for _, e := range es {
				m[e.Name] = qbNode{cidlink.Link{Cid: e.Cid}, int64(e.Tsize)}
			}
			var c cid.Cid
			err := quickbuilder.Store(ls, func(b *quickbuilder.Builder) error { c = cidOf(b.NewMapDirectory(m).Link()); return nil })
			return c, err
		}
		var r1, r2 cid.Cid
		var err error
		must(t, "first build", func() { r1, err = build() })
		if err != nil {
			t.Fatalf("C02 re-point: first build: %v", err)
		}
		st2 := NewStore()
		ls.StorageWriteOpener, ls.StorageReadOpener = st2.openWrite, st2.openRead
		must(t, "second build", func() { r2, err = build() })
		if err != nil || r2 != r1 {
			t.Fatalf("C02 re-point: second build returned %s, %v (first %s)", r2, err, r1)
		}
		var cerr error
		must(t, "read from the second store", func() {
			dir, e := loadReified(st2.LinkSystem(), r2, "unixfs")
			if e != nil {
				cerr = fmt.Errorf("reify from the store the link system points at now: %w", e)
				return
			}
			cerr = checkDirIsMap(dir, want, []string{"", "nope"})
		})
		if cerr != nil {
			t.Fatalf("C02 re-point (%s builder, fanout %d, %d entries): %v", how, fanout, len(es), cerr)
		}
		ev.Case(fmt.Sprintf("%s f=%d n=%s", how, fanout, bucket(len(es))), true, "builder:"+how, "entries:"+bucket(len(es)))
		ev.Sample(map[string]any{"builder": how, "fanout": fanout, "entries": len(es)})
	})
}

// A sharded directory all of whose entries sit in the root block needs no further block: it is that map also when it is
// reified through a link system that has no read storage (the write-only link system it was just built with, or a bare
// default one).
func TestC02_R_SingleBlockShardedDirWithoutReadStorage(t *testing.T) {
	for _, fanout := range []int{256, 1024} {
		for n := 1; n <= 12; n += 3 {
			var es []entrySpec
			want := map[string]cid.Cid{}
			for i := 0; i < n; i++ {
				e := entryFor(fmt.Sprintf("only-%d-%d", n, i), 1)
				es = append(es, e)
				want[e.Name] = e.Cid
			}
			st := NewStore()
			root, _, err := buildSharded(st, es, fanout)
			if err != nil {
				t.Fatal(err)
			}
			if tr, err := st.ShardTree(root); err != nil || tr.Depth() != 1 {
				continue // (two names share a bucket: not a single-block directory)
			}
			pn, err := loadPlain(st.LinkSystem(), root)
			if err != nil {
				t.Fatal(err)
			}
			for _, which := range []string{"write-only", "no storage", "bare default link system"} {
				ls := *st.LinkSystem()
				ls.StorageReadOpener = nil
				if which != "write-only" {
					ls.StorageWriteOpener = nil
				}
				if which == "bare default link system" {
					ls = cidlink.DefaultLinkSystem()
				}
				dir, err := unixfsnode.Reify(lcS, pn, &ls)
				if err != nil {
					t.Fatalf("C02: single-block sharded directory (fanout %d, %d entries) reified through a link system with %s: %v", fanout, n, which, err)
				}
				if err := checkDirIsMapOpt(dir, want, []string{"nope", ""}, true); err != nil {
					t.Fatalf("C02: single-block sharded directory (fanout %d, %d entries) through a link system with %s: %v", fanout, n, which, err)
				}
			}
		}
	}
}

// A directory node that has just served a lookup reaching far down (names whose digests share 33 .. 59 leading bits sit
// tens of levels deep; more than 32 digest bits are consumed on the way) must answer the next lookups as a fresh node does:
// members whose digests agree with the deep one in the bits consumed last and differ only in earlier bits - in every order.
func TestC02_R_LookupsAfterVeryDeepLookups(t *testing.T) {
	for _, fanout := range []int{8, 16, 256, 1024} {
		for _, shared := range []int{33, 36, 40, 41, 48, 59} {
			base := 0x9e3779b97f4a7c15*uint64(shared) + uint64(fanout)
			deep := craftGroup(base, shared, 2, uint64(fanout))
			if len(deep) != 2 {
				t.Fatalf("HARNESS: crafted %d names", len(deep))
			}
			names := append([]string{}, deep...)
			hA := murmur3.Sum64([]byte(deep[0]))
			for _, k := range []int{0, 1, 2, 5, 7, 9, shared - 33, shared - 32} {
				if k < 0 || k >= shared {
					continue
				}
				nm := craftName(hA^(1<<uint(63-k)), uint64(k)+77)
				dup := false
				for _, o := range names {
					dup = dup || o == nm
				}
				if !dup {
					names = append(names, nm)
				}
			}
			for i := 0; i < 20; i++ {
				names = append(names, fmt.Sprintf("filler-%d-%d", shared, i))
			}
			es := make([]entrySpec, len(names))
			for i, n := range names {
				es[i] = entryFor(n, 0)
			}
			st := NewStore()
			root, _, err := buildSharded(st, es, fanout)
			if err != nil {
				t.Fatalf("harness: %v", err)
			}
			for _, order := range []string{"deep-first", "deep-between", "reverse"} {
				seq := append([]int{}, make([]int, 0)...)
				switch order {
				case "deep-first":
					for i := range es {
						seq = append(seq, i)
					}
				case "deep-between":
					for i := 2; i < len(es); i++ {
						seq = append(seq, 0, i, 1, i)
					}
				default:
					for i := len(es) - 1; i >= 0; i-- {
						seq = append(seq, i, 0)
					}
				}
				rn, err := loadReified(st.LinkSystem(), root, "unixfs")
				if err != nil {
					t.Fatal(err)
				}
				nd := rn.(nativeDir)
				for step, i := range seq {
					e := es[i]
					var got cid.Cid
					var lerr error
					must(t, "lookup", func() {
						switch step % 3 {
						case 0:
							var v datamodel.Node
							if v, lerr = rn.LookupByString(e.Name); lerr == nil {
								got, lerr = linkOf(v)
							}
						case 1:
							var v datamodel.Node
							if v, lerr = rn.LookupBySegment(datamodel.PathSegmentOfString(e.Name)); lerr == nil {
								got, lerr = linkOf(v)
							}
						default:
							if l := nd.Lookup(pbString(e.Name)); l == nil {
								lerr = fmt.Errorf("native Lookup: nil")
							} else {
								got = l.Link().(cidlink.Link).Cid
							}
						}
					})
					if lerr != nil || got != e.Cid {
						t.Fatalf("C02: fanout %d, two names sharing %d digest bits, order %s: lookup #%d of member %x (digest %016x) after the earlier lookups: %s, %v - a fresh node finds %s", fanout, shared, order, step, e.Name, murmur3.Sum64([]byte(e.Name)), got, lerr, e.Cid)
					}
				}
				if int(rn.Length()) != len(es) {
					t.Fatalf("C02: fanout %d, shared %d: Length %d, %d entries", fanout, shared, rn.Length(), len(es))
				}
			}
		}
	}
}
