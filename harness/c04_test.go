package harness

// C04 - file readers obey the io.ReadSeeker model under any Seek/Read history (stateful, model-based).

import (
	"bytes"
	"fmt"
	"io"
	"math"
	"math/big"
	"strings"
	"testing"

	"github.com/ipld/go-ipld-prime/datamodel"
	"pgregory.net/rapid"
)

type readerModel struct {
	rs  io.ReadSeeker
	pos int64
}

const c04Rule = "case = (file DAG shape: raw block / wrapped single node / 1..4-level trees written by the builder or boxo balanced+trickle, 1..3 readers from separate AsLargeBytes calls, history of up to ~60 Seek/Read steps with offsets aimed at 0, chunk boundaries +-1, len-1, len, len+1, negative, far past the end and at the edges of int64 (results that overflow), and with transient storage faults (the k-th next block load fails once) followed by retries); " +
	"oracle = per-reader position model over the exact content; non-trivial = history with a seek landing on a chunk boundary or past the end followed by a read, or >= 2 readers interleaved, or a failed (negative) seek followed by a read; distinct by (shape, reader count, multiset of action classes)"

func genSeekOffset(t *rapid.T, fc *fileCase) int64 {
	n := int64(len(fc.Data))
	switch rapid.IntRange(0, 8).Draw(t, "offclass") {
	case 0:
		return 0
	case 1:
		b := fc.boundaries()
		return b[rapid.IntRange(0, len(b)-1).Draw(t, "bnd")] + int64(rapid.IntRange(-1, 1).Draw(t, "bd"))
	case 2:
		return n + int64(rapid.IntRange(-1, 1).Draw(t, "ed"))
	case 3:
		return -int64(rapid.IntRange(1, 300).Draw(t, "neg"))
	case 4:
		return n + int64(rapid.IntRange(2, 1000).Draw(t, "past"))
	case 5:
		return int64(1)<<40 + int64(rapid.IntRange(0, 5).Draw(t, "far"))
	default:
		return int64(rapid.IntRange(0, int(n)+2).Draw(t, "off"))
	}
}

// nestingWriter runs onFirst inside its first Write.
type nestingWriter struct {
	buf     bytes.Buffer
	onFirst func()
}

func (w *nestingWriter) Write(p []byte) (int, error) {
	if w.onFirst != nil {
		f := w.onFirst
		w.onFirst = nil
		f()
	}
	return w.buf.Write(p)
}

func TestC04_P_ReadSeekModel(t *testing.T) {
	ev := newEvid(t, c04Rule)
	rapid.Check(t, func(t *rapid.T) {
		var fc *fileCase
		if rapid.IntRange(0, 5).Draw(t, "handmade") == 0 {
			fc = genHandFileDAG(t, true) // chunks may be empty: several chunk boundaries fall on one offset
		} else {
			fc = genFileDAG(t, 0, 200)
		}
		how := rapid.SampledFrom([]string{"Reify", "Reify", "NewUnixFSFile", "unixfs-preload", "Load+NodeReifier", "NewUnixFSFile(reified)", "NewUnixFSFile(foreign bytes node)"}).Draw(t, "open")
		node, err := c01Open(fc.St, fc.Root, how)
		if err != nil {
			t.Fatalf("open: %v", err)
		}
		lb := node.(datamodel.LargeBytesNode)
		n := int64(len(fc.Data))
		var readers []*readerModel
		newReader := func() {
			rs, err := lb.AsLargeBytes()
			if err != nil {
				t.Fatalf("C04: AsLargeBytes: %v", err)
			}
			readers = append(readers, &readerModel{rs: rs})
		}
		newReader()
		classes := map[string]int{}
		interesting := false
		armed := map[int]string{} // reader index -> pending interesting condition awaiting a read
		lastReader := -1
		interleaved := false
		pick := func(t *rapid.T) (int, *readerModel) {
			i := rapid.IntRange(0, len(readers)-1).Draw(t, "reader")
			if lastReader >= 0 && lastReader != i {
				interleaved = true
			}
			lastReader = i
			return i, readers[i]
		}
		faultsOK := !strings.HasPrefix(fc.Writer, "hand-") // (hand-made files may lack the sizes a Seek needs, and measuring swallows load errors)
		t.Repeat(map[string]func(*rapid.T){
			"transientFault": func(t *rapid.T) {
				// the k-th block load from now on fails once (a transient storage error): the operation that meets it may
				// report it, but whatever bytes are delivered, now or on a retry, must be the bytes at the reader's position
				if !faultsOK {
					t.Skip("no faults on hand-made files")
				}
				fc.St.FaultKind = genFaultKind(t)
				fc.St.FailReadAt = len(fc.St.ReadLog()) + rapid.IntRange(1, 3).Draw(t, "faultAfterLoads")
				classes["transient-fault-armed"]++
			},
			"newReader": func(t *rapid.T) {
				if len(readers) >= 3 {
					t.Skip("enough readers")
				}
				newReader()
				classes["newReader"]++
			},
			"seek": func(t *rapid.T) {
				i, r := pick(t)
				whence := rapid.IntRange(0, 2).Draw(t, "whence")
				var got int64
				var err error
				faulted := func() bool {
					if !(err != nil && isInjected(err) && fc.St.FailReadAt != 0) {
						return false
					}
					// (some readers have to load blocks to seek; the armed transient fault hit one) - the reader says where it is
					var p2 int64
					for attempt := 0; attempt < 3; attempt++ {
						must(t, "Seek(0,Current) after a faulted seek", func() { p2, err = r.rs.Seek(0, io.SeekCurrent) })
						if err == nil {
							break
						}
					}
					if err != nil || p2 < 0 {
						t.Fatalf("C04 [%s] reader %d: after a seek that met a storage fault, Seek(0,Current) = (%d, %v)", fc.Desc, i, p2, err)
					}
					r.pos = p2
					classes["seek-fault"]++
					return true
				}
				if rapid.IntRange(0, 14).Draw(t, "extreme") == 0 {
					// offsets at the edges of int64: the exact result (computed without wrap-around) is either representable,
					// and then it is the answer, or it is negative or beyond MaxInt64, and then no returned position can be right
					base := map[int]int64{io.SeekStart: 0, io.SeekCurrent: r.pos, io.SeekEnd: n}[whence]
					off := rapid.SampledFrom([]int64{math.MaxInt64, math.MaxInt64 - 1, math.MinInt64, math.MinInt64 + 1, math.MaxInt64 - base, math.MaxInt64 - base + 1, -base - 1, math.MaxInt64 / 2, math.MinInt64 / 2}).Draw(t, "edgeoff")
					exact := new(big.Int).Add(big.NewInt(base), big.NewInt(off))
					must(t, "Seek", func() { got, err = r.rs.Seek(off, whence) })
					if faulted() {
						return
					}
					if exact.Sign() < 0 || !exact.IsInt64() {
						if err == nil {
							t.Fatalf("C04 [%s] reader %d: Seek(%d, %d) from %d has the exact result %s (not a valid position) but returned (%d, nil)", fc.Desc, i, off, whence, r.pos, exact, got)
						}
						var p2 int64
						must(t, "Seek after failed seek", func() { p2, err = tellRetry(fc.St, r.rs) })
						if err != nil || p2 != r.pos {
							t.Fatalf("C04 [%s] reader %d: after the rejected Seek(%d, %d) the reader reports position (%d, %v), it was at %d", fc.Desc, i, off, whence, p2, err, r.pos)
						}
						classes["seek-int64-edge-rejected"]++
						armed[i] = "failed-seek"
						return
					}
					if err != nil || got != exact.Int64() {
						t.Fatalf("C04 [%s] reader %d: Seek(%d, %d) from %d = (%d, %v), want (%s, nil)", fc.Desc, i, off, whence, r.pos, got, err, exact)
					}
					r.pos = got
					classes["seek-int64-edge"]++
					if r.pos >= n {
						armed[i] = "past-end"
					}
					return
				}
				target := genSeekOffset(t, fc)
				var off int64
				switch whence {
				case io.SeekStart:
					off = target
				case io.SeekCurrent:
					off = target - r.pos
				case io.SeekEnd:
					off = target - n
				}
				if armed[i] == "copy" {
					interesting = true
					classes["seek-after-copy"]++
					delete(armed, i)
				}
				must(t, "Seek", func() { got, err = r.rs.Seek(off, whence) })
				if faulted() {
					return
				}
				if target < 0 {
					if err == nil {
						t.Fatalf("C04 [%s] reader %d: Seek(%d, %d) from %d lands at %d < 0 but returned (%d, nil)", fc.Desc, i, off, whence, r.pos, target, got)
					}
					// re-synchronise: the reader must still be usable and report a position
					var p2 int64
					must(t, "Seek after failed seek", func() { p2, err = tellRetry(fc.St, r.rs) })
					if err != nil || p2 < 0 {
						t.Fatalf("C04 [%s] reader %d: after a failed seek, Seek(0,Current) = (%d, %v)", fc.Desc, i, p2, err)
					}
					r.pos = p2
					classes["seek-negative"]++
					armed[i] = "failed-seek"
					return
				}
				if err != nil || got != target {
					t.Fatalf("C04 [%s] reader %d: Seek(%d, %d) from %d = (%d, %v), want (%d, nil)", fc.Desc, i, off, whence, r.pos, got, err, target)
				}
				r.pos = target
				switch {
				case target >= n:
					classes["seek-at/past-end"]++
					armed[i] = "past-end"
				default:
					onb := false
					for _, b := range fc.boundaries() {
						if b == target && b != 0 {
							onb = true
						}
					}
					if onb {
						classes["seek-boundary"]++
						armed[i] = "boundary"
					} else {
						classes["seek-interior"]++
					}
				}
			},
			"copy": func(t *rapid.T) {
				// io.Copy takes the reader's WriterTo when it has one; either way the rest of the file must come out and the
				// position must end up at the end (or stay where it was, if already past it)
				i, r := pick(t)
				var buf bytes.Buffer
				var err error
				must(t, "io.Copy", func() { _, err = io.Copy(&buf, r.rs) })
				if err != nil && isInjected(err) && fc.St.FailReadAt != 0 {
					if buf.Len() > 0 && (r.pos >= n || r.pos+int64(buf.Len()) > n || !bytes.Equal(buf.Bytes(), fc.Data[r.pos:r.pos+int64(buf.Len())])) {
						t.Fatalf("C04 [%s] reader %d: io.Copy from %d stopped by a storage fault after delivering %d wrong bytes", fc.Desc, i, r.pos, buf.Len())
					}
					r.pos += int64(buf.Len())
					classes["copy-fault"]++
					armed[i] = "fault"
					return
				}
				if err != nil {
					t.Fatalf("C04 [%s] reader %d: io.Copy from %d: %v", fc.Desc, i, r.pos, err)
				}
				var want []byte
				if r.pos < n {
					want = fc.Data[r.pos:]
				}
				if !bytes.Equal(buf.Bytes(), want) {
					t.Fatalf("C04 [%s] reader %d: io.Copy from %d delivered %d bytes, want %d", fc.Desc, i, r.pos, buf.Len(), len(want))
				}
				if r.pos < n {
					r.pos = n
				}
				classes["copy"]++
				armed[i] = "copy"
			},
			"nestedCopy": func(t *rapid.T) {
				// two copies in flight at once on one goroutine: the destination of the first copy, when it is first written
				// to, copies a second reader of the same file to its end (a tee that serves another request, a writer that
				// flushes a side stream). Whatever scratch space the copies use, each must deliver its own reader's bytes.
				if len(readers) < 2 {
					t.Skip("one reader")
				}
				if fc.St.FailReadAt != 0 && len(fc.St.ReadLog()) < fc.St.FailReadAt {
					t.Skip("a transient fault is armed")
				}
				i := rapid.IntRange(0, len(readers)-1).Draw(t, "outer")
				j := (i + 1 + rapid.IntRange(0, len(readers)-2).Draw(t, "innerOffset")) % len(readers)
				ra, rb := readers[i], readers[j]
				var inner bytes.Buffer
				var ierr error
				innerRan := false
				runInner := func() {
					innerRan = true
					_, ierr = io.Copy(&inner, rb.rs)
				}
				outer := &nestingWriter{onFirst: runInner}
				var oerr error
				must(t, "nested io.Copy", func() {
					_, oerr = io.Copy(outer, ra.rs)
					if !innerRan {
						runInner()
					}
				})
				if oerr != nil || ierr != nil {
					t.Fatalf("C04 [%s] readers %d/%d: nested io.Copy: outer %v, inner %v", fc.Desc, i, j, oerr, ierr)
				}
				for _, c := range []struct {
					r   *readerModel
					got []byte
					who string
				}{{ra, outer.buf.Bytes(), "outer"}, {rb, inner.Bytes(), "inner"}} {
					var want []byte
					if c.r.pos < n {
						want = fc.Data[c.r.pos:]
					}
					if !bytes.Equal(c.got, want) {
						t.Fatalf("C04 [%s] readers %d/%d: two io.Copy calls in flight at once (the second started from the first one's writer): the %s copy from %d delivered %d bytes that differ from the file's at %d (want %d bytes)", fc.Desc, i, j, c.who, c.r.pos, len(c.got), firstDiff(c.got, want), len(want))
					}
					if c.r.pos < n {
						c.r.pos = n
					}
				}
				armed[i], armed[j] = "copy", "copy"
				lastReader = j
				interleaved = true
				classes["nested-copy"]++
			},
			"copyIntoFailingWriter": func(t *rapid.T) {
				// io.Copy into a destination that accepts a drawn number of bytes and then fails (a closed pipe, a full disk).
				// How far the SOURCE got is its own business (a copy may have read ahead), but the next Read must hand out
				// the bytes that lie just before the position the reader then reports.
				i, r := pick(t)
				if r.pos >= n {
					t.Skip("at end")
				}
				accept := rapid.IntRange(0, int(n-r.pos)).Draw(t, "accept")
				dst := &failingWriter{room: accept}
				var cerr error
				must(t, "io.Copy into a failing writer", func() { _, cerr = io.Copy(dst, r.rs) })
				if !bytes.Equal(dst.buf.Bytes(), fc.Data[r.pos:r.pos+int64(dst.buf.Len())]) {
					t.Fatalf("C04 [%s] reader %d: io.Copy from %d wrote wrong bytes before the writer failed", fc.Desc, i, r.pos)
				}
				if cerr == nil && r.pos+int64(dst.buf.Len()) != n {
					t.Fatalf("C04 [%s] reader %d: io.Copy from %d ended without error after %d bytes (file has %d)", fc.Desc, i, r.pos, dst.buf.Len(), n)
				}
				buf := make([]byte, rapid.IntRange(1, 9).Draw(t, "k"))
				var got int
				var rerr error
				must(t, "Read after the failed copy", func() { got, rerr = r.rs.Read(buf) })
				var p int64
				var serr error
				must(t, "Seek(0,Current)", func() { p, serr = tellRetry(fc.St, r.rs) })
				if serr != nil || p < r.pos+int64(dst.buf.Len()) || p > n || p-int64(got) < 0 {
					t.Fatalf("C04 [%s] reader %d: after a copy from %d that wrote %d bytes and a Read of %d bytes the reader reports position (%d, %v)", fc.Desc, i, r.pos, dst.buf.Len(), got, p, serr)
				}
				if !bytes.Equal(buf[:got], fc.Data[p-int64(got):p]) || (rerr != nil && rerr != io.EOF && !(isInjected(rerr) && fc.St.FailReadAt != 0)) {
					t.Fatalf("C04 [%s] reader %d: after an io.Copy cut short by its writer, Read returned %x (err %v) and the reader then reports position %d: the bytes just before that position are %x", fc.Desc, i, buf[:got], rerr, p, fc.Data[p-int64(got):p])
				}
				r.pos = p
				classes["copy-into-failing-writer"]++
			},
			"read": func(t *rapid.T) {
				i, r := pick(t)
				k := rapid.SampledFrom([]int{0, 1, 2, 3, fc.CS, fc.CS + 1, 17, len(fc.Data), len(fc.Data) + 7}).Draw(t, "k")
				buf := make([]byte, k)
				var got int
				var err error
				zero := 0
				for {
					must(t, "Read", func() { got, err = r.rs.Read(buf) })
					if got == 0 && err == nil && k > 0 && r.pos < n {
						zero++
						if zero > 10 {
							t.Fatalf("C04 [%s] reader %d: Read makes no progress at %d", fc.Desc, i, r.pos)
						}
						continue
					}
					break
				}
				if got < 0 || got > k {
					t.Fatalf("C04 [%s] reader %d: Read(%d) returned n=%d", fc.Desc, i, k, got)
				}
				if r.pos >= n {
					if got == 0 && err != nil && isInjected(err) && fc.St.FailReadAt != 0 {
						classes["read-fault"]++
						return
					}
					if k > 0 && (got != 0 || err != io.EOF) {
						t.Fatalf("C04 [%s] reader %d: Read(%d) at %d (len %d) = (%d, %v), want (0, EOF)", fc.Desc, i, k, r.pos, n, got, err)
					}
					if k == 0 && (got != 0 || (err != nil && err != io.EOF)) {
						t.Fatalf("C04 [%s] reader %d: Read(0) at end = (%d, %v)", fc.Desc, i, got, err)
					}
					classes["read-at-end"]++
				} else {
					if err != nil && isInjected(err) && fc.St.FailReadAt != 0 {
						if got > 0 && (r.pos+int64(got) > n || !bytes.Equal(buf[:got], fc.Data[r.pos:r.pos+int64(got)])) {
							t.Fatalf("C04 [%s] reader %d: Read(%d) at %d met a storage fault and delivered wrong bytes %x", fc.Desc, i, k, r.pos, buf[:got])
						}
						r.pos += int64(got)
						classes["read-fault"]++
						armed[i] = "fault"
						return
					}
					if err != nil && !(err == io.EOF && r.pos+int64(got) == n) {
						t.Fatalf("C04 [%s] reader %d: Read(%d) at %d = (%d, %v)", fc.Desc, i, k, r.pos, got, err)
					}
					if !bytes.Equal(buf[:got], fc.Data[r.pos:r.pos+int64(got)]) {
						t.Fatalf("C04 [%s] reader %d: Read(%d) at %d returned wrong bytes %x, want %x", fc.Desc, i, k, r.pos, buf[:got], fc.Data[r.pos:r.pos+int64(got)])
					}
					r.pos += int64(got)
					classes["read"]++
				}
				if a := armed[i]; a != "" && k > 0 {
					interesting = true
					classes["read-after-"+a]++
					delete(armed, i)
				}
			},
		})
		fc.St.FailReadAt = 0
		// final consistency: every reader reports its modelled position and reads the exact remainder
		for i, r := range readers {
			p, err := r.rs.Seek(0, io.SeekCurrent)
			if err != nil || p != r.pos {
				t.Fatalf("C04 [%s] reader %d: final Seek(0,Current) = (%d, %v), model %d", fc.Desc, i, p, err, r.pos)
			}
			rest, err := io.ReadAll(r.rs)
			var want []byte
			if r.pos < n {
				want = fc.Data[r.pos:]
			}
			if err != nil || !bytes.Equal(rest, want) {
				t.Fatalf("C04 [%s] reader %d: remainder from %d: %d bytes, err %v; want %d bytes", fc.Desc, i, r.pos, len(rest), err, len(want))
			}
		}
		nt := interesting || (len(readers) >= 2 && interleaved)
		keys := ""
		for _, k := range []string{"seek-boundary", "seek-at/past-end", "seek-negative", "seek-interior", "read", "read-at-end", "read-after-boundary", "read-after-past-end", "read-after-failed-seek", "read-after-fault", "seek-int64-edge-rejected"} {
			keys += fmt.Sprintf("%s=%s,", k, bucket(classes[k]))
		}
		cl := []string{"writer:" + fc.Writer, fmt.Sprintf("depth:%d", fc.Tree.Depth()), fmt.Sprintf("readers:%d", len(readers)), "open:" + how}
		for k, v := range classes {
			if v > 0 {
				cl = append(cl, "has:"+k)
			}
		}
		ev.Case(fmt.Sprintf("%s d=%d r=%d %s", fc.Writer, fc.Tree.Depth(), len(readers), keys), nt, cl...)
		ev.Sample(map[string]any{"file": fc.Desc, "readers": len(readers), "open": how, "action_counts": classes})
	})
}

// F1 (fixed): a seek before offset zero returns an error and leaves the reader usable.
func TestC04_R_F1_NegativeSeek(t *testing.T) {
	for _, c := range []struct {
		n, cs, w int
	}{{2, 1, 2}, {5, 9, 2}, {0, 1, 2}, {40, 3, 3}} {
		data := lcgBytes(c.n, 9, 0)
		st := NewStore()
		root, _, err := buildFile(st, data, fmt.Sprintf("size-%d", c.cs), c.w)
		if err != nil {
			t.Fatal(err)
		}
		for _, how := range []string{"Reify", "NewUnixFSFile"} {
			node, err := c01Open(st, root, how)
			if err != nil {
				t.Fatal(err)
			}
			for _, sk := range [][2]int64{{-1, io.SeekStart}, {-1, io.SeekCurrent}, {-int64(c.n) - 1, io.SeekEnd}} {
				rs, _ := node.(datamodel.LargeBytesNode).AsLargeBytes()
				var p int64
				var serr error
				must(t, "Seek", func() { p, serr = rs.Seek(sk[0], int(sk[1])) })
				if serr == nil {
					t.Fatalf("C04 F1: n=%d %s: Seek(%d,%d) = (%d, nil)", c.n, how, sk[0], sk[1], p)
				}
				var rest []byte
				must(t, "Read after failed seek", func() { rest, serr = io.ReadAll(rs) })
				if serr != nil || !bytes.Equal(rest, data) {
					t.Fatalf("C04 F1: n=%d %s: after failed seek read %d bytes, err %v; want all %d bytes", c.n, how, len(rest), serr, len(data))
				}
			}
		}
	}
}

const c04HealRule = "case = hand-assembled file DAG (empty chunks, dag-pb or raw leaves, with or without BlockSizes / FileSize - without them the length has to be worked out by opening children) + 1..2 end-relative Seeks while the k-th next block load fails once (their results are not judged: measuring swallows load errors) + storage healthy again; " +
	"oracle = afterwards Seek(0, End) on the used reader and on a fresh one equals the true length and Seek(-1, End) + Read yields the last byte; non-trivial = file without FileSize; distinct by (shape, fault position)"

// TestC04_P_LengthAfterTransientFault: whatever an end-relative seek made of a storage fault, it must not stick to the node.
func TestC04_P_LengthAfterTransientFault(t *testing.T) {
	ev := newEvid(t, c04HealRule)
	rapid.Check(t, func(t *rapid.T) {
		fc := genHandFileDAG(t, true)
		n := int64(len(fc.Data))
		how := rapid.SampledFrom([]string{"Reify", "NewUnixFSFile", "unixfs-preload"}).Draw(t, "open")
		node, err := c01Open(fc.St, fc.Root, how)
		if err != nil {
			t.Fatalf("open: %v", err)
		}
		lb := node.(datamodel.LargeBytesNode)
		used, _ := lb.AsLargeBytes()
		for i := rapid.IntRange(1, 2).Draw(t, "faultySeeks"); i > 0; i-- {
			fc.St.FaultKind = genFaultKind(t)
			fc.St.FailReadAt = len(fc.St.ReadLog()) + rapid.IntRange(1, 3).Draw(t, "faultAfterLoads")
			must(t, "end-relative Seek under a transient fault", func() {
				_, _ = used.Seek(-int64(rapid.IntRange(0, int(n)).Draw(t, "back")), io.SeekEnd)
			})
			fc.St.FailReadAt, fc.St.FaultKind = 0, 0
		}
		fresh, _ := lb.AsLargeBytes()
		for ri, rs := range []io.ReadSeeker{used, fresh} {
			name := []string{"the reader that met the fault", "a fresh reader of the same node"}[ri]
			var end int64
			var err error
			must(t, "Seek(0, End)", func() { end, err = rs.Seek(0, io.SeekEnd) })
			if err != nil || end != n {
				t.Fatalf("C04 [%s via %s]: after a transient storage fault during an end-relative seek, Seek(0, End) on %s = (%d, %v), the file has %d bytes", fc.Desc, how, name, end, err, n)
			}
			if n > 0 {
				var p int64
				must(t, "Seek(-1, End)", func() { p, err = rs.Seek(-1, io.SeekEnd) })
				b := make([]byte, 4)
				k, rerr := rs.Read(b)
				if err != nil || p != n-1 || k != 1 || b[0] != fc.Data[n-1] || (rerr != nil && rerr != io.EOF) {
					t.Fatalf("C04 [%s via %s]: on %s Seek(-1, End) = (%d, %v) then Read = (%d, %v) %x; want position %d and the last byte %x", fc.Desc, how, name, p, err, k, rerr, b[:k], n-1, fc.Data[n-1])
				}
			}
		}
		noFS := strings.Contains(fc.Writer, "fs=false")
		ev.Case(fc.Writer+" "+how, noFS, "open:"+how, fmt.Sprintf("noFileSize:%v", noFS))
		ev.Sample(map[string]any{"file": fc.Desc, "open": how})
	})
}

// failingWriter accepts `room` bytes in total and then fails (a short write with an error, as a full pipe gives).
type failingWriter struct {
	buf  bytes.Buffer
	room int
}

func (w *failingWriter) Write(p []byte) (int, error) {
	if len(p) <= w.room {
		w.room -= len(p)
		return w.buf.Write(p)
	}
	k := w.room
	w.room = 0
	w.buf.Write(p[:k])
	return k, fmt.Errorf("writer is full")
}

// tellRetry asks the reader for its position; readers that have to load blocks for that may meet an armed transient
// fault, so an injected error is retried (the fault is one-shot).
func tellRetry(st *Store, rs io.ReadSeeker) (p int64, err error) {
	for attempt := 0; attempt < 4; attempt++ {
		p, err = rs.Seek(0, io.SeekCurrent)
		if err == nil || !(isInjected(err) && st.FailReadAt != 0) {
			return
		}
	}
	return
}

// Small leaves that a writer inlined (identity CIDs: the block is the link) in a file read through a link system whose raw
// codec frames its blocks: the inlined block is longer than the content it carries, and the sizes the reader positions by
// are the recorded ones (BlockSizes / Tsize = content length). Every positioned read returns content[off:].
func TestC04_R_InlinedLeavesUnderFramingRawCodecs(t *testing.T) {
	for _, env := range []int{0, 1, 3, RawEnvelopeUvarint, RawEnvelopeStuffed} {
		for _, layout := range []string{"all-inlined", "alternating", "two-levels"} {
			st := NewStore()
			st.RawEnvelope = env
			st.RawEnvelopeRead = true
			ls := st.LinkSystem()
			var content []byte
			var kids []*mnode
			var sizes []uint64
			for i := 0; i < 9; i++ {
				c := lcgBytes(1+(i*5)%7, byte(i)+3, 0)
				if i == 4 {
					c = []byte{0x7D, 0x7D, 0x01, 0x7D} // (bytes the stuffing codec escapes)
				}
				content = append(content, c...)
				kids = append(kids, &mnode{IsRaw: true, Raw: c, Inline: layout != "alternating" || i%2 == 0})
				sizes = append(sizes, uint64(len(c)))
			}
			node := func(ks []*mnode, ss []uint64) (*mnode, uint64) {
				m := &mnode{HasData: true, UFS: &ufsFields{Type: 2}}
				tot := uint64(0)
				for i, k := range ks {
					m.Links = append(m.Links, mlink{Tsize: i64p(int64(ss[i])), Child: k})
					m.UFS.BlockSizes = append(m.UFS.BlockSizes, ss[i])
					tot += ss[i]
				}
				m.UFS.FileSize = u64p(tot)
				return m, tot
			}
			var root *mnode
			if layout == "two-levels" {
				a, as := node(kids[:4], sizes[:4])
				b, bs := node(kids[4:], sizes[4:])
				root, _ = node([]*mnode{a, b}, []uint64{as, bs})
			} else {
				root, _ = node(kids, sizes)
			}
			c, err := root.store(st, ls)
			if err != nil {
				t.Fatalf("harness: %v", err)
			}
			rn, err := loadReified(ls, c, "unixfs")
			if err != nil {
				t.Fatalf("C04: inlined leaves, envelope %d, %s: %v", env, layout, err)
			}
			for off := 0; off <= len(content); off++ {
				rs, err := rn.(datamodel.LargeBytesNode).AsLargeBytes()
				if err != nil {
					t.Fatal(err)
				}
				if p, err := rs.Seek(int64(off), io.SeekStart); err != nil || p != int64(off) {
					t.Fatalf("C04: inlined leaves, envelope %d, %s: Seek(%d) = %d, %v", env, layout, off, p, err)
				}
				got, err := io.ReadAll(rs)
				if err != nil || !bytes.Equal(got, content[off:]) {
					t.Fatalf("C04: inlined leaves under a framing raw codec (envelope %d, %s): after Seek(%d) the rest reads as %x (err %v), the content there is %x", env, layout, off, got, err, content[off:])
				}
				if p, err := rs.Seek(0, io.SeekEnd); err != nil || p != int64(len(content)) {
					t.Fatalf("C04: inlined leaves, envelope %d, %s: Seek(0, end) = %d, %v; length %d", env, layout, p, err, len(content))
				}
			}
		}
	}
}
