// Package hooksweep holds the only checks that need the build-tagged hooks in /repo (tag "verif"):
// an exhaustive (offset, width) agreement sweep of the two hash-bit helpers (DESIGN.md section 5).
package hooksweep
