//go:build verif

package hooksweep

import (
	"encoding/binary"
	"encoding/json"
	"os"
	"path/filepath"
	"testing"

	"github.com/ipfs/go-unixfsnode/data/builder"
	"github.com/ipfs/go-unixfsnode/hamt"
	"pgregory.net/rapid"
)

// sweep checks, for one 8-byte digest, every offset 0..63 and width 1..10: the reader-side helper, the
// builder-side helper and the 64-bit-shift reference agree, and both report an error past the end.
func sweep(t *testing.T, prop string) {
	evals, nt := 0, map[[2]int]bool{}
	rapid.Check(t, func(t *rapid.T) {
		h := rapid.SliceOfN(rapid.Byte(), 8, 8).Draw(t, "hash")
		v := binary.BigEndian.Uint64(h)
		for off := 0; off < 64; off++ {
			for w := 1; w <= 10; w++ {
				a, ea := hamt.VerifNextBits(h, off, w)
				b, eb := builder.VerifSliceBits(h, off, w)
				if off+w > 64 {
					if ea == nil || eb == nil {
						t.Fatalf("%s hashbits: no error past the end off=%d w=%d (reader err=%v builder err=%v)", prop, off, w, ea, eb)
					}
					continue
				}
				want := int((v << uint(off)) >> uint(64-w))
				if ea != nil || eb != nil || a != want || b != want {
					t.Fatalf("%s hashbits: hash=%x off=%d w=%d reader=%d,%v builder=%d,%v want=%d", prop, h, off, w, a, ea, b, eb, want)
				}
				evals++
				if off%8+w > 8 { // crosses a byte boundary
					nt[[2]int{off, w}] = true
				}
			}
		}
	})
	if dir := os.Getenv("VERIF_EVID_DIR"); dir != "" {
		hs := []string{}
		for k := range nt {
			hs = append(hs, string(rune('A'+k[1]))+string(rune('0'+k[0]/10))+string(rune('0'+k[0]%10)))
		}
		b, _ := json.Marshal(map[string]any{
			"evaluations": evals, "nontrivial_cases": evals, "nontrivial_fingerprints": hs,
			"classes": map[string]int{"offset_width_pairs": len(hs)},
			"samples": []any{map[string]any{"offset": 61, "width": 3}, map[string]any{"offset": 47, "width": 10}},
			"rule":    "hook sweep: for each generated 8-byte digest every (offset 0..63, width 1..10); reader-side Next, builder-side Slice and a 64-bit shift reference must agree; non-trivial = extraction crosses a byte boundary; distinct by (offset,width)",
		})
		_ = os.WriteFile(filepath.Join(dir, t.Name()+".0.json"), b, 0o644)
	}
}

func TestC02_H_HashBitsSweep(t *testing.T) { sweep(t, "C02") }
func TestC08_H_HashBitsSweep(t *testing.T) { sweep(t, "C08") }
