package harness

// C01 - file build->read round trip returns exactly the original bytes (own builder and reference writers).

import (
	"bytes"
	"fmt"
	"github.com/ipld/go-ipld-prime/node/basicnode"
	"io"
	"testing"

	pb "github.com/ipfs/boxo/ipld/unixfs/pb"
	"github.com/ipfs/go-cid"
	"github.com/ipfs/go-unixfsnode"
	"github.com/ipfs/go-unixfsnode/file"
	"github.com/ipld/go-ipld-prime/datamodel"
	cidlink "github.com/ipld/go-ipld-prime/linking/cid"
	"pgregory.net/rapid"
)

type plainReader struct{ r io.Reader } // hides WriterTo / ReaderFrom shortcuts

func (p plainReader) Read(b []byte) (int, error) { return p.r.Read(b) }

var c01Readers = []string{"NewUnixFSFile", "Reify", "unixfs-preload", "Load+NodeReifier"}

// c01Open opens root through one of the documented read paths.
func c01Open(st *Store, root cid.Cid, how string) (datamodel.Node, error) {
	ls := st.LinkSystem()
	switch how {
	case "NewUnixFSFile":
		n, err := loadPlain(ls, root)
		if err != nil {
			return nil, err
		}
		return file.NewUnixFSFile(sessionCtx, n, ls)
	case "Reify", "unixfs-preload":
		name := map[string]string{"Reify": "unixfs", "unixfs-preload": "unixfs-preload"}[how]
		if b := root.Bytes(); !st.RequireSession && b[len(b)-1]&1 == 1 {
			// half of the files are reified with the zero LinkContext (no context at all), as callers outside a traversal do
			n, err := loadPlain(ls, root)
			if err != nil {
				return nil, err
			}
			return ls.KnownReifiers[name](lc0, n, ls)
		}
		return loadReified(ls, root, name)
	case "NewUnixFSFile(reified)":
		// the file constructor handed a node that is a (lazily) reified file already
		rn, err := loadReified(ls, root, "unixfs")
		if err != nil {
			return nil, err
		}
		return file.NewUnixFSFile(sessionCtx, rn, ls)
	case "NewUnixFSFile(foreign bytes node)":
		// the file constructor over a caller-implemented bytes node that offers a reader of its own, one that is far more
		// forgiving than the io.ReadSeeker contract (no errors on negative positions, one shared reader for all callers):
		// the file's readers are the library's own
		rn, err := loadReified(ls, root, "unixfs")
		if err != nil {
			return nil, err
		}
		b, err := rn.AsBytes()
		if err != nil {
			return nil, err
		}
		return file.NewUnixFSFile(sessionCtx, &foreignBytesNode{Node: basicnode.NewBytes(b), shared: &sloppyReader{b: b}}, ls)
	default:
		ls.NodeReifier = unixfsnode.Reify
		return ls.Load(lcS, cidlink.Link{Cid: root}, protoForCid(root))
	}
}

// foreignBytesNode is a bytes node from "another implementation": it implements LargeBytesNode with a sloppy, shared reader.
type foreignBytesNode struct {
	datamodel.Node
	shared *sloppyReader
}

func (f *foreignBytesNode) AsLargeBytes() (io.ReadSeeker, error) { return f.shared, nil }

type sloppyReader struct {
	b   []byte
	pos int64
}

func (r *sloppyReader) Seek(off int64, whence int) (int64, error) {
	switch whence {
	case io.SeekCurrent:
		r.pos += off
	case io.SeekEnd:
		r.pos = int64(len(r.b)) + off
	default:
		r.pos = off
	}
	return r.pos, nil // (never an error, also for negative positions)
}

func (r *sloppyReader) Read(p []byte) (int, error) {
	if r.pos < 0 || r.pos >= int64(len(r.b)) {
		return 0, io.EOF
	}
	n := copy(p, r.b[r.pos:])
	r.pos += int64(n)
	return n, nil
}

// c01CheckRead verifies every read-side claim of C01 for one stored file.
func c01CheckRead(st *Store, root cid.Cid, data []byte, how string, bufSize int) error {
	n, err := c01Open(st, root, how)
	if err != nil {
		return fmt.Errorf("open via %s: %v", how, err)
	}
	if n.Kind() != datamodel.Kind_Bytes {
		return fmt.Errorf("%s: kind %s, want bytes", how, n.Kind())
	}
	got, err := n.AsBytes()
	if err != nil {
		return fmt.Errorf("%s: AsBytes: %v", how, err)
	}
	if !bytes.Equal(got, data) {
		return fmt.Errorf("%s: AsBytes returned %d bytes, want %d (first diff at %d)", how, len(got), len(data), firstDiff(got, data))
	}
	lb, ok := n.(datamodel.LargeBytesNode)
	if !ok {
		return fmt.Errorf("%s: %T is not a LargeBytesNode", how, n)
	}
	rs, err := lb.AsLargeBytes()
	if err != nil {
		return fmt.Errorf("%s: AsLargeBytes: %v", how, err)
	}
	var out bytes.Buffer
	if _, err := io.CopyBuffer(struct{ io.Writer }{&out}, plainReader{rs}, make([]byte, bufSize)); err != nil {
		return fmt.Errorf("%s: streamed read (buf %d): %v", how, bufSize, err)
	}
	if !bytes.Equal(out.Bytes(), data) {
		return fmt.Errorf("%s: streamed read (buf %d) returned %d bytes, want %d (first diff at %d)", how, bufSize, out.Len(), len(data), firstDiff(out.Bytes(), data))
	}
	rs2, _ := lb.AsLargeBytes()
	end, err := rs2.Seek(0, io.SeekEnd)
	if err != nil || end != int64(len(data)) {
		return fmt.Errorf("%s: Seek(0,End) = %d,%v want %d", how, end, err, len(data))
	}
	// streamed read by io.Copy straight from the reader (which may use a WriterTo the reader offers), then the reader must
	// know it is at the end, and a relative seek back must land where it says
	rs3, _ := lb.AsLargeBytes()
	var out3 bytes.Buffer
	if _, err := io.Copy(&out3, rs3); err != nil || !bytes.Equal(out3.Bytes(), data) {
		return fmt.Errorf("%s: io.Copy from the reader delivered %d bytes (err %v), want %d", how, out3.Len(), err, len(data))
	}
	if p, err := rs3.Seek(0, io.SeekCurrent); err != nil || p != int64(len(data)) {
		return fmt.Errorf("%s: after io.Copy of the whole file the reader reports position %d (err %v), want %d", how, p, err, len(data))
	}
	if k := int64(len(data)) / 3; k > 0 {
		if p, err := rs3.Seek(-k, io.SeekCurrent); err != nil || p != int64(len(data))-k {
			return fmt.Errorf("%s: Seek(-%d,Current) after io.Copy = %d,%v want %d", how, k, p, err, int64(len(data))-k)
		}
		tail, err := io.ReadAll(plainReader{rs3})
		if err != nil || !bytes.Equal(tail, data[int64(len(data))-k:]) {
			return fmt.Errorf("%s: tail after io.Copy + relative seek: %d bytes (err %v), want %d", how, len(tail), err, k)
		}
	}
	// a streamed read in which some Read calls pass an empty buffer (legal for any io.Reader: it returns 0 bytes and must
	// not be mistaken for the end)
	{
		rs7, _ := lb.AsLargeBytes()
		var out7 []byte
		buf := make([]byte, bufSize)
		for i := 0; i < 1<<22; i++ {
			if i%3 == 1 {
				if n, err := rs7.Read(buf[:0]); n != 0 || (err != nil && !(err == io.EOF && len(out7) == len(data))) {
					return fmt.Errorf("%s: Read with an empty buffer after %d of %d bytes returned (%d, %v)", how, len(out7), len(data), n, err)
				}
			}
			n, err := rs7.Read(buf)
			out7 = append(out7, buf[:n]...)
			if err == io.EOF {
				break
			}
			if err != nil {
				return fmt.Errorf("%s: streamed read with empty reads in between: %v", how, err)
			}
		}
		if !bytes.Equal(out7, data) {
			return fmt.Errorf("%s: streamed read (buf %d) with zero-length reads in between returned %d bytes, want %d (first diff at %d)", how, bufSize, len(out7), len(data), firstDiff(out7, data))
		}
	}
	// io.Copy (which uses a WriterTo when the reader offers one) from a reader that is not at the start: positioned by a
	// Seek to an interior offset, and after a partial Read
	if len(data) >= 3 {
		k := int64(len(data)/3 + bufSize%2)
		rs5, _ := lb.AsLargeBytes()
		if _, err := rs5.Seek(k, io.SeekStart); err != nil {
			return fmt.Errorf("%s: Seek(%d,Start): %v", how, k, err)
		}
		var out5 bytes.Buffer
		if _, err := io.Copy(&out5, rs5); err != nil || !bytes.Equal(out5.Bytes(), data[k:]) {
			return fmt.Errorf("%s: io.Copy after Seek(%d,Start) delivered %d bytes (err %v), want %d (first diff at %d)", how, k, out5.Len(), err, int64(len(data))-k, firstDiff(out5.Bytes(), data[k:]))
		}
		rs6, _ := lb.AsLargeBytes()
		head := make([]byte, 1+bufSize%int(k+1))
		hn, err := io.ReadFull(rs6, head)
		if err != nil || !bytes.Equal(head[:hn], data[:hn]) {
			return fmt.Errorf("%s: ReadFull of the first %d bytes: %d, %v", how, len(head), hn, err)
		}
		var out6 bytes.Buffer
		if _, err := io.Copy(&out6, rs6); err != nil || !bytes.Equal(out6.Bytes(), data[hn:]) {
			return fmt.Errorf("%s: io.Copy after reading the first %d bytes delivered %d bytes (err %v), want %d (first diff at %d)", how, hn, out6.Len(), err, len(data)-hn, firstDiff(out6.Bytes(), data[hn:]))
		}
		if p, err := rs6.Seek(0, io.SeekCurrent); err != nil || p != int64(len(data)) {
			return fmt.Errorf("%s: position after read + io.Copy = %d,%v want %d", how, p, err, len(data))
		}
	}
	// streamed read from an interior position over storage that fails one load (transiently): the caller retries the
	// Read that reported the error; what comes out in the end must be exactly the rest of the file
	if len(data) >= 3 {
		rs4, _ := lb.AsLargeBytes()
		k := int64(len(data)/3 + bufSize%2)
		if p, err := rs4.Seek(k, io.SeekStart); err != nil || p != k {
			return fmt.Errorf("%s: Seek(%d,Start) = %d,%v", how, k, p, err)
		}
		st.FaultKind = (bufSize + len(data)) % len(faultKinds)
		st.FailReadAt = len(st.ReadLog()) + 1 + bufSize%3
		var out4 []byte
		buf := make([]byte, bufSize)
		retries := 0
		for i := 0; i < 1<<22; i++ {
			n, err := rs4.Read(buf)
			out4 = append(out4, buf[:n]...)
			if err == io.EOF {
				break
			}
			if err != nil {
				if !isInjected(err) {
					st.FailReadAt, st.FaultKind = 0, 0
					return fmt.Errorf("%s: streamed read from %d over flaky storage: %v", how, k, err)
				}
				if retries++; retries > 3 {
					st.FailReadAt, st.FaultKind = 0, 0
					return fmt.Errorf("%s: streamed read from %d: a single transient storage fault keeps being reported: %v", how, k, err)
				}
			}
		}
		st.FailReadAt, st.FaultKind = 0, 0
		if !bytes.Equal(out4, data[k:]) {
			return fmt.Errorf("%s: streamed read (buf %d) from %d over storage that failed one load and was retried (%d retries) returned %d bytes, want %d (first diff at %d)", how, bufSize, k, retries, len(out4), len(data)-int(k), firstDiff(out4, data[k:]))
		}
	}
	return nil
}

func firstDiff(a, b []byte) int {
	for i := 0; i < len(a) && i < len(b); i++ {
		if a[i] != b[i] {
			return i
		}
	}
	if len(a) < len(b) {
		return len(a)
	}
	return len(b)
}

// c01DeclaredSize checks the declared file size in the root block (decoded by the reference decoder).
func c01DeclaredSize(st *Store, root cid.Cid, n int) error {
	bi, err := st.Decode(root)
	if err != nil {
		return err
	}
	if !bi.IsPB || bi.UFS == nil {
		return nil
	}
	if bi.UFS.GetType() != pb.Data_File && bi.UFS.GetType() != pb.Data_Raw {
		return fmt.Errorf("root type %v", bi.UFS.GetType())
	}
	if len(bi.Links) > 0 && (bi.UFS.Filesize == nil || bi.UFS.GetFilesize() != uint64(n)) {
		return fmt.Errorf("declared FileSize %v, want %d", bi.UFS.Filesize, n)
	}
	return nil
}

// c01Reader draws the read path. With LinkSystem.NodeReifier set, children are reified on load and every Read of
// the parent re-reads the whole child (quadratic but correct), so that path is only drawn for small files.
func c01Reader(t *rapid.T, n int) string {
	how := rapid.SampledFrom(c01Readers).Draw(t, "reader")
	if how == "Load+NodeReifier" && n > 200 {
		how = "Reify"
	}
	return how
}

func genBufSize(t *rapid.T, cs int) int {
	opts := []int{1, 2, 3, 7, 4096, 32 * 1024}
	if cs > 1 {
		opts = append(opts, cs-1, cs, cs+1)
	}
	if rapid.IntRange(0, 3).Draw(t, "bufuni") == 0 {
		return rapid.IntRange(1, 300).Draw(t, "buf")
	}
	return rapid.SampledFrom(opts).Draw(t, "bufc")
}

func nearPow(n, w int) bool {
	for p := w; p <= n+1; p *= w {
		if n >= p-1 && n <= p+1 {
			return true
		}
	}
	return false
}

const c01Rule = "case = (content, chunker, width, writer, reader path, buffer size); oracle = the original bytes (AsBytes, streamed read through a plain io.Reader wrapper, Seek(0,End), declared FileSize decoded by gogo, io.Copy, and a streamed read from an interior offset over storage that fails one load once with the Read retried); " +
	"non-trivial = >= 2 interior levels, or chunk count within 1 of w^k, or content-defined chunker with >= 3 chunks, or reference-written with protobuf leaves / trickle; distinct by (writer, chunker class, w, chunks, len mod cs, reader, buffer class)"

func TestC01_P_OwnBuilder(t *testing.T) {
	ev := newEvid(t, c01Rule)
	maxLen := scale(4096, 65536)
	rapid.Check(t, func(t *rapid.T) {
		w := genWidth(t)
		ck := genChunker(t)
		data := genContent(t, ck, w, maxLen)
		how := c01Reader(t, len(data))
		buf := genBufSize(t, ck.CS)
		st := NewStore()
		var root cid.Cid
		var err error
		must(t, "BuildUnixFSFile", func() { root, _, err = buildFile(st, data, ck.Name, w) })
		// half of the stores serve only loads that still carry the context the file was opened with
		st.RequireSession = rapid.Bool().Draw(t, "sessionStore")
		st.HonorCtx = true // (loads with a context that is already done are refused)
		if err != nil {
			t.Fatalf("C01: build: %v", err)
		}
		if len(data) > 0 && rapid.IntRange(0, 4).Draw(t, "brokenSource") == 0 {
			// a source that breaks off before the end (its error may wrap io.EOF, as "upload interrupted: EOF" does) cannot
			// give a file that reads back as the source: the build must fail. (The one exception is an error wrapping
			// io.ErrUnexpectedEOF, which the chunker shared with the reference importer takes for the end of the input.)
			kind := genFaultKind(t)
			if faultKinds[kind].Inner != io.ErrUnexpectedEOF {
				cut := rapid.IntRange(0, len(data)-1).Draw(t, "cut")
				src := &failingSource{data: data, frags: []int{rapid.SampledFrom([]int{1, 7, 64, 1 << 20}).Draw(t, "frag")}, failAfter: cut, together: rapid.Bool().Draw(t, "together"),
					err: &ioFault{what: "source reader", inner: faultKinds[kind].Inner}}
				var broot cid.Cid
				var berr error
				must(t, "BuildUnixFSFile from a broken source", func() { broot, _, berr = buildFileR(NewStore().LinkSystem(), src, ck.Name, w) })
				if berr == nil {
					t.Fatalf("C01: source of %d bytes breaking off after %d (%s): the builder reported success and returned %s", len(data), cut, faultKinds[kind].Name, broot)
				}
			}
		}
		must(t, "read via "+how, func() { err = c01CheckRead(st, root, data, how, buf) })
		if err != nil {
			t.Fatalf("C01: len=%d chunker=%s w=%d: %v", len(data), ck.Name, w, err)
		}
		if err := c01DeclaredSize(st, root, len(data)); err != nil {
			t.Fatalf("C01: len=%d chunker=%s w=%d: %v", len(data), ck.Name, w, err)
		}
		ft, err := st.FileTree(root, 0)
		if err != nil {
			t.Fatalf("model: %v", err)
		}
		chunks, depth := ft.Leaves(), ft.Depth()
		nt := depth >= 3 || nearPow(chunks, w) || (ck.CS == 0 && chunks >= 3)
		mod := 0
		if ck.CS > 0 {
			mod = len(data) % ck.CS
		}
		ev.Case(fmt.Sprintf("own %s w=%d c=%d m=%d %s b=%s", ck.Class, w, chunks, mod, how, bucket(buf)), nt,
			"reader:"+how, "chunker:"+ck.Class, fmt.Sprintf("depth:%d", depth), "chunks:"+bucket(chunks))
		ev.Sample(map[string]any{"writer": "BuildUnixFSFile", "len": len(data), "chunker": ck.Name, "w": w, "chunks": chunks, "depth": depth, "reader": how, "buf": buf})
	})
}

func TestC01_P_Reference(t *testing.T) {
	ev := newEvid(t, c01Rule)
	maxLen := scale(4096, 65536)
	rapid.Check(t, func(t *rapid.T) {
		w := genWidth(t)
		ck := genChunker(t)
		data := genContent(t, ck, w, maxLen)
		o := refFileOpts{Chunker: ck.Name, Width: w,
			RawLeaves: rapid.Bool().Draw(t, "rawLeaves"), CidV1: rapid.Bool().Draw(t, "cidv1"), Trickle: rapid.Bool().Draw(t, "trickle"),
			// small blocks inlined into their links as identity CIDs (raw leaves as well as protobuf leaves and small nodes)
			InlineLimit: rapid.SampledFrom([]int{0, 0, 0, 8, 20, 40, 64, 200}).Draw(t, "inlineLimit")}
		how := c01Reader(t, len(data))
		buf := genBufSize(t, ck.CS)
		st := NewStore()
		root, _, err := refImportFile(st, data, o)
		if err != nil {
			t.Fatalf("reference importer: %v", err)
		}
		must(t, "read via "+how, func() { err = c01CheckRead(st, root, data, how, buf) })
		if err != nil {
			t.Fatalf("C01 (reference-written %+v): len=%d: %v", o, len(data), err)
		}
		if err := c01DeclaredSize(st, root, len(data)); err != nil {
			t.Fatalf("C01 (reference-written %+v): %v", o, err)
		}
		ft, err := st.FileTree(root, 0)
		if err != nil {
			t.Fatalf("model: %v", err)
		}
		chunks, depth := ft.Leaves(), ft.Depth()
		nt := depth >= 3 || nearPow(chunks, w) || (ck.CS == 0 && chunks >= 3) || ((!o.RawLeaves || o.Trickle) && chunks >= 2)
		wr := fmt.Sprintf("ref raw=%v v1=%v trickle=%v", o.RawLeaves, o.CidV1, o.Trickle)
		ev.Case(fmt.Sprintf("%s %s w=%d c=%d %s b=%s", wr, ck.Class, w, chunks, how, bucket(buf)), nt,
			"reader:"+how, "writer:"+wr, fmt.Sprintf("depth:%d", depth))
		ev.Sample(map[string]any{"writer": wr, "len": len(data), "chunker": ck.Name, "w": w, "chunks": chunks, "depth": depth, "reader": how, "buf": buf})
	})
}

// Production width: 174/175/176 and 174^2+1 one-byte chunks; small files with each default chunker.
func TestC01_R_RealWidth(t *testing.T) {
	for _, n := range []int{0, 1, 174, 175, 176, 349, 174*174 + 1} {
		data := lcgBytes(n, 3, 0)
		st := NewStore()
		root, _, err := buildFile(st, data, "size-1", 174)
		if err != nil {
			t.Fatal(err)
		}
		for _, how := range c01Readers {
			if err := c01CheckRead(st, root, data, how, 1000); err != nil {
				t.Fatalf("C01 real width n=%d: %v", n, err)
			}
		}
		if err := c01DeclaredSize(st, root, n); err != nil {
			t.Fatalf("C01 real width n=%d: %v", n, err)
		}
	}
}

func TestC01_R_DefaultChunkers(t *testing.T) {
	sizes := []int{0, 1, 1000}
	if thorough() {
		sizes = append(sizes, 262144, 262145, 3<<20)
	}
	for _, ck := range []string{"", "default", "rabin", "buzhash", "size-262144"} {
		for _, n := range sizes {
			data := lcgBytes(n, byte(n), 0)
			st := NewStore()
			root, _, err := buildFile(st, data, ck, 174)
			if err != nil {
				t.Fatal(err)
			}
			for _, how := range c01Readers {
				if err := c01CheckRead(st, root, data, how, 65536); err != nil {
					t.Fatalf("C01 chunker %q n=%d: %v", ck, n, err)
				}
			}
		}
	}
}

func TestC01_R_ChunkSizeLimits(t *testing.T) {
	for _, ck := range []string{"size-1048575", "size-1048576"} {
		data := lcgBytes(1048576*2+1, 9, 0)
		st := NewStore()
		root, _, err := buildFile(st, data, ck, 2)
		if err != nil {
			t.Fatalf("C01 chunk size limits: build with %s: %v", ck, err)
		}
		if err := c01CheckRead(st, root, data, "Reify", 65536); err != nil {
			t.Fatalf("C01 chunk size limits %s: %v", ck, err)
		}
	}
}

// zeroReader yields n zero bytes.
type zeroReader struct{ n int64 }

func (z *zeroReader) Read(p []byte) (int, error) {
	if z.n <= 0 {
		return 0, io.EOF
	}
	if int64(len(p)) > z.n {
		p = p[:z.n]
	}
	for i := range p {
		p[i] = 0
	}
	z.n -= int64(len(p))
	return len(p), nil
}

// A file beyond 4 GiB: 4 GiB + 1 MiB + 5 zero bytes in 1 MiB chunks at width 2 - the store de-duplicates it
// to a handful of blocks. Lengths below the root must not be truncated to 32 bits.
func TestC01_R_Over4GiB(t *testing.T) {
	over4GiB(t, int64(4)<<30+1<<20+5, 2)
	// a subtree between 2 and 4 GiB (3000 chunks of 1 MiB under one node) next to a small one
	over4GiB(t, int64(3000)<<20+1<<20+5, 3000)
}

func over4GiB(t *testing.T, n int64, w int) {
	st := NewStore()
	root, _, err := buildFileR(st.LinkSystem(), &zeroReader{n: n}, "size-1048576", w)
	if err != nil {
		t.Fatal(err)
	}
	bi, err := st.Decode(root)
	if err != nil || bi.UFS == nil || bi.UFS.GetFilesize() != uint64(n) {
		t.Fatalf("C01 multi-GiB: declared FileSize %v, want %d", bi.UFS.GetFilesize(), n)
	}
	sum := uint64(0)
	for _, b := range bi.UFS.Blocksizes {
		sum += b
	}
	if sum != uint64(n) {
		t.Fatalf("C01 multi-GiB: root BlockSizes sum to %d, want %d", sum, n)
	}
	rn, err := c01Open(st, root, "Reify")
	if err != nil {
		t.Fatal(err)
	}
	rs, _ := rn.(datamodel.LargeBytesNode).AsLargeBytes()
	if end, err := rs.Seek(0, io.SeekEnd); err != nil || end != n {
		t.Fatalf("C01 multi-GiB: Seek(0,End) = %d,%v want %d", end, err, n)
	}
	// the last 1 MiB + 5 bytes read back as zeros and then EOF
	if _, err := rs.Seek(n-(1<<20)-5, io.SeekStart); err != nil {
		t.Fatal(err)
	}
	tail, err := io.ReadAll(rs)
	if err != nil || len(tail) != 1<<20+5 {
		t.Fatalf("C01 multi-GiB: tail read %d bytes, err %v", len(tail), err)
	}
}

// Whole-value reads (AsBytes) of files in the tens of MiB up to beyond 128 MiB with the default chunker and width (three
// levels from 43.5 MiB on): a reader that sizes or grows its buffer differently above some threshold has to hand out the same
// bytes. The streamed read of the smaller file is checked as well.
func TestC01_R_AsBytesOfLargeFiles(t *testing.T) {
	for i, n := range []int{64<<20 + 513, 72<<20 + 11, 136<<20 + 1} {
		data := lcgBytes(n, byte(21+i), 1<<20+7)
		st := NewStore()
		root, _, err := buildFile(st, data, "", 174)
		if err != nil {
			t.Fatalf("C01 large AsBytes: build %d bytes: %v", n, err)
		}
		if i == 1 {
			if err := c01CheckRead(st, root, data, "Reify", 1<<20); err != nil {
				t.Fatalf("C01 large file (%d bytes): %v", n, err)
			}
			continue
		}
		for _, how := range []string{"Reify", "NewUnixFSFile"} {
			rn, err := c01Open(st, root, how)
			if err != nil {
				t.Fatal(err)
			}
			got, err := rn.AsBytes()
			if err != nil || !bytes.Equal(got, data) {
				t.Fatalf("C01 large file (%d bytes) via %s: AsBytes returned %d bytes (err %v), first difference at %d", n, how, len(got), err, firstDiff(got, data))
			}
		}
	}
}

// Whole values of several files kept side by side: the bytes AsBytes returned for one file stay that file's bytes while
// other files are read (through the same link system, on the same goroutine).
func TestC01_R_WholeValuesKeptSideBySide(t *testing.T) {
	st := NewStore()
	type kept struct {
		want, got []byte
	}
	var all []kept
	for round := 0; round < 6; round++ {
		for i, n := range []int{300, 300, 5000, 5000, 70000, 64, 2<<20 + 5} {
			data := lcgBytes(n, byte(round*16+i+1), 0)
			root, _, err := buildFile(st, data, []string{"size-16", "size-1000", "size-65536"}[i%3], 3+i%5)
			if err != nil {
				t.Fatal(err)
			}
			rn, err := c01Open(st, root, []string{"Reify", "unixfs-preload", "NewUnixFSFile"}[(round+i)%3])
			if err != nil {
				t.Fatal(err)
			}
			b, err := rn.AsBytes()
			if err != nil || !bytes.Equal(b, data) {
				t.Fatalf("C01: AsBytes of a %d-byte file: %d bytes, %v", n, len(b), err)
			}
			all = append(all, kept{data, b})
			for k, e := range all {
				if !bytes.Equal(e.got, e.want) {
					t.Fatalf("C01: the %d bytes AsBytes returned for file #%d changed after %d more files were read: first difference at %d", len(e.want), k+1, len(all)-1-k, firstDiff(e.got, e.want))
				}
			}
		}
	}
}
