package harness

// C19 - test-fixture generators describe exactly the DAG they stored.

import (
	"bytes"
	"fmt"
	"io"
	"sort"
	"strings"
	"sync"
	"testing"
	"testing/iotest"

	"github.com/ipfs/go-cid"
	"github.com/ipfs/go-unixfsnode"
	"github.com/ipfs/go-unixfsnode/testutil"
	"github.com/ipld/go-ipld-prime"
	"github.com/ipld/go-ipld-prime/datamodel"
	"pgregory.net/rapid"
)

// detReader is a deterministic, endless byte stream (xorshift64*) seeded from a rapid draw.
type detReader struct{ s uint64 }

func (d *detReader) Read(p []byte) (int, error) {
	for i := range p {
		d.s ^= d.s >> 12
		d.s ^= d.s << 25
		d.s ^= d.s >> 27
		p[i] = byte((d.s * 2685821657736338717) >> 56)
	}
	return len(p), nil
}

// flakyReader fails exactly one Read (the failAt-th) with an injected error and works before and after.
type flakyReader struct {
	r      io.Reader
	failAt int
	n      int
}

func (f *flakyReader) Read(b []byte) (int, error) {
	f.n++
	if f.n == f.failAt {
		return 0, &ioFault{what: "random source"}
	}
	return f.r.Read(b)
}

// periodicReader yields an endless stream with the given period.
type periodicReader struct {
	period int
	seed   byte
	i      int
}

func (p *periodicReader) Read(b []byte) (int, error) {
	for k := range b {
		b[k] = byte(p.i%p.period)*31 + p.seed
		p.i++
	}
	return len(b), nil
}

// recT stands in for testing.T where the generators want a require.TestingT.
type recT struct{ msgs []string }

func (r *recT) Errorf(format string, args ...interface{}) {
	r.msgs = append(r.msgs, fmt.Sprintf(format, args...))
}
func (r *recT) FailNow() { panic(recFail{r}) }

type recFail struct{ r *recT }

// withRealT runs f with a private *testing.T in its own goroutine so that require's FailNow (runtime.Goexit) cannot
// end the property; it reports whether that T failed.
func withRealT(f func(tt *testing.T)) (failed bool, panicked any) {
	tt := &testing.T{}
	done := make(chan struct{})
	go func() {
		defer close(done)
		defer func() { panicked = recover() }()
		f(tt)
	}()
	<-done
	return tt.Failed(), panicked
}

func lastSeg(p string) string { return p[strings.LastIndex(p, "/")+1:] }

// c19Check walks the stored DAG (Reify + MapIterator / AsBytes) alongside the returned description.
func c19Check(ls *ipld.LinkSystem, de testutil.DirEntry, c cid.Cid, path string, pathRule bool, stats map[string]int, depth int) error {
	if de.Root != c {
		return fmt.Errorf("%s: described root %s, stored link %s", path, de.Root, c)
	}
	rn, err := loadReified(ls, c, "unixfs")
	if err != nil {
		return fmt.Errorf("%s: %v", path, err)
	}
	if rn.Kind() == datamodel.Kind_Bytes {
		b, err := rn.AsBytes()
		if err != nil {
			return fmt.Errorf("%s: %v", path, err)
		}
		if !bytes.Equal(b, de.Content) {
			return fmt.Errorf("%s: described content has %d bytes, stored file %d bytes", path, len(de.Content), len(b))
		}
		if len(de.Children) != 0 {
			return fmt.Errorf("%s: a file is described with %d children", path, len(de.Children))
		}
		stats["files"]++
		return nil
	}
	if len(de.Content) != 0 {
		return fmt.Errorf("%s: a directory is described with content", path)
	}
	stats["dirs"]++
	if depth+1 > stats["depth"] {
		stats["depth"] = depth + 1
	}
	byName := map[string]testutil.DirEntry{}
	for _, ch := range de.Children {
		n := lastSeg(ch.Path)
		if n == "" {
			return fmt.Errorf("%s: a child is described with an empty name (path %q)", path, ch.Path)
		}
		if _, dup := byName[n]; dup {
			return fmt.Errorf("%s: two children are described with the name %q", path, n)
		}
		byName[n] = ch
		if pathRule && ch.Path != de.Path+"/"+n {
			return fmt.Errorf("%s: child path %q is not parent path %q + \"/\" + name", path, ch.Path, de.Path)
		}
	}
	cnt := 0
	for it := rn.MapIterator(); !it.Done(); {
		k, v, err := it.Next()
		if err != nil {
			return fmt.Errorf("%s: %v", path, err)
		}
		cnt++
		ks, _ := k.AsString()
		ch, ok := byName[ks]
		if !ok {
			return fmt.Errorf("%s: stored entry %q is not in the description (described: %d children)", path, ks, len(byName))
		}
		kc, err := linkOf(v)
		if err != nil {
			return err
		}
		if err := c19Check(ls, ch, kc, path+"/"+ks, pathRule, stats, depth+1); err != nil {
			return err
		}
	}
	if cnt != len(byName) {
		return fmt.Errorf("%s: %d children described, %d entries stored", path, len(byName), cnt)
	}
	return nil
}

var c19Generators = []string{"UnixFSFile", "GenerateFile", "UnixFSDirectory", "UnixFSDirectory+ChildGenerator", "GenerateDirectory", "BuildDirectory", "WrapContent"}

const c19Rule = "case = (seed of a deterministic random stream, target size 1..64 KiB (directories 1 KiB..64 KiB), generator in {UnixFSFile(chunker), GenerateFile, UnixFSDirectory default (shard bit-width 0/2/4/8), UnixFSDirectory+WithChildGenerator, GenerateDirectory(sharded?), BuildDirectory, WrapContent(exclusive?)}); " +
	"oracle = independent recursive read-back (Reify + MapIterator / AsBytes): same root, contents, entry names (non-empty, unique) and links at every level, child Path = parent Path + '/' + name for the directory generators; additionally ToDirEntry + CompareDirEntries must accept the description; " +
	"non-trivial = description with >= 2 directory levels; distinct by (generator, size bucket, depth, sharded?)"

func TestC19_P_FixtureGenerators(t *testing.T) {
	ev := newEvid(t, c19Rule)
	rapid.Check(t, func(t *rapid.T) {
		gen := rapid.SampledFrom(c19Generators).Draw(t, "generator")
		seed := rapid.Uint64Range(1, 1<<62).Draw(t, "seed")
		size := rapid.IntRange(1, 64<<10).Draw(t, "size")
		dirSize := size
		if dirSize < 1024 {
			dirSize = 1024
		}
		r := &detReader{s: seed}
		st := NewStore()
		ls := st.LinkSystem()
		var de testutil.DirEntry
		var err error
		pathRule := true
		opt := ""
		rec := &recT{}
		p, stack := safe(func() {
			switch gen {
			case "UnixFSFile":
				chunker := rapid.SampledFrom([]string{"size-64", "size-256", "size-1024", "size-256144", "rabin-64-128-256"}).Draw(t, "chunker")
				opt = chunker
				var src io.Reader = r
				if period := rapid.SampledFrom([]int{0, 0, 1, 64, 256}).Draw(t, "period"); period > 0 {
					src = &periodicReader{period: period, seed: byte(seed)} // a random source may repeat itself: identical chunks
					opt += fmt.Sprintf(" period=%d", period)
				}
				switch rapid.IntRange(0, 7).Draw(t, "finiteSource") {
				case 0:
					// a finite source holding exactly the requested bytes, which reports io.EOF together with the last bytes
					src = iotest.DataErrReader(bytes.NewReader(lcgBytes(size, byte(seed), 0)))
					opt += " finite+DataErrReader"
				case 1:
					src = bytes.NewReader(lcgBytes(size, byte(seed), 0))
					opt += " finite"
				case 2:
					// ... or runs dry before the requested size
					src = iotest.DataErrReader(bytes.NewReader(lcgBytes(size/2+1, byte(seed), 0)))
					opt += " short+DataErrReader"
				}
				de, err = testutil.UnixFSFile(*ls, size, testutil.WithRandReader(src), testutil.WithChunker(chunker))
			case "GenerateFile":
				de = testutil.GenerateFile(rec, ls, r, size)
			case "UnixFSDirectory":
				bw := rapid.SampledFrom([]int{0, 2, 4, 8}).Draw(t, "bitwidth")
				dirname := rapid.SampledFrom([]string{"", "", "/sub", "/a/b c", "release-1.2", "/example.org", "/v1.0/data.d", "fixtures/", "./fixtures", "a//b", "/", "a/../b"}).Draw(t, "dirname")
				opt = fmt.Sprintf("bitwidth=%d dirname=%q", bw, dirname)
				opts := []testutil.Option{testutil.WithRandReader(r), testutil.WithShardBitwidth(bw)}
				if dirname != "" {
					opts = append(opts, testutil.WithDirname(dirname))
				}
				de, err = testutil.UnixFSDirectory(*ls, dirSize, opts...)
			case "UnixFSDirectory+ChildGenerator":
				bw := rapid.SampledFrom([]int{0, 2, 4}).Draw(t, "bitwidth")
				nfiles := rapid.IntRange(0, 30).Draw(t, "nfiles")
				if rapid.IntRange(0, 9).Draw(t, "manyFiles") == 0 {
					// nearly as many children as the name generator has words (it must still find an unused name for each)
					nfiles = rapid.IntRange(500, 627).Draw(t, "nfilesMany")
				}
				opt = fmt.Sprintf("bitwidth=%d files=%d", bw, nfiles)
				n := 0
				reuse := rapid.Bool().Draw(t, "reuseVariable")
				opt += fmt.Sprintf(" reuse=%v", reuse)
				var shared testutil.DirEntry // a generator may hand back a pointer to one variable it refills on every call
				de, err = testutil.UnixFSDirectory(*ls, 0, testutil.WithRandReader(r), testutil.WithShardBitwidth(bw), testutil.WithChildGenerator(func(name string) (*testutil.DirEntry, error) {
					n++
					if n > nfiles {
						return nil, nil
					}
					e, err := testutil.UnixFSFile(*ls, 100+n, testutil.WithRandReader(r))
					e.Path = name
					if reuse {
						shared = e
						return &shared, err
					}
					return &e, err
				}))
			case "GenerateDirectory":
				sharded := rapid.Bool().Draw(t, "sharded")
				// ... or its exported worker with a start path of the caller's choosing (what it is handed for nested directories)
				from := rapid.SampledFrom([]string{"", "", "/sub", "/a/b c", "/example.org", "/v1.0/data.d"}).Draw(t, "fromDir")
				opt = fmt.Sprintf("sharded=%v from=%q", sharded, from)
				if from == "" {
					de = testutil.GenerateDirectory(rec, ls, r, dirSize, sharded)
				} else {
					de = testutil.GenerateDirectoryFrom(rec, ls, r, dirSize, from, sharded)
				}
			case "BuildDirectory":
				sharded := rapid.Bool().Draw(t, "sharded")
				opt = fmt.Sprintf("sharded=%v", sharded)
				var kids []testutil.DirEntry
				for i := rapid.IntRange(0, 12).Draw(t, "kids"); i > 0; i-- {
					f := testutil.GenerateFile(rec, ls, r, 50+i)
					f.Path = fmt.Sprintf("/kid-%d.bin", (i*7)%13) // (not in sorted order)
					kids = append(kids, f)
				}
				// built from a prefix of the caller's slice; the caller then builds another directory from the whole slice: the
				// first description must still be right afterwards (it is checked below, after both calls)
				k := len(kids)
				if k > 1 {
					k = rapid.IntRange(1, len(kids)).Draw(t, "prefix")
				}
				if rapid.Bool().Draw(t, "kidsAlreadySorted") {
					sort.Slice(kids, func(i, j int) bool { return kids[i].Path < kids[j].Path })
					opt += " sorted"
				}
				de = testutil.BuildDirectory(rec, ls, kids[:k], sharded)
				if k < len(kids) {
					_ = testutil.BuildDirectory(rec, ls, kids, sharded)
					opt += fmt.Sprintf(" prefix=%d/%d", k, len(kids))
				}
				// the slice is the caller's: it is refilled for the next directory right away
				for i := range kids {
					kids[i] = testutil.DirEntry{Path: fmt.Sprintf("/refilled-%d", i)}
				}
			case "WrapContent":
				exclusive := rapid.Bool().Draw(t, "exclusive")
				wrapPath := rapid.SampledFrom([]string{"/a", "/a/b c/d", "x/y", "/é/00/..", "/~after", "!before/x", "/a/~after/!before", "a//b", "/a///b/c", "//a/b//"}).Draw(t, "wrapPath")
				opt = fmt.Sprintf("exclusive=%v path=%s", exclusive, wrapPath)
				pathRule = false
				content := testutil.GenerateFile(rec, ls, r, size%4096+1)
				failed, pp := withRealT(func(tt *testing.T) { de = testutil.WrapContent(tt, r, ls, content, wrapPath, exclusive) })
				if failed || pp != nil {
					err = fmt.Errorf("WrapContent failed its own assertions (failed=%v panic=%v)", failed, pp)
				}
			}
		})
		if rf, ok := p.(recFail); ok {
			t.Fatalf("C19: %s (%s, seed %d, size %d) failed its own assertion: %v", gen, opt, seed, size, rf.r.msgs)
		}
		if p != nil {
			t.Fatalf("C19: %s (%s, seed %d, size %d) panicked: %v\n%s", gen, opt, seed, size, p, stack)
		}
		if err != nil {
			t.Fatalf("C19: %s (%s, seed %d, size %d) returned an error: %v", gen, opt, seed, size, err)
		}
		stats := map[string]int{}
		var cerr error
		must(t, "read-back", func() { cerr = c19Check(ls, de, de.Root, de.Path, pathRule, stats, 0) })
		if cerr != nil {
			t.Fatalf("C19: %s (%s, seed %d, size %d): description does not match the stored DAG: %v", gen, opt, seed, size, cerr)
		}
		if gen != "WrapContent" && gen != "UnixFSFile" && gen != "GenerateFile" {
			// the package's own read-back + comparison must agree as well
			// (ToDirEntry reads through LinkSystem.Load, so it needs the UnixFS node reifier on the link system)
			rls := *ls
			rls.NodeReifier = unixfsnode.Reify
			failed, pp := withRealT(func(tt *testing.T) {
				back := testutil.ToDirEntryFrom(tt, rls, de.Root, de.Path, true)
				testutil.CompareDirEntries(tt, de, back)
			})
			if failed || pp != nil {
				t.Fatalf("C19: %s (%s, seed %d, size %d): ToDirEntry + CompareDirEntries reject the description (failed=%v panic=%v)", gen, opt, seed, size, failed, pp)
			}
		}
		ev.Case(fmt.Sprintf("%s %s s=%s d=%d", gen, opt, bucket(size/1024), stats["depth"]), stats["depth"] >= 2, "gen:"+gen, fmt.Sprintf("depth:%d", stats["depth"]), "files:"+bucket(stats["files"]))
		ev.Sample(map[string]any{"generator": gen, "options": opt, "seed": seed, "size": size, "dirs": stats["dirs"], "files": stats["files"], "depth": stats["depth"], "root": de.Root.String()})
	})
}

// F11 (fixed): UnixFSDirectory with its default child generator.
func TestC19_R_F11_UnixFSDirectory(t *testing.T) {
	for seed := uint64(1); seed <= 40; seed++ {
		for _, bw := range []int{0, 2, 4} {
			st := NewStore()
			ls := st.LinkSystem()
			de, err := testutil.UnixFSDirectory(*ls, 8<<10, testutil.WithRandReader(&detReader{s: seed * 7919}), testutil.WithShardBitwidth(bw))
			if err != nil {
				t.Fatalf("C19 F11: seed %d bitwidth %d: %v", seed, bw, err)
			}
			if err := c19Check(ls, de, de.Root, de.Path, true, map[string]int{}, 0); err != nil {
				t.Fatalf("C19 F11: seed %d bitwidth %d: %v", seed, bw, err)
			}
		}
	}
}

// TestC19_P_UnixFSDirectoryManySeeds: sibling-name clashes in the default child generator need the same word to be drawn twice
// in one directory (a few per thousand seeds), so this generator gets many cheap cases of its own.
func TestC19_P_UnixFSDirectoryManySeeds(t *testing.T) {
	ev := newEvid(t, "case = (seed, target size 2..6 KiB, bit-width 0/4) for UnixFSDirectory with its default child generator and for GenerateDirectory; oracle as TestC19_P_FixtureGenerators (read-back walk: unique non-empty sibling names, paths, contents, links); non-trivial = >= 2 directory levels; distinct by (generator, seed)")
	rapid.Check(t, func(t *rapid.T) {
		seed := rapid.Uint64Range(1, 1<<62).Draw(t, "seed")
		size := rapid.IntRange(2048, 6144).Draw(t, "size")
		bw := rapid.SampledFrom([]int{0, 0, 4}).Draw(t, "bitwidth")
		which := rapid.SampledFrom([]string{"UnixFSDirectory", "UnixFSDirectory", "GenerateDirectory"}).Draw(t, "generator")
		st := NewStore()
		ls := st.LinkSystem()
		var de testutil.DirEntry
		var err error
		rec := &recT{}
		// the directory may be generated below a named path (dots in it are ordinary characters), and the random source may
		// fail once (any io.Reader can): then the generator may report the error, but a description it does return must hold
		dirname := rapid.SampledFrom([]string{"", "", "", "/example.org", "rel-1.2", "/a.b/c.d", "x/", "./y"}).Draw(t, "dirname")
		var src io.Reader = &detReader{s: seed}
		flakyAt := 0
		if which == "UnixFSDirectory" && rapid.IntRange(0, 3).Draw(t, "flakySource") == 0 {
			flakyAt = rapid.IntRange(1, 120).Draw(t, "flakyAt")
			src = &flakyReader{r: src, failAt: flakyAt}
		}
		p, stack := safe(func() {
			if which == "UnixFSDirectory" {
				opts := []testutil.Option{testutil.WithRandReader(src), testutil.WithShardBitwidth(bw)}
				if dirname != "" {
					opts = append(opts, testutil.WithDirname(dirname))
				}
				de, err = testutil.UnixFSDirectory(*ls, size, opts...)
			} else {
				de = testutil.GenerateDirectory(rec, ls, &detReader{s: seed}, size, bw != 0)
			}
		})
		if p != nil {
			t.Fatalf("C19: %s (seed %d, size %d, bitwidth %d) panicked: %v\n%s", which, seed, size, bw, p, stack)
		}
		if err != nil && flakyAt != 0 && strings.Contains(err.Error(), "verif-injected") {
			ev.Case("random-source-failure-reported", false, "random-source-failure-reported")
			return
		}
		if err != nil {
			t.Fatalf("C19: %s (seed %d, size %d, bitwidth %d, dirname %q) returned an error: %v", which, seed, size, bw, dirname, err)
		}
		stats := map[string]int{}
		if cerr := c19Check(ls, de, de.Root, de.Path, true, stats, 0); cerr != nil {
			t.Fatalf("C19: %s (seed %d, size %d, bitwidth %d, dirname %q, random source failing at read #%d (0 = never)): description does not match the stored DAG: %v", which, seed, size, bw, dirname, flakyAt, cerr)
		}
		if flakyAt != 0 {
			ev.Count("flaky-source-survived", 1)
		}
		if dirname != "" {
			ev.Count("dirname:"+dirname, 1)
		}
		ev.Case(fmt.Sprintf("%s %d", which, seed), stats["depth"] >= 2, "gen:"+which, fmt.Sprintf("depth:%d", stats["depth"]))
		ev.Sample(map[string]any{"generator": which, "seed": seed, "size": size, "bitwidth": bw, "files": stats["files"], "dirs": stats["dirs"]})
	})
}

// TestC19_P_LargeFileBatches: several files of 256 KiB and more generated one after another, all descriptions checked only after the
// last one was generated (a description must not alias state that a later call reuses).
func TestC19_P_LargeFileBatches(t *testing.T) {
	ev := newEvid(t, "case = 2..4 UnixFSFile / GenerateFile calls with sizes 256..420 KiB in one process, descriptions checked after all calls; oracle = read-back of each stored file equals its description; every case non-trivial; distinct by (seed, sizes)")
	rapid.Check(t, func(t *rapid.T) {
		seed := rapid.Uint64Range(1, 1<<62).Draw(t, "seed")
		r := &detReader{s: seed}
		st := NewStore()
		ls := st.LinkSystem()
		var des []testutil.DirEntry
		var sizes []int
		for i := rapid.IntRange(2, 4).Draw(t, "files"); i > 0; i-- {
			size := rapid.IntRange(256<<10, 420<<10).Draw(t, "size")
			de, err := testutil.UnixFSFile(*ls, size, testutil.WithRandReader(r))
			if err != nil {
				t.Fatalf("C19: UnixFSFile(%d): %v", size, err)
			}
			des = append(des, de)
			sizes = append(sizes, size)
		}
		for i, de := range des {
			if err := c19Check(ls, de, de.Root, de.Path, true, map[string]int{}, 0); err != nil {
				t.Fatalf("C19: file %d of %d (sizes %v, seed %d) checked after the whole batch was generated: %v", i+1, len(des), sizes, seed, err)
			}
			if len(de.Content) != sizes[i] {
				t.Fatalf("C19: file %d described with %d bytes, asked for %d", i+1, len(de.Content), sizes[i])
			}
		}
		ev.Case(fmt.Sprintf("%d %v", seed, sizes), true, fmt.Sprintf("files:%d", len(des)))
		ev.Sample(map[string]any{"seed": seed, "sizes": sizes})
	})
}

// F18 (fixed): BuildDirectory sorted and kept the caller's slice; F19 (fixed): WrapContent's decoy siblings could take the
// name of a wrapped path segment.
func TestC19_R_F18_F19(t *testing.T) {
	st := NewStore()
	ls := st.LinkSystem()
	rec := &recT{}
	r := &detReader{s: 5}
	var kids []testutil.DirEntry
	for i := 0; i < 5; i++ {
		f := testutil.GenerateFile(rec, ls, r, 50+i)
		f.Path = fmt.Sprintf("/kid-%d.bin", 9-i)
		kids = append(kids, f)
	}
	first := testutil.BuildDirectory(rec, ls, kids[:3], false)
	_ = testutil.BuildDirectory(rec, ls, kids[:5], false)
	if err := c19Check(ls, first, first.Root, first.Path, true, map[string]int{}, 0); err != nil {
		t.Fatalf("C19 F18: directory built from kids[:3] no longer matches its description after BuildDirectory(kids[:5]): %v", err)
	}
	for _, wp := range []string{"/~after", "/!before", "/x/~after/y"} {
		content := testutil.GenerateFile(rec, ls, r, 100)
		var de testutil.DirEntry
		failed, pp := withRealT(func(tt *testing.T) { de = testutil.WrapContent(tt, r, ls, content, wp, false) })
		if failed || pp != nil {
			t.Fatalf("C19 F19: WrapContent(%q) failed its own assertions (failed=%v panic=%v)", wp, failed, pp)
		}
		if err := c19Check(ls, de, de.Root, de.Path, false, map[string]int{}, 0); err != nil {
			t.Fatalf("C19 F19: WrapContent(%q, exclusive=false): %v", wp, err)
		}
	}
}

// The generators on a store that refuses ONE write (at open, while writing, at commit; any error value): a generator may
// report the failure in its own way (an error, a failed assertion), but an entry it hands out without complaint has to be
// the description of a DAG that is in the store - the same claim, made in an environment the fault-free cases never meet.
func TestC19_P_GeneratorsOnFlakyStores(t *testing.T) {
	ev := newEvid(t, "case = (generator in {UnixFSFile, GenerateFile, UnixFSDirectory, GenerateDirectory, BuildDirectory}, seed, target size 1..8 KiB, ONE write of the run refused at open / while writing / at commit with a value from the fault palette); oracle = if the generator reports success (no error, no failed assertion) the entry it returned must match the stored DAG read back from its root (as in TestC19_P_FixtureGenerators); non-trivial = the refused write happened (the generator wrote at least that many blocks); distinct by (generator, stage, outcome, size bucket)")
	rapid.Check(t, func(t *rapid.T) {
		gen := rapid.SampledFrom([]string{"UnixFSFile", "GenerateFile", "UnixFSDirectory", "GenerateDirectory", "BuildDirectory"}).Draw(t, "generator")
		seed := rapid.Uint64Range(1, 1<<62).Draw(t, "seed")
		size := rapid.IntRange(1024, 8<<10).Draw(t, "size")
		k := rapid.IntRange(1, 12).Draw(t, "failAt")
		stage := rapid.SampledFrom([]string{"open", "write", "commit", "commit"}).Draw(t, "stage")
		st := NewStore()
		st.FaultKind = genWriteFaultKind(t)
		switch stage {
		case "open":
			st.FailOpenAt = k
		case "write":
			st.FailWriteAt = k
		default:
			st.FailCommitAt = k
		}
		ls := st.LinkSystem()
		r := &detReader{s: seed}
		rec := &recT{}
		var de testutil.DirEntry
		var err error
		p, stack := safe(func() {
			switch gen {
			case "UnixFSFile":
				de, err = testutil.UnixFSFile(*ls, size, testutil.WithRandReader(r), testutil.WithChunker("size-256"))
			case "GenerateFile":
				de = testutil.GenerateFile(rec, ls, r, size)
			case "UnixFSDirectory":
				de, err = testutil.UnixFSDirectory(*ls, size, testutil.WithRandReader(r), testutil.WithShardBitwidth(rapid.SampledFrom([]int{0, 4}).Draw(t, "bitwidth")))
			case "GenerateDirectory":
				de = testutil.GenerateDirectory(rec, ls, r, size, rapid.Bool().Draw(t, "sharded"))
			default:
				var kids []testutil.DirEntry
				for i := 0; i < 6; i++ {
					f := testutil.GenerateFile(rec, ls, r, 300+i)
					f.Path = fmt.Sprintf("/kid-%d.bin", i)
					kids = append(kids, f)
				}
				de = testutil.BuildDirectory(rec, ls, kids, rapid.Bool().Draw(t, "sharded"))
			}
		})
		outcome := "success"
		if _, ok := p.(recFail); ok {
			outcome = "failed-assertion"
		} else if p != nil {
			t.Fatalf("C19: %s (seed %d, size %d) on a store refusing write #%d at %s (%s) panicked: %v\n%s", gen, seed, size, k, stage, faultKindName(st.FaultKind), p, stack)
		} else if err != nil {
			outcome = "error"
		}
		happened := st.Opens >= k
		st.FailOpenAt, st.FailWriteAt, st.FailCommitAt = 0, 0, 0
		if outcome == "success" {
			var cerr error
			must(t, "read-back", func() { cerr = c19Check(ls, de, de.Root, de.Path, true, map[string]int{}, 0) })
			if cerr != nil {
				t.Fatalf("C19: %s (seed %d, size %d) on a store that refused write #%d at %s (%s; %d writes were opened) reported success, but the entry it returned does not match the stored DAG: %v", gen, seed, size, k, stage, faultKindName(st.FaultKind), st.Opens, cerr)
			}
		}
		ev.Case(fmt.Sprintf("%s %s %s s=%s hit=%v", gen, stage, outcome, bucket(size/1024), happened), happened, "gen:"+gen, "stage:"+stage, "outcome:"+outcome, fmt.Sprintf("fault-happened:%v", happened))
		ev.Sample(map[string]any{"generator": gen, "seed": seed, "size": size, "fail_at": k, "stage": stage, "outcome": outcome, "writes_opened": st.Opens})
	})
}

// Fixtures are built in parallel tests: several goroutines, each with its own store, random source and children, run the
// generators at the same time. Each description has to match the DAG in its own store, as it does when built alone.
func TestC19_R_ConcurrentFixtureBuilds(t *testing.T) {
	const G = 8
	for round := 0; round < 3; round++ {
		var wg sync.WaitGroup
		errs := make([]string, G)
		for g := 0; g < G; g++ {
			wg.Add(1)
			go func(g int) {
				defer wg.Done()
				p, _ := safe(func() {
					st := NewStore()
					ls := st.LinkSystem()
					rec := &recT{}
					r := &detReader{s: uint64(1000*round + g + 1)}
					var kids []testutil.DirEntry
					for i := 0; i < 300; i++ {
						f := testutil.GenerateFile(rec, ls, r, 20+i%7)
						f.Path = fmt.Sprintf("/w%d-%05d", g, i)
						kids = append(kids, f)
					}
					for _, sharded := range []bool{false, true} {
						de := testutil.BuildDirectory(rec, ls, kids, sharded)
						if err := c19Check(ls, de, de.Root, de.Path, true, map[string]int{}, 0); err != nil {
							errs[g] = fmt.Sprintf("BuildDirectory(sharded=%v) of worker %d: %v", sharded, g, err)
							return
						}
					}
					de, err := testutil.UnixFSDirectory(*ls, 16<<10, testutil.WithRandReader(r), testutil.WithShardBitwidth([]int{0, 2, 4}[g%3]))
					if err != nil {
						errs[g] = fmt.Sprintf("UnixFSDirectory of worker %d: %v", g, err)
						return
					}
					if err := c19Check(ls, de, de.Root, de.Path, true, map[string]int{}, 0); err != nil {
						errs[g] = fmt.Sprintf("UnixFSDirectory of worker %d: %v", g, err)
						return
					}
					gd := testutil.GenerateDirectory(rec, ls, r, 8<<10, g%2 == 0)
					if err := c19Check(ls, gd, gd.Root, gd.Path, true, map[string]int{}, 0); err != nil {
						errs[g] = fmt.Sprintf("GenerateDirectory of worker %d: %v", g, err)
					}
				})
				if p != nil {
					errs[g] = fmt.Sprintf("worker %d: %v", g, p)
				}
			}(g)
		}
		wg.Wait()
		for _, e := range errs {
			if e != "" {
				t.Fatalf("C19: %d workers building fixtures at the same time, each in its own store (round %d): %s", G, round, e)
			}
		}
	}
}

// BuildDirectory handed children that do not share one parent path (an entry from /docs next to one from the root, a
// bare name): every entry is stored under the last element of its path, which is what the description says.
func TestC19_R_BuildDirectoryFromChildrenOfMixedParents(t *testing.T) {
	st := NewStore()
	ls := st.LinkSystem()
	rec := &recT{}
	r := &detReader{s: 77}
	var kids []testutil.DirEntry
	for i, p := range []string{"/docs/readme.txt", "/notes.txt", "todo", "/a/b/c/deep.bin", "/top/xu", "/zz"} {
		f := testutil.GenerateFile(rec, ls, r, 40+i)
		f.Path = p
		kids = append(kids, f)
	}
	for _, sharded := range []bool{false, true} {
		de := testutil.BuildDirectory(rec, ls, kids, sharded)
		want := map[string]cid.Cid{}
		for _, k := range kids {
			want[lastSeg(k.Path)] = k.Root
		}
		rn, err := loadReified(ls, de.Root, "unixfs")
		if err != nil {
			t.Fatal(err)
		}
		got := map[string]cid.Cid{}
		for it := rn.MapIterator(); !it.Done(); {
			k, v, err := it.Next()
			if err != nil {
				t.Fatal(err)
			}
			ks, _ := k.AsString()
			got[ks], _ = linkOf(v)
		}
		if len(got) != len(want) {
			t.Fatalf("C19: BuildDirectory(sharded=%v) from children of mixed parents stored the names %v, described %v", sharded, cidKeys(got), cidKeys(want))
		}
		for name, c := range want {
			if got[name] != c {
				t.Fatalf("C19: BuildDirectory(sharded=%v) from children of mixed parents: the description has an entry %q, the stored directory lists %v", sharded, name, cidKeys(got))
			}
		}
	}
}

func cidKeys(m map[string]cid.Cid) []string {
	var out []string
	for k := range m {
		out = append(out, k)
	}
	sort.Strings(out)
	return out
}
