package harness

// A history of operations on one reified sharded directory that run while storage misbehaves, after which storage is
// healthy again. Properties about what a directory node reports (length, iteration, lookups) must hold on a node with
// such a past: nothing learnt while a block was unavailable may stick to the node.

import (
	"fmt"

	"github.com/ipfs/go-cid"
	"github.com/ipld/go-ipld-prime/datamodel"
	"pgregory.net/rapid"
)

// lastLinkShards returns the child shards that are the LAST link of their parent shard (the position where an iterator
// is already "done" when the load fails), in pre-order.
func lastLinkShards(sn *ShardNode) []cid.Cid {
	var out []cid.Cid
	var walk func(n *ShardNode)
	walk = func(n *ShardNode) {
		for i, l := range n.Links {
			if l.Child != nil {
				if i == len(n.Links)-1 {
					out = append(out, l.Child.Cid)
				}
				walk(l.Child)
			}
		}
	}
	walk(sn)
	return out
}

// faultyPast runs 1..3 operations on rn while a drawn child shard is unavailable (persistently, or for exactly one load),
// then makes storage healthy again. Errors and results of these operations are not judged here (C12 does that).
func faultyPast(t *rapid.T, st *Store, rn datamodel.Node, tree *ShardNode, names []string) string {
	shards := tree.ShardsPreOrder()
	if len(shards) == 0 {
		return "no-child-shards"
	}
	desc := ""
	n := rapid.IntRange(1, 3).Draw(t, "faultyOps")
	for i := 0; i < n; i++ {
		st.FaultKind = 0
		st.MissingIO = rapid.Bool().Draw(t, "ioErr")
		if st.MissingIO {
			st.FaultKind = genFaultKind(t)
		}
		victim := shards[rapid.IntRange(0, len(shards)-1).Draw(t, "victim")]
		if last := lastLinkShards(tree); len(last) > 0 && rapid.Bool().Draw(t, "victimIsLastLink") {
			victim = last[rapid.IntRange(0, len(last)-1).Draw(t, "lastVictim")]
		}
		oneShot := rapid.Bool().Draw(t, "oneShot")
		if oneShot {
			// the load of that shard fails once: find its position in the fault-free request order of the operation by
			// letting the store count - simplest is to fail the k-th load from now for a drawn k
			st.FailReadAt = len(st.ReadLog()) + rapid.IntRange(1, len(shards)).Draw(t, "failLoad")
			desc += "one-shot:"
		} else {
			st.Missing = map[cid.Cid]bool{victim: true}
			desc += "missing:"
		}
		switch rapid.IntRange(0, 4).Draw(t, "faultyOp") {
		case 4:
			// a walk by count (the caller knows how many entries to expect and does not poll Done): it carries on past the
			// error and past the end
			desc += "counted-walk "
			it := rn.MapIterator()
			for steps := len(names) + rapid.IntRange(1, 3).Draw(t, "extraNext"); steps > 0; steps-- {
				_, _, _ = it.Next()
			}
		case 0, 1:
			desc += "iterate "
			it := rn.MapIterator()
			for steps := 0; !it.Done() && steps < 4*len(names)+4*len(shards)+50; steps++ {
				_, _, _ = it.Next()
			}
		case 2:
			desc += "length "
			_ = rn.Length()
		case 3:
			desc += "lookup "
			if len(names) > 0 {
				_, _ = rn.LookupByString(rapid.SampledFrom(names).Draw(t, "faultyLookup"))
			}
		}
		st.Missing = map[cid.Cid]bool{}
		st.FailReadAt = 0
	}
	st.MissingIO = false
	st.FaultKind = 0
	return fmt.Sprintf("[%s]", desc)
}
