package harness

// C03 - UnixFS path selectors resolve to exactly the named entity.

import (
	"bytes"
	"context"
	"fmt"
	"io"
	"sort"
	"strings"
	"testing"

	"github.com/ipfs/go-cid"
	"github.com/ipfs/go-unixfsnode"
	dagpb "github.com/ipld/go-codec-dagpb"
	"github.com/ipld/go-ipld-prime/datamodel"
	"github.com/ipld/go-ipld-prime/linking"
	"github.com/ipld/go-ipld-prime/traversal"
	"github.com/ipld/go-ipld-prime/traversal/selector"
	sbuilder "github.com/ipld/go-ipld-prime/traversal/selector/builder"
	"pgregory.net/rapid"
)

type c03Match struct {
	Path string
	Node datamodel.Node
}

var c03Targets = []string{"match", "preload", "entity", "explore-all"}

func c03TargetSpec(which string) sbuilder.SelectorSpec {
	switch which {
	case "match":
		return unixfsnode.MatchUnixFSSelector
	case "preload":
		return unixfsnode.MatchUnixFSPreloadSelector
	case "entity":
		return unixfsnode.MatchUnixFSEntitySelector
	}
	return unixfsnode.ExploreAllRecursivelySelector
}

// c03Walk runs the traversal; the visitor only collects, nodes are inspected after the walk.
func c03Walk(st *Store, root cid.Cid, path, which string, matchPath bool) (matches []c03Match, log []cid.Cid, err error) {
	ls := st.LinkSystem()
	spec := unixfsnode.UnixFSPathSelectorBuilder(path, c03TargetSpec(which), matchPath)
	if which == "match" && !matchPath && len(path)%2 == 1 {
		// the short form: documented as the same selector
		spec = unixfsnode.UnixFSPathSelector(path)
	}
	sel, err := selector.CompileSelector(spec)
	if err != nil {
		return nil, nil, fmt.Errorf("compile: %w", err)
	}
	st.ResetLogs()
	pn, err := loadPlain(ls, root)
	if err != nil {
		return nil, nil, err
	}
	prog := traversal.Progress{Cfg: &traversal.Config{Ctx: sessionCtx, LinkSystem: *ls, LinkTargetNodePrototypeChooser: protoChooser}}
	err = prog.WalkMatching(pn, sel, func(p traversal.Progress, n datamodel.Node) error {
		if which == "entity" {
			if err := unixfsnode.BytesConsumingMatcher(p, n); err != nil {
				return err
			}
		}
		matches = append(matches, c03Match{p.Path.String(), n})
		return nil
	})
	log = st.ReadLog()
	return
}

// c03Describe checks that a matched node is the entity tn: a file's exact bytes, or a map of exactly its entries.
func c03Describe(n datamodel.Node, tn *tnode) error {
	if !tn.Dir {
		if n.Kind() != datamodel.Kind_Bytes {
			return fmt.Errorf("file matched as kind %s (%T)", n.Kind(), n)
		}
		b, err := n.AsBytes()
		if err != nil {
			return fmt.Errorf("file AsBytes: %v", err)
		}
		if !bytes.Equal(b, tn.Data) {
			return fmt.Errorf("file bytes differ: got %d bytes, want %d", len(b), len(tn.Data))
		}
		// the match is a file node: readers taken from it separately are independent
		if lb, ok := n.(datamodel.LargeBytesNode); ok && len(tn.Data) >= 2 {
			r1, e1 := lb.AsLargeBytes()
			r2, e2 := lb.AsLargeBytes()
			if e1 != nil || e2 != nil {
				return fmt.Errorf("AsLargeBytes: %v %v", e1, e2)
			}
			half := len(tn.Data) / 2
			p1 := make([]byte, half)
			if _, err := io.ReadFull(r1, p1); err != nil {
				return fmt.Errorf("first reader: %v", err)
			}
			all2, err := io.ReadAll(r2)
			if err != nil || !bytes.Equal(all2, tn.Data) {
				return fmt.Errorf("second reader of the matched file delivered %d bytes (err %v), want %d", len(all2), err, len(tn.Data))
			}
			rest1, err := io.ReadAll(r1)
			if err != nil || !bytes.Equal(append(p1, rest1...), tn.Data) {
				return fmt.Errorf("first reader of the matched file, continued after a second reader was used, delivered %d+%d bytes (err %v), want %d", len(p1), len(rest1), err, len(tn.Data))
			}
		}
		return nil
	}
	if n.Kind() != datamodel.Kind_Map {
		return fmt.Errorf("directory matched as kind %s", n.Kind())
	}
	if _, isPlain := n.(dagpb.PBNode); isPlain {
		return fmt.Errorf("directory matched as an un-reified dag-pb node")
	}
	got := map[string]cid.Cid{}
	for it := n.MapIterator(); !it.Done(); {
		k, v, err := it.Next()
		if err != nil {
			return fmt.Errorf("directory iteration: %v", err)
		}
		ks, _ := k.AsString()
		c, err := linkOf(v)
		if err != nil {
			return err
		}
		if _, dup := got[ks]; dup {
			return fmt.Errorf("directory yields %q twice", ks)
		}
		got[ks] = c
	}
	if len(got) != len(tn.Kids) {
		return fmt.Errorf("directory has %d entries, want %d", len(got), len(tn.Kids))
	}
	for name, k := range tn.Kids {
		if got[name] != k.Root {
			return fmt.Errorf("directory entry %q -> %s, want %s", name, got[name], k.Root)
		}
	}
	return nil
}

// normPath is the model of datamodel.ParsePath + Path.String: split on '/', drop empty segments.
func normPath(segs []string) string { return strings.Join(segs, "/") }

const c03Rule = "case = (tree of files / plain dirs / HAMT dirs with names incl. '.', '..', '%41', spaces, unicode, invalid UTF-8; a root-to-node path rendered with drawn leading/trailing/redundant slashes, optionally perturbed: bogus extra segment, replaced segment, segment below a file; target selector in {match, preload, entity+BytesConsumingMatcher, explore-all}; matchPath only with the empty path - see known finding); " +
	"oracle = model of the tree and of path parsing: exactly one match (normalised path, entity with exact bytes / exact entry map) for match/preload/entity, zero for explore-all (it contains no matcher) and zero for a path naming no entry; " +
	"non-trivial = path of >= 2 segments crossing a HAMT directory with a child shard on the hash path, or a perturbed path; distinct by (segments, kinds along the path, target, perturbation, slash style)"

func TestC03_P_PathSelector(t *testing.T) {
	ev := newEvid(t, c03Rule)
	rapid.Check(t, func(t *rapid.T) {
		root := genTreeOpt(t, 3, scale(8, 14), treeOpts{Hand: true, OldStyle: true, Unsorted: true})
		st := NewStore()
		if err := root.build(st); err != nil {
			t.Fatalf("build tree: %v", err)
		}
		// half of the stores pick what they serve from the request context (tenant, session, credentials): every load of
		// the walk, also those made later by a matched node, has to carry the context the traversal was configured with
		st.RequireSession = rapid.Bool().Draw(t, "sessionStore")
		st.HonorCtx = true // (loads with a context that is already done are refused)
		segs, nodes := genWalk(t, root)
		target := nodes[len(nodes)-1]
		if rapid.IntRange(0, 2).Draw(t, "noiseBefore") == 0 {
			// the process has used other directories before, through the typed accessors as well
			must(t, "reader noise", func() { readerNoise(rapid.IntRange(0, 500).Draw(t, "noiseSalt")) })
		}
		which := rapid.SampledFrom(c03Targets).Draw(t, "target")
		perturb := "none"
		exists := true
		switch rapid.IntRange(0, 9).Draw(t, "perturb") {
		case 0: // extra bogus segment (below a directory or below a file)
			perturb = "bogus-tail"
			if !target.Dir {
				perturb = "below-file"
			}
			segs = append(append([]string{}, segs...), "no-such-entry")
			exists = false
		case 1: // one segment replaced by a name that is not an entry there
			if len(segs) > 0 {
				i := rapid.IntRange(0, len(segs)-1).Draw(t, "replace")
				repl := segs[i] + "~"
				if _, clash := nodes[i].Kids[repl]; !clash {
					segs = append(append([]string{}, segs[:i]...), append([]string{repl}, segs[i+1:]...)...)
					perturb = "replaced-segment"
					exists = false
				}
			}
		}
		if perturb == "none" && len(segs) > 0 && rapid.IntRange(0, 7).Draw(t, "caseFlip") == 0 {
			// one segment in another letter case: another name (unless a sibling is called just that)
			i := rapid.IntRange(0, len(segs)-1).Draw(t, "flipAt")
			for _, repl := range []string{strings.ToUpper(segs[i]), strings.ToLower(segs[i]), strings.Title(strings.ToLower(segs[i]))} {
				if _, clash := nodes[i].Kids[repl]; !clash && repl != segs[i] && !strings.Contains(repl, "/") && repl != "" {
					segs = append(append([]string{}, segs[:i]...), append([]string{repl}, segs[i+1:]...)...)
					perturb = "case-flipped-segment"
					exists = false
					break
				}
			}
		}
		if perturb == "none" && len(segs) > 0 && rapid.IntRange(0, 7).Draw(t, "suffix") == 0 {
			// last segment replaced by a proper suffix / prefix of itself that is not an entry there
			last := segs[len(segs)-1]
			if len(last) > 1 {
				k := rapid.IntRange(1, len(last)-1).Draw(t, "cut")
				repl := last[k:]
				if rapid.Bool().Draw(t, "prefixInstead") {
					repl = last[:k]
				}
				if _, clash := nodes[len(nodes)-2].Kids[repl]; !clash && repl != "" && !strings.Contains(repl, "/") {
					segs = append(append([]string{}, segs[:len(segs)-1]...), repl)
					perturb = "suffix-of-entry"
					exists = false
				}
			}
		}
		matchPath := false
		if len(segs) == 0 {
			matchPath = rapid.Bool().Draw(t, "matchPath")
		} else {
			ev.Exclude(1) // matchPath=true with >= 1 segment: recorded known finding, probed separately
		}
		path, style := renderPath(t, segs)
		var matches []c03Match
		var err error
		must(t, "path traversal", func() { matches, _, err = c03Walk(st, root.Root, path, which, matchPath) })
		if err != nil {
			t.Fatalf("C03 path %q target %s: traversal error: %v", path, which, err)
		}
		want := 0
		if exists && which != "explore-all" {
			want = 1
		}
		if len(matches) != want {
			var ps []string
			for _, m := range matches {
				ps = append(ps, fmt.Sprintf("%q(%T)", m.Path, m.Node))
			}
			t.Fatalf("C03 path %q (exists=%v) target %s: %d matches %v, want %d", path, exists, which, len(matches), ps, want)
		}
		if want == 1 {
			if matches[0].Path != normPath(segs) {
				t.Fatalf("C03 path %q target %s: matched at %q, want %q", path, which, matches[0].Path, normPath(segs))
			}
			var derr error
			must(t, "inspect match", func() { derr = c03Describe(matches[0].Node, target) })
			if derr != nil {
				t.Fatalf("C03 path %q target %s: matched node is not the named entity: %v", path, which, derr)
			}
		}
		kinds := ""
		crosses := false
		for i, nd := range nodes {
			switch {
			case !nd.Dir:
				kinds += "f"
			case nd.Sharded:
				kinds += "h"
				if i < len(segs) {
					tr, _ := st.ShardTree(nd.Root)
					if len(tr.HashPath(segs[i])) > 0 {
						crosses = true
					}
				}
			default:
				kinds += "d"
			}
		}
		nt := (len(segs) >= 2 && crosses) || perturb != "none"
		ev.Case(fmt.Sprintf("n=%d %s %s %s %s mp=%v", len(segs), kinds, which, perturb, style, matchPath), nt,
			"target:"+which, "perturb:"+perturb, "slashes:"+style, "kinds:"+kinds, fmt.Sprintf("matchPath:%v", matchPath))
		ev.Sample(map[string]any{"path": path, "kinds": kinds, "target": which, "perturbation": perturb, "matches": len(matches), "entities": root.count()})
	})
}

// ---------------------------------------------------------------- matchPath (known finding F10)

type c03Probe struct {
	build func() *tnode
	path  []string
}

func c03File(n int) *tnode { return &tnode{Data: lcgBytes(n, 1, 0)} }
func c03Dir(sharded bool, kids map[string]*tnode) *tnode {
	return &tnode{Dir: true, Sharded: sharded, Fanout: 8, Kids: kids}
}

var c03Probes = []c03Probe{
	{func() *tnode { return c03Dir(false, map[string]*tnode{"a": c03File(3)}) }, []string{"a"}},
	{func() *tnode {
		return c03Dir(false, map[string]*tnode{"d": c03Dir(false, map[string]*tnode{"f": c03File(20)}), "x": c03File(1)})
	}, []string{"d", "f"}},
	{func() *tnode {
		return c03Dir(true, map[string]*tnode{"a": c03File(3), "b": c03Dir(false, map[string]*tnode{"c": c03File(0)})})
	}, []string{"b", "c"}},
	{func() *tnode {
		return c03Dir(false, map[string]*tnode{"s": c03Dir(true, map[string]*tnode{collisions.Pairs[0][0]: c03File(7), collisions.Pairs[0][1]: c03File(8)})})
	}, []string{"s", collisions.Pairs[0][1]}},
	{func() *tnode {
		return c03Dir(false, map[string]*tnode{"..": c03Dir(false, map[string]*tnode{".": c03File(2)})})
	}, []string{"..", "."}},
}

// TestC03_K_MatchPath probes the matchPath=true behaviour on five fixed cases and classifies what it sees:
// correct -> silent; the recorded symptom -> FINDING line with the recorded key; anything else -> a different key.
func TestC03_K_MatchPath(t *testing.T) {
	for i, pr := range c03Probes {
		root := pr.build()
		st := NewStore()
		if err := root.build(st); err != nil {
			t.Fatal(err)
		}
		nodes := []*tnode{root}
		for _, s := range pr.path {
			nodes = append(nodes, nodes[len(nodes)-1].Kids[s])
		}
		for _, which := range []string{"match", "preload", "entity"} {
			var matches []c03Match
			var err error
			p, _ := safe(func() { matches, _, err = c03Walk(st, root.Root, strings.Join(pr.path, "/"), which, true) })
			if p != nil || err != nil {
				fmt.Printf("FINDING property=C03 key=C03-matchpath-error :: probe %d target %s: panic=%v err=%v\n", i, which, p, err)
				continue
			}
			// expected: root, each intermediate directory, then the target; each once, in order
			ok := len(matches) == len(nodes)
			for j := 0; ok && j < len(nodes); j++ {
				if matches[j].Path != normPath(pr.path[:j]) {
					ok = false
				}
			}
			if ok && c03Describe(matches[len(matches)-1].Node, nodes[len(nodes)-1]) != nil {
				ok = false
			}
			if ok {
				continue
			}
			_, plain := interface{}(nil), false
			if len(matches) == 1 {
				_, plain = matches[0].Node.(dagpb.PBNode)
			}
			if len(matches) == 1 && matches[0].Path == "" && plain {
				fmt.Printf("FINDING property=C03 key=C03-matchpath :: probe %d target %s: with matchPath=true only the un-reified root matches (1 match at \"\"), the path is never descended\n", i, which)
				continue
			}
			var ps []string
			for _, m := range matches {
				ps = append(ps, fmt.Sprintf("%q(%T)", m.Path, m.Node))
			}
			sort.Strings(ps)
			fmt.Printf("FINDING property=C03 key=C03-matchpath-other :: probe %d target %s: matches %v, want %d path nodes in order\n", i, which, ps, len(nodes))
		}
	}
}

func TestC03_R_Basics(t *testing.T) {
	root := c03Dir(true, map[string]*tnode{
		"a":   c03File(3),
		"c d": c03Dir(false, map[string]*tnode{"%41": c03File(17), "..": c03File(1)}),
		"é":   c03Dir(true, map[string]*tnode{".": c03File(40)}),
	})
	st := NewStore()
	if err := root.build(st); err != nil {
		t.Fatal(err)
	}
	for _, c := range []struct {
		path string
		segs []string
	}{{"a", []string{"a"}}, {"/c d//%41/", []string{"c d", "%41"}}, {"c d/..", []string{"c d", ".."}}, {"é/.", []string{"é", "."}}, {"", nil}} {
		tn := root
		for _, s := range c.segs {
			tn = tn.Kids[s]
		}
		for _, which := range []string{"match", "preload", "entity"} {
			ms, _, err := c03Walk(st, root.Root, c.path, which, false)
			if err != nil || len(ms) != 1 || ms[0].Path != normPath(c.segs) {
				t.Fatalf("C03 basics %q %s: %v %v", c.path, which, ms, err)
			}
			if err := c03Describe(ms[0].Node, tn); err != nil {
				t.Fatalf("C03 basics %q %s: %v", c.path, which, err)
			}
		}
	}
	for _, p := range []string{"nope", "a/x", "c d/A", "é/../."} {
		ms, _, err := c03Walk(st, root.Root, p, "match", false)
		if err != nil || len(ms) != 0 {
			t.Fatalf("C03 basics: path %q naming no entry gave %d matches, err %v", p, len(ms), err)
		}
	}
	// matchPath with the empty path is just the target selector
	ms, _, err := c03Walk(st, root.Root, "", "match", true)
	if err != nil || len(ms) != 1 {
		t.Fatalf("C03 basics: empty path with matchPath: %v %v", ms, err)
	}
}

// ---------------------------------------------------------------- several requests served from one loaded root

const c03OneRootRule = "case = (tree as in the path-selector check; the root block is loaded ONCE and that one node object serves 2..5 requests in a row, each a path-selector traversal with its own request context - cancelled when the request is over - and its own link system over one of two stores holding the same blocks, both refusing loads under a finished context); " +
	"oracle = each request on its own: exactly one match at the normalised path with the exact entity for an existing path, none for a path naming no entry, no traversal error, and every block load of a request arrives at that request's store; non-trivial = >= 2 requests crossing a sharded directory with a child shard on the hash path; distinct by (requests, kinds, targets, store sequence)"

func TestC03_P_RequestsFromOneLoadedRoot(t *testing.T) {
	ev := newEvid(t, c03OneRootRule)
	rapid.Check(t, func(t *rapid.T) {
		root := genTreeOpt(t, 3, scale(8, 14), treeOpts{Hand: true, Unsorted: true})
		stores := []*Store{NewStore(), NewStore()}
		for _, st := range stores {
			if err := root.build(st); err != nil {
				t.Fatalf("build tree: %v", err)
			}
			st.HonorCtx = true
		}
		stores[0].RequireSession = rapid.Bool().Draw(t, "sessionStore")
		lss := []*linking.LinkSystem{stores[0].LinkSystem(), stores[1].LinkSystem()}
		pn, err := loadPlain(lss[0], root.Root)
		if err != nil {
			t.Fatal(err)
		}
		nreq := rapid.IntRange(2, 5).Draw(t, "requests")
		crossing, label := 0, ""
		// a server may also keep ONE traversal.Config per link system and only set its Ctx for each request
		keptCfg := rapid.Bool().Draw(t, "oneConfigKeptAcrossRequests")
		cfgs := []*traversal.Config{
			{LinkSystem: *lss[0], LinkTargetNodePrototypeChooser: protoChooser},
			{LinkSystem: *lss[1], LinkTargetNodePrototypeChooser: protoChooser},
		}
		for r := 0; r < nreq; r++ {
			segs, nodes := genWalk(t, root)
			if r == 0 && rapid.Bool().Draw(t, "firstRequestIsForTheRoot") {
				segs, nodes = nil, nodes[:1]
			}
			target := nodes[len(nodes)-1]
			which := rapid.SampledFrom(c03Targets).Draw(t, "target")
			exists := true
			if rapid.IntRange(0, 4).Draw(t, "bogus") == 0 && !(r == 0 && len(segs) == 0) {
				segs = append(append([]string{}, segs...), "no-such-entry")
				exists = false
			}
			path, _ := renderPath(t, segs)
			si := rapid.IntRange(0, 1).Draw(t, "store")
			ctx, cancel := context.WithCancel(sessionCtx)
			sel, err := selector.CompileSelector(unixfsnode.UnixFSPathSelectorBuilder(path, c03TargetSpec(which), false))
			if err != nil {
				cancel()
				t.Fatalf("compile: %v", err)
			}
			stores[0].ResetLogs()
			stores[1].ResetLogs()
			var matches []c03Match
			var derr error
			must(t, "path traversal", func() {
				prog := traversal.Progress{Cfg: &traversal.Config{Ctx: ctx, LinkSystem: *lss[si], LinkTargetNodePrototypeChooser: protoChooser}}
				if keptCfg {
					cfgs[si].Ctx = ctx
					prog = traversal.Progress{Cfg: cfgs[si]}
				}
				err = prog.WalkMatching(pn, sel, func(p traversal.Progress, n datamodel.Node) error {
					if which == "entity" {
						if err := unixfsnode.BytesConsumingMatcher(p, n); err != nil {
							return err
						}
					}
					matches = append(matches, c03Match{p.Path.String(), n})
					return nil
				})
				if err == nil && len(matches) == 1 && exists {
					derr = c03Describe(matches[0].Node, target)
				}
			})
			cancel() // the request is over
			if err != nil {
				t.Fatalf("C03 request %d of %d from one loaded root, path %q target %s: traversal error: %v", r+1, nreq, path, which, err)
			}
			want := 0
			if exists && which != "explore-all" {
				want = 1
			}
			if len(matches) != want {
				t.Fatalf("C03 request %d of %d from one loaded root, path %q (exists=%v) target %s: %d matches, want %d", r+1, nreq, path, exists, which, len(matches), want)
			}
			if want == 1 {
				if matches[0].Path != normPath(segs) {
					t.Fatalf("C03 request %d of %d from one loaded root, path %q: matched at %q", r+1, nreq, path, matches[0].Path)
				}
				if derr != nil {
					t.Fatalf("C03 request %d of %d from one loaded root, path %q target %s: matched node is not the named entity: %v", r+1, nreq, path, which, derr)
				}
			}
			if stray := stores[1-si].ReadLog(); len(stray) > 0 {
				t.Fatalf("C03 request %d of %d from one loaded root, path %q: configured with store %d, but %d block loads (%v) went to the store of an earlier request", r+1, nreq, path, si, len(stray), shortCids(stray))
			}
			for i, nd := range nodes {
				if nd.Dir && nd.Sharded && i < len(segs) {
					if tr, _ := stores[0].ShardTree(nd.Root); tr != nil && len(tr.HashPath(segs[i])) > 0 {
						crossing++
						break
					}
				}
			}
			label += fmt.Sprintf("%s%d/%d ", which[:1], len(segs), si)
		}
		ev.Case(label, crossing >= 2, fmt.Sprintf("requests:%d", nreq), fmt.Sprintf("crossingChildShards:%d", crossing))
		ev.Sample(map[string]any{"requests": label, "entities": root.count(), "crossing_requests": crossing})
	})
}

// One process asks for path selectors for thousands of different paths (a gateway does): each selector resolves its own
// path, also when a path is asked for again much later. Short form and builder form alike.
func TestC03_R_SelectorsForThousandsOfPaths(t *testing.T) {
	st := NewStore()
	const n = 2500
	es := make([]entrySpec, n)
	want := map[string]cid.Cid{}
	for i := range es {
		name := fmt.Sprintf("e%04d", i)
		c, _, err := buildFile(st, []byte(name), "size-64", 2)
		if err != nil {
			t.Fatal(err)
		}
		es[i] = entrySpec{Name: name, Cid: c, Tsize: uint64(len(name))}
		want[name] = c
	}
	root, _, err := buildSharded(st, es, 256)
	if err != nil {
		t.Fatal(err)
	}
	ls := st.LinkSystem()
	pn, err := loadPlain(ls, root)
	if err != nil {
		t.Fatal(err)
	}
	resolve := func(name string, short bool) string {
		spec := unixfsnode.UnixFSPathSelectorBuilder(name, unixfsnode.MatchUnixFSSelector, false)
		if short {
			spec = unixfsnode.UnixFSPathSelector(name)
		}
		sel, err := selector.CompileSelector(spec)
		if err != nil {
			t.Fatal(err)
		}
		var got []string
		prog := traversal.Progress{Cfg: &traversal.Config{Ctx: sessionCtx, LinkSystem: *ls, LinkTargetNodePrototypeChooser: protoChooser}}
		if err := prog.WalkMatching(pn, sel, func(p traversal.Progress, n datamodel.Node) error {
			b, err := n.AsBytes()
			got = append(got, fmt.Sprintf("%s=%s", p.Path.String(), b))
			return err
		}); err != nil {
			t.Fatalf("C03: path %q: %v", name, err)
		}
		return strings.Join(got, ",")
	}
	for _, short := range []bool{true, false} {
		order := make([]string, 0, n+200)
		for i := 0; i < n; i++ {
			order = append(order, es[i].Name)
		}
		for i := 0; i < 200; i++ { // ... and the earliest ones again
			order = append(order, es[i*7%n].Name)
		}
		for k, name := range order {
			if got := resolve(name, short); got != name+"="+name {
				t.Fatalf("C03: selector #%d of this process (short form %v) for path %q matched [%s], want exactly the entry %q", k+1, short, name, got, name)
			}
		}
	}
}

// Names that begin or end with white space next to their trimmed twins, resolved with the short-form selector and with
// the builder: each path names exactly its own entry.
func TestC03_R_WhiteSpaceNamesThroughBothSelectorForms(t *testing.T) {
	names := []string{"report", "report ", " report", "t\t", "\nt", "t", "t ", " ", " ", "only-spaced "}
	kids := map[string]*tnode{}
	for i, n := range names {
		kids[n] = c03File(3 + i)
	}
	for _, sharded := range []bool{false, true} {
		root := c03Dir(sharded, kids)
		st := NewStore()
		if err := root.build(st); err != nil {
			t.Fatal(err)
		}
		ls := st.LinkSystem()
		pn, err := loadPlain(ls, root.Root)
		if err != nil {
			t.Fatal(err)
		}
		for _, short := range []bool{true, false} {
			for _, n := range names {
				spec := unixfsnode.UnixFSPathSelectorBuilder(n, unixfsnode.MatchUnixFSSelector, false)
				if short {
					spec = unixfsnode.UnixFSPathSelector(n)
				}
				sel, err := selector.CompileSelector(spec)
				if err != nil {
					t.Fatal(err)
				}
				var got []c03Match
				prog := traversal.Progress{Cfg: &traversal.Config{Ctx: sessionCtx, LinkSystem: *ls, LinkTargetNodePrototypeChooser: protoChooser}}
				if err := prog.WalkMatching(pn, sel, func(p traversal.Progress, nd datamodel.Node) error {
					got = append(got, c03Match{p.Path.String(), nd})
					return nil
				}); err != nil {
					t.Fatalf("C03: path %q (short form %v, sharded %v): %v", n, short, sharded, err)
				}
				if len(got) != 1 || got[0].Path != n {
					t.Fatalf("C03: path %q (short form %v, sharded %v) gave %d matches %v, want exactly the entry", n, short, sharded, len(got), got)
				}
				if err := c03Describe(got[0].Node, kids[n]); err != nil {
					t.Fatalf("C03: path %q (short form %v, sharded %v) matched another entity: %v", n, short, sharded, err)
				}
			}
		}
	}
}

// Paths of hundreds of segments: a chain of directories 300 levels deep (every 37th one sharded), resolved to the
// directory at each of the deeper levels and to the file at the bottom.
func TestC03_R_VeryDeepPaths(t *testing.T) {
	const depth = 300
	cur := c03File(11)
	var nodes []*tnode
	for level := depth; level >= 1; level-- {
		cur = c03Dir(level%37 == 0, map[string]*tnode{"d": cur, "other": c03File(2)})
		nodes = append([]*tnode{cur}, nodes...)
	}
	root := nodes[0]
	st := NewStore()
	if err := root.build(st); err != nil {
		t.Fatal(err)
	}
	for _, k := range []int{1, 100, 253, 254, 255, 256, 257, 258, 299, 300} {
		segs := make([]string, k)
		for i := range segs {
			segs[i] = "d"
		}
		for _, lead := range []string{"", "/"} {
			path := lead + strings.Join(segs, "/")
			ms, _, err := c03Walk(st, root.Root, path, "match", false)
			if err != nil || len(ms) != 1 || ms[0].Path != strings.Join(segs, "/") {
				t.Fatalf("C03: path of %d segments (leading slash %q) into a %d-level tree: %d matches, err %v", k, lead, depth, len(ms), err)
			}
			target := nodes[0]
			for i := 0; i < k; i++ {
				target = target.Kids["d"]
			}
			if err := c03Describe(ms[0].Node, target); err != nil {
				t.Fatalf("C03: path of %d segments: matched node is not the named entity: %v", k, err)
			}
		}
		bogus := strings.Join(segs, "/") + "/nope"
		if ms, _, err := c03Walk(st, root.Root, bogus, "match", false); err != nil || len(ms) != 0 {
			t.Fatalf("C03: path of %d segments naming no entry: %d matches, err %v", k+1, len(ms), err)
		}
	}
}

// A file whose DAG is a ladder hundreds of levels deep (every node links one leaf and the next node - an append-only log
// written chunk by chunk): the path selector delivers its exact bytes for every target, and its tail can be read alone.
func TestC03_R_VeryDeepFileDAG(t *testing.T) {
	for _, levels := range []int{17, 64, 65, 70, 300} {
		var data []byte
		leaves := make([][]byte, levels+1)
		for i := range leaves {
			leaves[i] = []byte{byte(i), byte(i >> 8), byte(levels)}
			data = append(data, leaves[i]...)
		}
		node := &mnode{IsRaw: true, Raw: leaves[levels]}
		size := uint64(len(leaves[levels]))
		for i := levels - 1; i >= 0; i-- {
			m := &mnode{HasData: true, UFS: &ufsFields{Type: 2, BlockSizes: []uint64{uint64(len(leaves[i])), size}, FileSize: u64p(uint64(len(leaves[i])) + size)}}
			m.Links = []mlink{{Tsize: i64p(int64(len(leaves[i]))), Child: &mnode{IsRaw: true, Raw: leaves[i]}}, {Tsize: i64p(int64(size) + 50), Child: node}}
			node, size = m, size+uint64(len(leaves[i]))
		}
		file := &tnode{Data: data, Hand: node}
		root := c03Dir(false, map[string]*tnode{"log": file, "x": c03File(3)})
		st := NewStore()
		if err := root.build(st); err != nil {
			t.Fatal(err)
		}
		for _, which := range []string{"match", "preload", "entity"} {
			ms, _, err := c03Walk(st, root.Root, "log", which, false)
			if err != nil || len(ms) != 1 {
				t.Fatalf("C03: path to a file whose DAG is %d levels deep, target %s: %d matches, err %v", levels, which, len(ms), err)
			}
			if err := c03Describe(ms[0].Node, file); err != nil {
				t.Fatalf("C03: file whose DAG is %d levels deep, target %s: %v", levels, which, err)
			}
			if which == "match" {
				rs, err := ms[0].Node.(datamodel.LargeBytesNode).AsLargeBytes()
				if err != nil {
					t.Fatal(err)
				}
				if _, err := rs.Seek(-4, io.SeekEnd); err != nil {
					t.Fatal(err)
				}
				if tail, err := io.ReadAll(rs); err != nil || !bytes.Equal(tail, data[len(data)-4:]) {
					t.Fatalf("C03: file whose DAG is %d levels deep: its last 4 bytes read as %x, %v", levels, tail, err)
				}
			}
		}
	}
}
