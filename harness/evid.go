package harness

// Per-run evidence recorder (DESIGN.md section 4.3). Each property test owns one recorder; at test end it writes
// a fragment $VERIF_EVID_DIR/<test>.<shard>.json that the driver merges into /verif/evidence/<ID>.json.

import (
	"encoding/json"
	"fmt"
	"hash/fnv"
	"os"
	"path/filepath"
	"runtime/debug"
	"strconv"
	"sync"
	"testing"
)

type Evid struct {
	mu       sync.Mutex
	name     string
	Evals    int               `json:"evaluations"`
	NT       map[string]bool   `json:"-"`
	NTHashes []string          `json:"nontrivial_fingerprints"`
	NTCount  int               `json:"nontrivial_cases"`
	Classes  map[string]int    `json:"classes"`
	Samples  []json.RawMessage `json:"samples"`
	Excluded int               `json:"excluded_known"`
	Extra    map[string]any    `json:"extra,omitempty"`
	Rule     string            `json:"rule"`
	Exh      bool              `json:"exhaustive,omitempty"`
	nsample  int
}

func newEvid(t *testing.T, rule string) *Evid {
	e := &Evid{name: t.Name(), NT: map[string]bool{}, Classes: map[string]int{}, Extra: map[string]any{}, Rule: rule}
	t.Cleanup(e.flush)
	return e
}

func fph(s string) string {
	h := fnv.New64a()
	h.Write([]byte(s))
	return strconv.FormatUint(h.Sum64(), 36)
}

// Case records one executed case: its fingerprint, whether it is non-trivial by the stated rule, and class labels.
func (e *Evid) Case(fp string, nontrivial bool, classes ...string) {
	e.mu.Lock()
	defer e.mu.Unlock()
	e.Evals++
	if nontrivial {
		e.NTCount++
		e.NT[fph(fp)] = true
	}
	for _, c := range classes {
		if c != "" {
			e.Classes[c]++
		}
	}
}

// Count bumps a class counter without counting an evaluation.
func (e *Evid) Count(class string, n int) {
	e.mu.Lock()
	defer e.mu.Unlock()
	e.Classes[class] += n
}

func (e *Evid) Exclude(n int) {
	e.mu.Lock()
	defer e.mu.Unlock()
	e.Excluded += n
}

// Sample keeps a bounded, spread-out selection of cases (the 1st, 2nd, 4th, 8th ... offered).
func (e *Evid) Sample(v any) {
	e.mu.Lock()
	defer e.mu.Unlock()
	e.nsample++
	n := e.nsample
	if n&(n-1) != 0 || len(e.Samples) >= 14 {
		return
	}
	b, err := json.Marshal(v)
	if err != nil {
		b, _ = json.Marshal(fmt.Sprint(v))
	}
	if len(b) > 1500 {
		b, _ = json.Marshal(string(b[:1500]) + "...(truncated)")
	}
	e.Samples = append(e.Samples, b)
}

func (e *Evid) Set(k string, v any) {
	e.mu.Lock()
	defer e.mu.Unlock()
	e.Extra[k] = v
}

func (e *Evid) flush() {
	dir := os.Getenv("VERIF_EVID_DIR")
	if dir == "" {
		return
	}
	e.mu.Lock()
	defer e.mu.Unlock()
	e.NTHashes = e.NTHashes[:0]
	for k := range e.NT {
		e.NTHashes = append(e.NTHashes, k)
	}
	shard := os.Getenv("VERIF_SHARD")
	if shard == "" {
		shard = "0"
	}
	b, err := json.Marshal(e)
	if err != nil {
		return
	}
	_ = os.MkdirAll(dir, 0o755)
	_ = os.WriteFile(filepath.Join(dir, e.name+"."+shard+".json"), b, 0o644)
}

// ---------------------------------------------------------------- misc shared helpers

func thorough() bool { return os.Getenv("VERIF_TIER") == "thorough" }

// scale returns q in the quick tier and th in the thorough tier.
func scale(q, th int) int {
	if thorough() {
		return th
	}
	return q
}

// safe runs f and converts a panic into (value, stack).
func safe(f func()) (p any, stack string) {
	defer func() {
		if r := recover(); r != nil {
			p = r
			stack = string(debug.Stack())
			if len(stack) > 3000 {
				stack = stack[:3000]
			}
		}
	}()
	f()
	return nil, ""
}

type fataler interface {
	Fatalf(format string, args ...any)
}

// must runs f, failing the case (so that rapid shrinks it) if f panics.
func must(t fataler, what string, f func()) {
	if p, st := safe(f); p != nil {
		t.Fatalf("PANIC in %s: %v\n%s", what, p, st)
	}
}
