// Package harness holds the property-based checks for go-unixfsnode (see /verif/DESIGN.md).
package harness
