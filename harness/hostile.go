package harness

// Mutable in-memory form of dag-pb DAGs with arbitrary (possibly invalid) UnixFS payloads, used to generate hostile
// inputs from scratch and by mutating valid DAGs with parent re-linking (C13, C14, C15).

import (
	"fmt"

	"github.com/ipfs/go-cid"
	dagpb "github.com/ipld/go-codec-dagpb"
	"github.com/ipld/go-ipld-prime"
	"github.com/ipld/go-ipld-prime/datamodel"
	"github.com/ipld/go-ipld-prime/fluent/qp"
	cidlink "github.com/ipld/go-ipld-prime/linking/cid"
	"github.com/ipld/go-ipld-prime/node/basicnode"
	"pgregory.net/rapid"
)

type ufsFields struct {
	Type       uint64
	HasData    bool
	Data       []byte
	FileSize   *uint64
	BlockSizes []uint64
	HashType   *uint64
	Fanout     *uint64
	Mode       *uint64
	// Presentation: 0 canonical; 1 the Type field comes last; 2 an unknown field (number 9) comes first; 3 the Type tag is
	// written as a two-byte (non-minimal) varint. All are valid protobuf for the same message.
	Presentation int
}

func (u *ufsFields) encode() []byte {
	var b []byte
	typeField := wVarint(wTag(nil, 1, 0), u.Type)
	switch u.Presentation {
	case 1:
		// (appended after the other fields)
	case 2:
		b = wVarint(wTag(b, 9, 0), 1)
		b = append(b, typeField...)
	case 3:
		b = append(b, 0x88, 0x00)
		b = wVarint(b, u.Type)
	default:
		b = append(b, typeField...)
	}
	b = u.encodeRest(b)
	if u.Presentation == 1 {
		b = append(b, typeField...)
	}
	return b
}

func (u *ufsFields) encodeRest(b []byte) []byte {
	if u.HasData {
		b = wBytes(b, 2, u.Data)
	}
	if u.FileSize != nil {
		b = wVarint(wTag(b, 3, 0), *u.FileSize)
	}
	for _, v := range u.BlockSizes {
		b = wVarint(wTag(b, 4, 0), v)
	}
	if u.HashType != nil {
		b = wVarint(wTag(b, 5, 0), *u.HashType)
	}
	if u.Fanout != nil {
		b = wVarint(wTag(b, 6, 0), *u.Fanout)
	}
	if u.Mode != nil {
		b = wVarint(wTag(b, 7, 0), *u.Mode)
	}
	return b
}

type mlink struct {
	Name    *string
	Tsize   *int64
	Child   *mnode
	Missing bool // link to a block that is not in the store
}

type mnode struct {
	IsRaw   bool
	Raw     []byte
	Links   []mlink
	HasData bool
	UFS     *ufsFields // structured payload; when nil and HasData, Garbage is used verbatim
	Garbage []byte
	Inline  bool // raw leaf linked by an identity CID (the block is the link)
}

var rawInlineProto = cidlink.LinkPrototype{Prefix: cid.Prefix{Version: 1, Codec: codecRaw, MhType: 0x00, MhLength: -1}}

func u64p(v uint64) *uint64 { return &v }
func i64p(v int64) *int64   { return &v }
func strp(s string) *string { return &s }

// store encodes the DAG bottom-up into st and returns the root CID.
func (m *mnode) store(st *Store, ls *ipld.LinkSystem) (cid.Cid, error) {
	if m.IsRaw {
		proto := rawProto
		if m.Inline {
			proto = rawInlineProto
		}
		l, err := ls.Store(lc0, proto, basicnode.NewBytes(m.Raw))
		if err != nil {
			return cid.Undef, err
		}
		return cidOf(l), nil
	}
	type enc struct {
		name  *string
		tsize *int64
		l     datamodel.Link
	}
	var links []enc
	same := map[*mnode]cid.Cid{} // a child linked several times by one node is stored once
	for i, lk := range m.Links {
		var c cid.Cid
		if lk.Missing || lk.Child == nil {
			c = sumRaw([]byte(fmt.Sprintf("missing-%d-%d", i, len(m.Links))))
		} else if known, ok := same[lk.Child]; ok {
			c = known
		} else {
			var err error
			c, err = lk.Child.store(st, ls)
			if err != nil {
				return cid.Undef, err
			}
			same[lk.Child] = c
		}
		links = append(links, enc{lk.Name, lk.Tsize, cidlink.Link{Cid: c}})
	}
	var payload []byte
	if m.HasData {
		if m.UFS != nil {
			payload = m.UFS.encode()
		} else {
			payload = m.Garbage
		}
	}
	n, err := qp.BuildMap(dagpb.Type.PBNode, -1, func(ma datamodel.MapAssembler) {
		qp.MapEntry(ma, "Links", qp.List(int64(len(links)), func(la datamodel.ListAssembler) {
			for _, h := range links {
				qp.ListEntry(la, qp.Map(-1, func(ma datamodel.MapAssembler) {
					qp.MapEntry(ma, "Hash", qp.Link(h.l))
					if h.name != nil {
						qp.MapEntry(ma, "Name", qp.String(*h.name))
					}
					if h.tsize != nil {
						qp.MapEntry(ma, "Tsize", qp.Int(*h.tsize))
					}
				}))
			}
		}))
		if m.HasData {
			qp.MapEntry(ma, "Data", qp.Bytes(payload))
		}
	})
	if err != nil {
		return cid.Undef, err
	}
	l, err := ls.Store(lc0, pbProto, n)
	if err != nil {
		return cid.Undef, err
	}
	return cidOf(l), nil
}

func (m *mnode) all() []*mnode {
	out := []*mnode{m}
	for _, l := range m.Links {
		if l.Child != nil {
			out = append(out, l.Child.all()...)
		}
	}
	return out
}

// treeSize returns the number of nodes and the total leaf payload bytes of the logical tree (duplicates counted).
func (m *mnode) treeSize() (nodes int, payload int, links int) {
	nodes = 1
	if m.IsRaw {
		return 1, len(m.Raw), 0
	}
	if m.UFS != nil {
		payload += len(m.UFS.Data)
	}
	payload += len(m.Garbage)
	links = len(m.Links)
	for _, l := range m.Links {
		if l.Child != nil {
			n, p, k := l.Child.treeSize()
			nodes += n
			payload += p
			links += k
		}
	}
	return
}

// parseM reads the DAG below c from st into mutable form (valid DAGs written by the builders / the reference).
func parseM(st *Store, c cid.Cid) (*mnode, error) {
	bi, err := st.Decode(c)
	if err != nil {
		return nil, err
	}
	if !bi.IsPB {
		return &mnode{IsRaw: true, Raw: append([]byte{}, bi.Raw...)}, nil
	}
	m := &mnode{HasData: bi.HasData}
	if bi.HasData {
		if bi.UFS != nil {
			u := &ufsFields{Type: uint64(bi.UFS.GetType())}
			if bi.UFS.Data != nil {
				u.HasData, u.Data = true, append([]byte{}, bi.UFS.Data...)
			}
			u.FileSize, u.HashType, u.Fanout = bi.UFS.Filesize, bi.UFS.HashType, bi.UFS.Fanout
			u.BlockSizes = append([]uint64{}, bi.UFS.Blocksizes...)
			if bi.UFS.Mode != nil {
				u.Mode = u64p(uint64(*bi.UFS.Mode))
			}
			m.UFS = u
		} else {
			m.Garbage = append([]byte{}, bi.Data...)
		}
	}
	for _, l := range bi.Links {
		ml := mlink{Name: l.Name}
		if l.Tsize != nil {
			ml.Tsize = i64p(int64(*l.Tsize))
		}
		if _, ok := st.Get(l.Cid); ok {
			ch, err := parseM(st, l.Cid)
			if err != nil {
				return nil, err
			}
			ml.Child = ch
		} else {
			ml.Missing = true
		}
		m.Links = append(m.Links, ml)
	}
	return m, nil
}

// ---------------------------------------------------------------- from-scratch generator

var hostileInts = []uint64{0, 1, 2, 3, 5, 7, 8, 16, 64, 256, 1024, 2048, 1 << 31, 1 << 63, ^uint64(0)}
var hostileNames = []string{"", "0", "00", "0a", "000", "001x", "FF", "3FFabc", "a", "A1", "01", "07q", "zz", "00000"}

func genHostileUFS(t *rapid.T, m *mnode) {
	if rapid.IntRange(0, 9).Draw(t, "garbage") == 0 {
		m.Garbage = rapid.SliceOfN(rapid.Byte(), 0, 12).Draw(t, "gbytes")
		return
	}
	u := &ufsFields{Type: rapid.SampledFrom([]uint64{0, 1, 2, 2, 2, 3, 4, 5, 5, 5, 5, 6, 99, 1 << 63, ^uint64(0), 1<<32 + 5}).Draw(t, "type")}
	ints := rapid.SampledFrom(hostileInts)
	if rapid.Bool().Draw(t, "hasData") {
		u.HasData = true
		if u.Type == 5 {
			u.Data = rapid.SliceOfN(rapid.SampledFrom([]byte{0, 1, 3, 0x80, 0xff}), 0, 40).Draw(t, "bitfield")
		} else {
			u.Data = rapid.SliceOfN(rapid.Byte(), 0, 20).Draw(t, "data")
		}
	}
	if rapid.Bool().Draw(t, "hasFS") {
		u.FileSize = u64p(ints.Draw(t, "fs"))
	}
	for i := rapid.IntRange(0, 5).Draw(t, "nbs"); i > 0; i-- {
		u.BlockSizes = append(u.BlockSizes, ints.Draw(t, "bs"))
	}
	if rapid.IntRange(0, 3).Draw(t, "hasHT") > 0 {
		u.HashType = u64p(rapid.SampledFrom([]uint64{0x22, 0x22, 0x22, 0x12, 0}).Draw(t, "ht"))
	}
	if rapid.IntRange(0, 3).Draw(t, "hasFan") > 0 {
		u.Fanout = u64p(rapid.SampledFrom([]uint64{8, 8, 16, 256, 1024, 0, 1, 3, 7, 2048, 1 << 63}).Draw(t, "fan"))
	}
	m.UFS = u
}

func genHostileScratch(t *rapid.T, depth int) *mnode {
	kind := rapid.IntRange(0, 9).Draw(t, "kind")
	if depth == 0 || kind < 3 {
		return &mnode{IsRaw: true, Raw: rapid.SliceOfN(rapid.Byte(), 0, 8).Draw(t, "raw")}
	}
	m := &mnode{}
	for i := rapid.IntRange(0, 4).Draw(t, "nl"); i > 0; i-- {
		var l mlink
		if rapid.IntRange(0, 5).Draw(t, "hasName") > 0 {
			l.Name = strp(rapid.SampledFrom(hostileNames).Draw(t, "name"))
		}
		if rapid.IntRange(0, 5).Draw(t, "hasTs") > 0 {
			l.Tsize = i64p(rapid.SampledFrom([]int64{0, 1, 3, 8, 100, 1 << 40, 1<<63 - 1}).Draw(t, "ts"))
		}
		if rapid.IntRange(0, 9).Draw(t, "missing") == 0 {
			l.Missing = true
		} else {
			l.Child = genHostileScratch(t, depth-1)
		}
		m.Links = append(m.Links, l)
	}
	m.HasData = rapid.IntRange(0, 9).Draw(t, "nodeHasData") > 0
	if m.HasData {
		genHostileUFS(t, m)
	}
	return m
}

// ---------------------------------------------------------------- mutations of valid DAGs

var mutationKinds = []string{"fanout", "bitfield", "linkname", "dup-link", "drop-tsize", "type", "filesize", "blocksizes", "replace-child", "hashtype", "missing-child", "drop-data", "tsize-huge", "huge-consistent-sizes"}

// mutate applies one drawn mutation to node m; returns the mutation label ("" if not applicable).
func mutate(t *rapid.T, m *mnode) string {
	if m.IsRaw {
		m.Raw = rapid.SliceOfN(rapid.Byte(), 0, 6).Draw(t, "newraw")
		return "raw-bytes"
	}
	kind := rapid.SampledFrom(mutationKinds).Draw(t, "mutation")
	pickLink := func() int {
		if len(m.Links) == 0 {
			return -1
		}
		return rapid.IntRange(0, len(m.Links)-1).Draw(t, "link")
	}
	switch kind {
	case "fanout":
		if m.UFS == nil {
			return ""
		}
		m.UFS.Fanout = u64p(rapid.SampledFrom([]uint64{8, 16, 64, 256, 1024, 0, 1, 3, 7, 24, 2048, 1 << 20, 1 << 63}).Draw(t, "fan"))
	case "bitfield":
		if m.UFS == nil {
			return ""
		}
		switch rapid.IntRange(0, 4).Draw(t, "bf") {
		case 0:
			m.UFS.Data = append(make([]byte, rapid.IntRange(1, 140).Draw(t, "grow")), m.UFS.Data...)
			m.UFS.Data[0] = 1
		case 1:
			if len(m.UFS.Data) > 0 {
				m.UFS.Data = m.UFS.Data[:len(m.UFS.Data)-1]
			}
		case 2:
			m.UFS.Data = nil
		case 3:
			for i := range m.UFS.Data {
				m.UFS.Data[i] = 0xff
			}
		default:
			m.UFS.HasData = false
			m.UFS.Data = nil
		}
	case "linkname":
		i := pickLink()
		if i < 0 {
			return ""
		}
		switch rapid.IntRange(0, 4).Draw(t, "ln") {
		case 0:
			m.Links[i].Name = nil
		case 1:
			m.Links[i].Name = strp("")
		case 2:
			if m.Links[i].Name != nil && len(*m.Links[i].Name) > 0 {
				s := *m.Links[i].Name
				m.Links[i].Name = strp(s[:rapid.IntRange(0, len(s)-1).Draw(t, "cut")])
			}
		case 3:
			m.Links[i].Name = strp(rapid.SampledFrom(hostileNames).Draw(t, "hname"))
		default:
			if m.Links[i].Name != nil {
				m.Links[i].Name = strp("Z" + *m.Links[i].Name)
			}
		}
	case "dup-link":
		i := pickLink()
		if i < 0 {
			return ""
		}
		m.Links = append(m.Links, m.Links[i])
	case "drop-tsize":
		i := pickLink()
		if i < 0 {
			return ""
		}
		m.Links[i].Tsize = nil
	case "tsize-huge":
		i := pickLink()
		if i < 0 {
			return ""
		}
		m.Links[i].Tsize = i64p(rapid.SampledFrom([]int64{0, 1, 1 << 40, 1<<63 - 1}).Draw(t, "hts"))
	case "type":
		if m.UFS == nil {
			return ""
		}
		m.UFS.Type = rapid.SampledFrom([]uint64{0, 1, 2, 3, 4, 5, 6, 99, 1 << 63, ^uint64(0), 1<<32 + 2}).Draw(t, "ntype")
	case "huge-consistent-sizes":
		// FileSize and BlockSizes that agree with each other (one entry per link, FileSize = their sum) but are enormous:
		// a reader that trusts numbers once they are self-consistent must still not allocate by them
		if m.UFS == nil || len(m.Links) == 0 {
			return ""
		}
		total := rapid.SampledFrom([]uint64{1 << 40, 1 << 62, 1<<63 - 1, 1<<63 - 300, 1 << 31, 1<<32 + 5}).Draw(t, "hugeTotal")
		m.UFS.BlockSizes = make([]uint64, len(m.Links))
		rest := total
		for i := range m.UFS.BlockSizes {
			if i == len(m.UFS.BlockSizes)-1 {
				m.UFS.BlockSizes[i] = rest
			} else {
				m.UFS.BlockSizes[i] = uint64(i + 1)
				rest -= uint64(i + 1)
			}
		}
		m.UFS.FileSize = u64p(total)
	case "filesize":
		if m.UFS == nil {
			return ""
		}
		if rapid.Bool().Draw(t, "dropfs") {
			m.UFS.FileSize = nil
		} else {
			m.UFS.FileSize = u64p(rapid.SampledFrom(hostileInts).Draw(t, "nfs"))
		}
	case "blocksizes":
		if m.UFS == nil {
			return ""
		}
		switch rapid.IntRange(0, 3).Draw(t, "bsm") {
		case 0:
			m.UFS.BlockSizes = nil
		case 1:
			m.UFS.BlockSizes = append(m.UFS.BlockSizes, rapid.SampledFrom(hostileInts).Draw(t, "extra"))
		case 2:
			if len(m.UFS.BlockSizes) > 0 {
				m.UFS.BlockSizes = m.UFS.BlockSizes[:len(m.UFS.BlockSizes)-1]
			}
		default:
			if len(m.UFS.BlockSizes) > 0 {
				m.UFS.BlockSizes[rapid.IntRange(0, len(m.UFS.BlockSizes)-1).Draw(t, "bsi")] = rapid.SampledFrom(hostileInts).Draw(t, "bsv")
			}
		}
	case "replace-child":
		i := pickLink()
		if i < 0 {
			return ""
		}
		switch rapid.IntRange(0, 5).Draw(t, "rc") {
		case 5: // a well-formed but EMPTY shard of the parent's fanout (no writer leaves one behind, any block store may hold one)
			fan := uint64(8)
			if m.UFS != nil && m.UFS.Fanout != nil && *m.UFS.Fanout >= 8 && *m.UFS.Fanout <= 1024 {
				fan = *m.UFS.Fanout
			}
			m.Links[i].Child, m.Links[i].Missing = &mnode{HasData: true, UFS: hamtFields(fan, nil)}, false
		case 3: // loads fine but is not UnixFS: no links, undecodable Data
			m.Links[i].Child, m.Links[i].Missing = &mnode{HasData: true, Garbage: []byte{0xff, 0xff, 0x01}}, false
		case 4: // loads fine, no Data at all
			m.Links[i].Child, m.Links[i].Missing = &mnode{}, false
		case 0:
			m.Links[i].Child, m.Links[i].Missing = &mnode{IsRaw: true, Raw: []byte("xyz")}, false
		case 1:
			// a directory; its entry may be named like a field of the protobuf node itself
			nm := rapid.SampledFrom([]string{"inner", "Links", "Data", "Hash", "Name", "Tsize"}).Draw(t, "dirEntryName")
			m.Links[i].Child, m.Links[i].Missing = &mnode{HasData: true, UFS: &ufsFields{Type: 1}, Links: []mlink{{Name: strp(nm), Tsize: i64p(2), Child: &mnode{IsRaw: true, Raw: []byte("ab")}}}}, false
		default:
			m.Links[i].Child, m.Links[i].Missing = &mnode{HasData: true, UFS: &ufsFields{Type: 5, HasData: true, Data: []byte{1}, HashType: u64p(0x22), Fanout: u64p(8)},
				Links: []mlink{{Name: strp("0a"), Child: &mnode{IsRaw: true, Raw: []byte("v")}}}}, false
		}
	case "hashtype":
		if m.UFS == nil {
			return ""
		}
		m.UFS.HashType = u64p(rapid.SampledFrom([]uint64{0, 0x12, 0x23}).Draw(t, "nht"))
	case "missing-child":
		i := pickLink()
		if i < 0 {
			return ""
		}
		m.Links[i].Child, m.Links[i].Missing = nil, true
	case "drop-data":
		m.HasData, m.UFS, m.Garbage = false, nil, nil
	}
	return kind
}

// encodePBRaw writes a dag-pb block by hand (links in the given order, which the go-codec-dagpb encoder would sort), so that
// non-canonically ordered - but decodable - directory blocks can be stored.
func encodePBRaw(links []LinkInfo, data []byte, hasData bool) []byte {
	var b []byte
	for _, l := range links {
		var lb []byte
		lb = wBytes(lb, 1, l.Cid.Bytes())
		if l.Name != nil {
			lb = wBytes(lb, 2, []byte(*l.Name))
		}
		if l.Tsize != nil {
			lb = wVarint(wTag(lb, 3, 0), *l.Tsize)
		}
		b = wBytes(b, 2, lb)
	}
	if hasData {
		b = wBytes(b, 1, data)
	}
	return b
}
