// minecollisions deterministically mines names whose murmur3-x64-64 digests share long prefixes,
// so that generated HAMT directories become many levels deep. Output: JSON on stdout.
// Run from /verif/harness:  go run ./tools/minecollisions > testdata/collisions.json
package main

import (
	"encoding/json"
	"fmt"
	"math/bits"
	"os"
	"sort"

	"github.com/spaolacci/murmur3"
)

type hn struct {
	h uint64
	i uint32
}

type out struct {
	Note     string     `json:"note"`
	Pairs    [][]string `json:"pairs"`     // two names sharing >= PairBits leading hash bits
	PairBits []int      `json:"pair_bits"` // shared bits per pair
	Clusters [][]string `json:"clusters"`  // >= 5 names sharing 24 leading bits
	Big      [][]string `json:"big"`       // >= 12 names sharing 18 leading bits
}

func name(i uint32) string { return fmt.Sprintf("n%x", i) }

func main() {
	const N = 1 << 25
	hs := make([]hn, N)
	for i := 0; i < N; i++ {
		hs[i] = hn{murmur3.Sum64([]byte(name(uint32(i)))), uint32(i)}
	}
	sort.Slice(hs, func(a, b int) bool {
		if hs[a].h != hs[b].h {
			return hs[a].h < hs[b].h
		}
		return hs[a].i < hs[b].i
	})
	o := out{Note: "mined from names n<hex> for 0 <= i < 2^25; murmur3-x64-64, leading bits"}
	type pr struct {
		a, b uint32
		bits int
	}
	var prs []pr
	for i := 1; i < N; i++ {
		lz := bits.LeadingZeros64(hs[i].h ^ hs[i-1].h)
		if lz >= 38 {
			prs = append(prs, pr{hs[i-1].i, hs[i].i, lz})
		}
	}
	sort.Slice(prs, func(a, b int) bool {
		if prs[a].bits != prs[b].bits {
			return prs[a].bits > prs[b].bits
		}
		return prs[a].a < prs[b].a
	})
	if len(prs) > 600 {
		prs = prs[:600]
	}
	for _, p := range prs {
		o.Pairs = append(o.Pairs, []string{name(p.a), name(p.b)})
		o.PairBits = append(o.PairBits, p.bits)
	}
	collect := func(shift uint, min, cap int) [][]string {
		var res [][]string
		start := 0
		for i := 1; i <= N; i++ {
			if i == N || hs[i].h>>shift != hs[start].h>>shift {
				if i-start >= min && len(res) < cap {
					var c []string
					for j := start; j < i; j++ {
						c = append(c, name(hs[j].i))
					}
					res = append(res, c)
				}
				start = i
			}
		}
		return res
	}
	o.Clusters = collect(40, 7, 200)
	o.Big = collect(46, 160, 60)
	enc := json.NewEncoder(os.Stdout)
	if err := enc.Encode(o); err != nil {
		panic(err)
	}
}
