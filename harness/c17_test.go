package harness

// C17 - reified nodes can be read from several goroutines at once. Built with -race: any race report fails the run;
// in addition every concurrent result must equal the result of the same script run alone on a fresh node.

import (
	"bytes"
	"context"
	"fmt"
	"github.com/ipfs/go-unixfsnode"
	"github.com/ipfs/go-unixfsnode/data"
	"github.com/ipfs/go-unixfsnode/file"
	"github.com/ipfs/go-unixfsnode/hamt"
	"github.com/ipld/go-ipld-prime"
	"github.com/ipld/go-ipld-prime/linking"
	"io"
	"os"
	"runtime"
	"sort"
	"strings"
	"sync"
	"sync/atomic"
	"testing"
	"time"

	"github.com/ipfs/go-cid"
	"github.com/ipld/go-ipld-prime/datamodel"
	"github.com/ipld/go-ipld-prime/node/basicnode"
	"pgregory.net/rapid"
)

// c17LS is the link system of the current case (read-only while the goroutines run).
var c17LS *ipld.LinkSystem

type c17Op struct {
	Kind string
	Arg  string
	A, B int64
}

// slowNode is a caller-implemented node around another one whose field lookups give up the processor a few times before
// answering (what a lazily decoding or remote-backed node does).
type slowNode struct{ datamodel.Node }

func (s slowNode) LookupByString(k string) (datamodel.Node, error) {
	for i := 0; i < 3; i++ {
		runtime.Gosched()
	}
	return s.Node.LookupByString(k)
}

// c17RunScript executes the script on node n and returns one result string per op.
func c17RunScript(n datamodel.Node, script []c17Op) []string {
	out := make([]string, len(script))
	for i, op := range script {
		p, _ := safe(func() {
			switch op.Kind {
			case "lookup":
				v, err := n.LookupByString(op.Arg)
				if err != nil {
					out[i] = "err:" + fmt.Sprintf("%T", err)
					return
				}
				c, _ := linkOf(v)
				out[i] = c.String()
			case "iterate":
				var ks []string
				for it := n.MapIterator(); !it.Done(); {
					k, v, err := it.Next()
					if err != nil {
						ks = append(ks, "err")
						continue
					}
					s, _ := k.AsString()
					c, _ := linkOf(v)
					ks = append(ks, s+"="+c.String())
				}
				out[i] = fph(strings.Join(ks, ",")) + fmt.Sprintf("/%d", len(ks))
			case "native-iterate":
				// the typed accessor (hamt.UnixFSHAMTShard.Iterator): same pairs, no error channel
				var ks []string
				for it := n.(nativeDir).Iterator(); !it.Done(); {
					k, v := it.Next()
					if k == nil || v == nil {
						ks = append(ks, "nil")
						continue
					}
					ks = append(ks, k.String()+"="+cidOf(v.Link()).String())
				}
				out[i] = fph(strings.Join(ks, ",")) + fmt.Sprintf("/%d", len(ks))
			case "native-lookup":
				v := n.(nativeDir).Lookup(pbString(op.Arg))
				if v == nil {
					out[i] = "absent"
					return
				}
				out[i] = cidOf(v.Link()).String()
			case "lookup-node":
				v, err := n.LookupByNode(basicnode.NewString(op.Arg))
				if err != nil {
					out[i] = "err:" + fmt.Sprintf("%T", err)
					return
				}
				c, _ := linkOf(v)
				out[i] = c.String()
			case "lookup-segment":
				v, err := n.LookupBySegment(datamodel.PathSegmentOfString(op.Arg))
				if err != nil {
					out[i] = "err:" + fmt.Sprintf("%T", err)
					return
				}
				c, _ := linkOf(v)
				out[i] = c.String()
			case "attempt-shard":
				// narrowing an already reified directory to the shard type, as a request handler with its own context would
				// (and its own copy of the link system); the request is over - its context cancelled - when the call returns
				ctx, cancel := context.WithCancel(context.Background())
				own := *c17LS
				sh, err := hamt.AttemptHAMTShardFromNode(ctx, n, &own)
				cancel()
				out[i] = fmt.Sprintf("%v/%v", sh != nil, err)
			case "length":
				out[i] = fmt.Sprint(n.Length())
			case "bytes":
				b, err := n.AsBytes()
				out[i] = fmt.Sprintf("%s/%d/%v", fph(string(b)), len(b), err)
			case "seek-end":
				rs, err := n.(datamodel.LargeBytesNode).AsLargeBytes()
				if err != nil {
					out[i] = "err"
					return
				}
				end, err := rs.Seek(0, io.SeekEnd)
				back, err2 := rs.Seek(-op.A, io.SeekEnd)
				out[i] = fmt.Sprintf("%d/%v/%d/%v", end, err, back, err2 != nil)
			case "read":
				rs, err := n.(datamodel.LargeBytesNode).AsLargeBytes()
				if err != nil {
					out[i] = "err"
					return
				}
				if _, err := rs.Seek(op.A, io.SeekStart); err != nil {
					out[i] = "seekerr"
					return
				}
				buf := make([]byte, op.B)
				k, err := io.ReadFull(rs, buf)
				out[i] = fmt.Sprintf("%x/%v", buf[:k], err)
			}
		})
		if p != nil {
			out[i] = fmt.Sprintf("PANIC:%v", p)
		}
	}
	return out
}

const c17Rule = "case = shared reified node (sharded directory with cold cache / warmed by a full iteration; multi-level file) used by 2..8 goroutines started behind a barrier, each running a drawn script of lookups through any of the four entry points (member | non-member), full MapIterator, the typed Iterator, Length, AsBytes, AsLargeBytes+Seek+Read on an own reader; " +
	"oracle = (1) the Go race detector (test binary built with -race: any report fails the run), (2) every result equals the same script run alone on a fresh node; non-trivial = >= 2 goroutines whose scripts reach the same child shard (by the hash-path model) of a cold node, or >= 2 goroutines reading a multi-level file; distinct by (node kind, goroutines, the drawn scripts)"

func TestC17_P_ConcurrentReads(t *testing.T) {
	ev := newEvid(t, c17Rule)
	rapid.Check(t, func(t *rapid.T) {
		kind := rapid.SampledFrom([]string{"hamt-cold", "hamt-cold", "hamt-warm", "file", "file-oldstyle", "hamt-cold-faulty", "file-wide", "plaindir-wide", "hamt-cold-flaky", "file-oldstyle-measured", "file-slowroot", "linkmap-wide", "hamt-cold-damaged"}).Draw(t, "kind")
		st := NewStore()
		st.Yield = rapid.Bool().Draw(t, "yieldingStore") // every load gives up the processor, as a store blocking on I/O does
		var root cid.Cid
		var names []string
		var tree *ShardNode
		var content []byte
		if kind == "linkmap-wide" {
			// a dag-pb node without UnixFS data (reified as the generic link map) with dozens to hundreds of named links
			n := rapid.SampledFrom([]int{47, 48, 49, 100, 255, 256, 300}).Draw(t, "linkmapLinks")
			var links []LinkInfo
			for i := 0; i < n; i++ {
				names = append(names, fmt.Sprintf("entry-%05d", i))
				e := entryFor(names[i], 0)
				links = append(links, LinkInfo{Name: strp(e.Name), Tsize: u64p(1), Cid: e.Cid})
			}
			raw := encodePBRaw(links, nil, false)
			c, err := pbProto.Prefix.Sum(raw)
			if err != nil {
				t.Fatalf("harness: %v", err)
			}
			st.Put(c, raw)
			root = c
			tree = &ShardNode{Cid: root}
		} else if kind == "plaindir-wide" {
			// a plain (unsharded) directory with more than a thousand entries: still far below the automatic sharding threshold
			n := rapid.SampledFrom([]int{1023, 1024, 1025, 1500, 3000}).Draw(t, "plainEntries")
			es := make([]entrySpec, n)
			for i := range es {
				names = append(names, fmt.Sprintf("entry-%05d", i))
				es[i] = entryFor(names[i], 0)
			}
			var err error
			root, _, err = buildDir(st, es)
			if err != nil {
				t.Fatalf("harness: %v", err)
			}
			tree = &ShardNode{Cid: root}
		} else if kind == "file-wide" {
			// one node with several hundred links (a width above the default, or another writer's layout)
			content = lcgBytes(rapid.IntRange(260, 700).Draw(t, "wideLen"), 9, 0)
			var err error
			root, _, err = buildFile(st, content, "size-1", 1000)
			if err != nil {
				t.Fatalf("harness: %v", err)
			}
		} else if kind == "file-slowroot" {
			// a hand-assembled file whose recorded BlockSizes do not all match what its dag-pb leaves hold (a writer's
			// mistake; FileSize is their sum), opened with file.NewUnixFSFile over a caller-implemented root node whose field
			// lookups give up the processor (a lazily decoded or remote-backed node): the first uses of the fresh node overlap
			// inside its one-time set-up. Alone, every read is positioned by the recorded sizes; so it must be concurrently.
			nl := rapid.IntRange(2, 5).Draw(t, "srLeaves")
			m := &mnode{HasData: true, UFS: &ufsFields{Type: 2}}
			tot := uint64(0)
			for i := 0; i < nl; i++ {
				real := rapid.IntRange(1, 8).Draw(t, "srLeafLen")
				rec := uint64(max(0, real+rapid.SampledFrom([]int{0, 0, -2, -1, 1, 2}).Draw(t, "srSkew")))
				c := lcgBytes(real, byte(i+1), 0)
				m.Links = append(m.Links, mlink{Tsize: i64p(int64(real)), Child: &mnode{HasData: true, UFS: &ufsFields{Type: 2, HasData: true, Data: c, FileSize: u64p(uint64(real))}}})
				m.UFS.BlockSizes = append(m.UFS.BlockSizes, rec)
				tot += rec
				content = append(content, c...)
			}
			m.UFS.FileSize = u64p(tot)
			var err error
			root, err = m.store(st, st.LinkSystem())
			if err != nil {
				t.Fatalf("harness: %v", err)
			}
			st.Yield = true
		} else if kind == "file-oldstyle-measured" {
			// a file whose length has to be measured by opening its children (no FileSize, no BlockSizes, link nodes below
			// the root), on a store that yields at every load: every goroutine starts by asking for the end
			seed := rapid.IntRange(0, 200).Draw(t, "leafSeed")
			m, data := oldStyleTree(rapid.IntRange(2, 4).Draw(t, "osWidth"), 2, rapid.IntRange(1, 5).Draw(t, "osLeaf"), &seed)
			var err error
			root, err = m.store(st, st.LinkSystem())
			if err != nil {
				t.Fatalf("harness: %v", err)
			}
			content = data
			st.Yield = true
			if rapid.IntRange(0, 2).Draw(t, "measuredWithMissingBlock") == 0 {
				// ... and one block below the root cannot be loaded: everybody's measuring fails, as it does alone
				if tr, err := st.FileTree(root, 0); err == nil {
					all := tr.All()
					st.Missing = map[cid.Cid]bool{all[1+rapid.IntRange(0, len(all)-2).Draw(t, "missingBlock")].Cid: true}
				}
			}
		} else if kind == "file" || kind == "file-oldstyle" {
			var fc *fileCase
			if kind == "file" {
				fc = genFileDAG(t, 20, 300)
			} else {
				// hand-assembled: may lack BlockSizes / FileSize, so readers have to measure children by opening them
				fc = genHandFileDAGOpt(t, handOpts{OldStyle: true, SpareBlockSize: true, LyingFileSize: true})
				if len(fc.Data) == 0 {
					fc = genFileDAG(t, 20, 100)
				}
			}
			st, root, content = fc.St, fc.Root, fc.Data
		} else {
			names, _ = genNames(t, nameOpts{Max: 120})
			for len(names) < 4 {
				names = append(names, fmt.Sprintf("pad-%d", len(names)))
			}
			es := make([]entrySpec, len(names))
			for i, n := range names {
				es[i] = entryFor(n, 0)
			}
			var err error
			root, _, err = buildSharded(st, es, rapid.SampledFrom([]int{8, 8, 16, 256, 512, 1024}).Draw(t, "fanout"))
			st.HonorCtx = true // (loads under a context that is already done are refused)
			if err != nil {
				t.Fatalf("harness: %v", err)
			}
			tree, _ = st.ShardTree(root)
			if kind == "hamt-cold-damaged" {
				// a damaged directory on a trusted store: the block behind one child-shard link is a valid block of another
				// kind (a plain directory). Concurrent users get the errors (and results) they get alone
				if shards := tree.ShardsPreOrder(); len(shards) > 0 {
					other, _, err := buildDir(st, []entrySpec{entryFor("x", 0), entryFor("y", 0)})
					if err == nil && rapid.Bool().Draw(t, "damagedByAShardOfAnotherFanout") {
						// ... or a perfectly valid shard, of a directory with another fanout
						var oes []entrySpec
						for i := 0; i < 40; i++ {
							oes = append(oes, entryFor(fmt.Sprintf("other-%02d", i), 0))
						}
						other, _, err = buildSharded(st, oes, map[int]int{8: 16, 16: 256, 256: 16, 512: 8, 1024: 8}[tree.Fanout])
					}
					if err != nil {
						t.Fatalf("harness: %v", err)
					}
					raw, _ := st.Get(other)
					st.Put(shards[rapid.IntRange(0, len(shards)-1).Draw(t, "damagedShard")], raw)
					st.Trusted = true
				}
			}
			if kind == "hamt-cold-faulty" {
				// one child shard cannot be loaded: concurrent operations must fail (or not) exactly as they do alone, and return
				if shards := tree.ShardsPreOrder(); len(shards) > 0 {
					st.Missing = map[cid.Cid]bool{shards[rapid.IntRange(0, len(shards)-1).Draw(t, "missingShard")]: true}
					st.MissingIO = rapid.Bool().Draw(t, "ioErr")
				}
			}
		}
		g := rapid.IntRange(2, 8).Draw(t, "goroutines")
		flakyLengthFirst := kind == "hamt-cold-flaky" && rapid.Bool().Draw(t, "flakyLengthFirst")
		scripts := make([][]c17Op, g)
		touched := make([]map[cid.Cid]bool, g)
		for i := range scripts {
			touched[i] = map[cid.Cid]bool{}
			for j := rapid.IntRange(1, 12).Draw(t, "ops"); j > 0; j-- {
				var op c17Op
				if strings.HasPrefix(kind, "file") {
					switch rapid.IntRange(0, 3).Draw(t, "fop") {
					case 3:
						// end-relative seeks need the file's length (which old-style files have to work out from their children)
						op = c17Op{Kind: "seek-end", A: int64(rapid.IntRange(0, len(content)).Draw(t, "back"))}
					case 0:
						op = c17Op{Kind: "bytes"}
					default:
						a := int64(rapid.IntRange(0, len(content)).Draw(t, "a"))
						op = c17Op{Kind: "read", A: a, B: int64(rapid.IntRange(0, 40).Draw(t, "b"))}
					}
				} else {
					switch rapid.IntRange(0, 7).Draw(t, "dop") {
					case 7:
						op = c17Op{Kind: "attempt-shard"}
					case 6:
						op = c17Op{Kind: "native-iterate"}
						for _, c := range tree.ShardsPreOrder() {
							touched[i][c] = true
						}
					case 0:
						op = c17Op{Kind: "iterate"}
						for _, c := range tree.ShardsPreOrder() {
							touched[i][c] = true
						}
					case 1:
						op = c17Op{Kind: "length"}
						for _, c := range tree.ShardsPreOrder() {
							touched[i][c] = true
						}
					case 2:
						op = c17Op{Kind: "lookup", Arg: rapid.SampledFrom([]string{"nope", "", "zz", names[0] + "x"}).Draw(t, "nonmember")}
					default:
						op = c17Op{Kind: "lookup", Arg: names[rapid.IntRange(0, len(names)-1).Draw(t, "member")]}
					}
					if op.Kind == "lookup" {
						// any of the four lookup entry points
						op.Kind = rapid.SampledFrom([]string{"lookup", "lookup", "native-lookup", "lookup-node", "lookup-segment"}).Draw(t, "entryPoint")
						for _, c := range tree.HashPath(op.Arg) {
							touched[i][c] = true
						}
					}
				}
				if kind == "file-oldstyle-measured" && len(scripts[i]) == 0 {
					op = c17Op{Kind: "seek-end", A: op.A % int64(len(content)+1)}
				}
				if kind == "hamt-cold-flaky" && flakyLengthFirst && len(scripts[i]) == 0 {
					op = c17Op{Kind: "length"} // every goroutine starts by asking for the length of the cold node
					for _, c := range tree.ShardsPreOrder() {
						touched[i][c] = true
					}
				}
				if kind == "hamt-cold-flaky" && op.Kind != "lookup" && op.Kind != "lookup-node" && op.Kind != "lookup-segment" && op.Kind != "length" {
					// (operations with an error channel of their own, so that "was hit by the fault" can be told per operation)
					op = c17Op{Kind: "lookup", Arg: names[rapid.IntRange(0, len(names)-1).Draw(t, "flakyMember")]}
					for _, c := range tree.HashPath(op.Arg) {
						touched[i][c] = true
					}
				}
				scripts[i] = append(scripts[i], op)
			}
		}
		ls := st.LinkSystem()
		c17LS = ls
		overReified := (kind == "file" || kind == "file-wide") && rapid.IntRange(0, 2).Draw(t, "fileOverReifiedFile") == 0
		// files are also shared as the preloading reifier returns them (every block fetched up front)
		reifier := "unixfs"
		if strings.HasPrefix(kind, "file") && kind != "file-slowroot" && len(st.Missing) == 0 && rapid.IntRange(0, 2).Draw(t, "preloadedFile") == 0 {
			reifier = "unixfs-preload"
		}
		viaNodeReifier := (kind == "file" || kind == "file-wide") && len(content) <= 400 && reifier == "unixfs" && !overReified && rapid.IntRange(0, 3).Draw(t, "viaNodeReifier") == 0
		lsNR := *ls
		lsNR.NodeReifier = unixfsnode.Reify
		fresh := func() datamodel.Node {
			if kind == "file-slowroot" {
				pn, err := loadPlain(ls, root)
				if err != nil {
					t.Fatalf("harness: load: %v", err)
				}
				n, err := file.NewUnixFSFile(sessionCtx, slowNode{pn}, ls)
				if err != nil {
					t.Fatalf("harness: NewUnixFSFile over a caller-implemented root: %v", err)
				}
				return n
			}
			if viaNodeReifier {
				// the caller's link system reifies what it loads (NodeReifier set): one such link system serves every user
				n, err := lsNR.Load(lcS, cidLink(root), protoForCid(root))
				if err != nil {
					t.Fatalf("harness: load through a reifying link system: %v", err)
				}
				return n
			}
			n, err := loadReified(ls, root, reifier)
			if err != nil {
				t.Fatalf("harness: reify: %v", err)
			}
			if overReified {
				// the file constructor handed the already reified file (a bytes node that is itself a multi-block file)
				n, err = file.NewUnixFSFile(sessionCtx, n, ls)
				if err != nil {
					t.Fatalf("harness: NewUnixFSFile over a reified file: %v", err)
				}
			}
			return n
		}
		// expected: each script alone on a fresh node
		want := make([][]string, g)
		for i := range scripts {
			want[i] = c17RunScript(fresh(), scripts[i])
		}
		shared := fresh()
		if kind == "hamt-warm" {
			c17RunScript(shared, []c17Op{{Kind: "iterate"}, {Kind: "length"}})
		}
		got := make([][]string, g)
		var wg sync.WaitGroup
		start := make(chan struct{})
		for i := 0; i < g; i++ {
			wg.Add(1)
			go func(i int) {
				defer wg.Done()
				<-start
				got[i] = c17RunScript(shared, scripts[i])
			}(i)
		}
		if kind == "hamt-cold-flaky" {
			// exactly one of the block loads of the concurrent phase fails, once (a transient storage error)
			st.FaultKind = genFaultKind(t)
			st.FailReadAt = len(st.ReadLog()) + rapid.IntRange(1, 6).Draw(t, "flakyLoad")
		}
		close(start)
		c17Wait(&wg, fmt.Sprintf("%s, %d goroutines, scripts %+v", kind, g, scripts))
		if kind == "hamt-cold-flaky" {
			// one load failed, so at most one operation - the one that issued that load - may be affected, and it has to say so
			hit := 0
			for i := range scripts {
				for j := range scripts[i] {
					if got[i][j] == want[i][j] {
						continue
					}
					hit++
					if scripts[i][j].Kind == "length" && got[i][j] == "0" {
						continue // (Length has no error channel)
					}
					if !strings.HasPrefix(got[i][j], "err:") {
						t.Fatalf("C17: %s, %d goroutines, load #%d of the concurrent phase failing once: goroutine %d op %d %+v returned %q (alone and without fault: %q)", kind, g, st.FailReadAt, i, j, scripts[i][j], got[i][j], want[i][j])
					}
				}
			}
			if hit > 1 {
				t.Fatalf("C17: %s, %d goroutines: ONE block load failed once, yet %d operations were affected (got %v, alone and without fault %v): an operation reported a failure that was another goroutine's", kind, g, hit, got, want)
			}
			got = want
		}
		for i := range scripts {
			for j := range scripts[i] {
				if got[i][j] != want[i][j] {
					t.Fatalf("C17: %s, %d goroutines: goroutine %d op %d %+v returned %q concurrently but %q when run alone", kind, g, i, j, scripts[i][j], got[i][j], want[i][j])
				}
			}
		}
		sharedShard := false
		for i := 0; i < g; i++ {
			for j := i + 1; j < g; j++ {
				for c := range touched[i] {
					if touched[j][c] {
						sharedShard = true
					}
				}
			}
		}
		mix := map[string]bool{}
		for _, s := range scripts {
			for _, op := range s {
				mix[op.Kind] = true
			}
		}
		nt := (strings.HasPrefix(kind, "hamt-cold") && sharedShard) || strings.HasPrefix(kind, "file")
		st.FailReadAt = 0
		var mk []string
		for k := range mix {
			mk = append(mk, k)
		}
		sort.Strings(mk)
		ev.Case(fmt.Sprintf("%s g=%d %v shared=%v %s", kind, g, mk, sharedShard, fph(fmt.Sprint(scripts))), nt, "kind:"+kind, fmt.Sprintf("goroutines:%d", g), fmt.Sprintf("shared-child-shard:%v", sharedShard))
		ev.Sample(map[string]any{"node": kind, "goroutines": g, "ops_per_goroutine": len(scripts[0]), "op_mix": mk, "shared_child_shard": sharedShard})
	})
}

// c17Wait waits for the goroutines; operations on <= 300-byte files and <= 120-entry directories take microseconds, so
// not finishing within two minutes means a deadlock or livelock on the shared node. That cannot be shrunk (every retry
// would hang again), so the case is printed and the process exits with a failing verdict.
func c17Wait(wg *sync.WaitGroup, desc string) {
	done := make(chan struct{})
	go func() { wg.Wait(); close(done) }()
	select {
	case <-done:
	case <-time.After(120 * time.Second):
		buf := make([]byte, 1<<16)
		buf = buf[:runtime.Stack(buf, true)]
		fmt.Printf("--- FAIL: TestC17_P_ConcurrentReads (watchdog)\nC17: concurrent operations on one shared node did not return within 120s (deadlock or livelock): %s\n%s\nFAIL\n", desc, buf)
		os.Exit(1)
	}
}

// F9 (fixed): four goroutines looking names up on a freshly reified sharded directory.
func TestC17_R_F9_ConcurrentLookups(t *testing.T) {
	st := NewStore()
	var es []entrySpec
	for i := 0; i < 200; i++ {
		es = append(es, entryFor(fmt.Sprintf("n%d", i), 0))
	}
	root, _, err := buildSharded(st, es, 8)
	if err != nil {
		t.Fatal(err)
	}
	for round := 0; round < 10; round++ {
		rn, err := loadReified(st.LinkSystem(), root, "unixfs")
		if err != nil {
			t.Fatal(err)
		}
		var wg sync.WaitGroup
		for g := 0; g < 4; g++ {
			wg.Add(1)
			go func(g int) {
				defer wg.Done()
				for i := 0; i < 200; i++ {
					name := fmt.Sprintf("n%d", (i*7+g)%200)
					v, err := rn.LookupByString(name)
					if err != nil {
						t.Errorf("C17 F9: lookup %q: %v", name, err)
						return
					}
					if c, _ := linkOf(v); c != entryFor(name, 0).Cid {
						t.Errorf("C17 F9: lookup %q wrong link", name)
					}
				}
				if rn.Length() != 200 {
					t.Errorf("C17 F9: Length %d", rn.Length())
				}
			}(g)
		}
		c17Wait(&wg, "F9 regression: 4 goroutines x 200 lookups")
	}
}

// One goroutine's load of a child shard takes long (the store holds the request back); meanwhile other goroutines use the
// same directory node: a lookup that goes through an already loaded shard needs no block at all, one that goes through a
// third shard needs only that shard's block - neither may wait for the outstanding request. The held request is released
// only after they have returned, so with a node that serialises its users behind the slow load nobody ever finishes.
func TestC17_R_SlowLoadDoesNotBlockOtherUsers(t *testing.T) {
	st := NewStore()
	var es []entrySpec
	var names []string
	for i := 0; i < 400; i++ {
		names = append(names, fmt.Sprintf("entry-%03d", i))
		es = append(es, entryFor(names[i], 0))
	}
	root, _, err := buildSharded(st, es, 16)
	if err != nil {
		t.Fatal(err)
	}
	tree, err := st.ShardTree(root)
	if err != nil {
		t.Fatal(err)
	}
	// three names whose hash paths leave the root through three different child shards
	byShard := map[cid.Cid]string{}
	var order []cid.Cid
	for _, n := range names {
		if p := tree.HashPath(n); len(p) >= 1 {
			if _, ok := byShard[p[0]]; !ok {
				byShard[p[0]] = n
				order = append(order, p[0])
			}
		}
	}
	if len(order) < 3 {
		t.Fatalf("harness: directory has %d child shards below the root", len(order))
	}
	slow, warm, third := order[0], order[1], order[2]
	for _, op := range []string{"lookup", "length", "iterate"} {
		rn, err := loadReified(st.LinkSystem(), root, "unixfs")
		if err != nil {
			t.Fatal(err)
		}
		if got := c17RunScript(rn, []c17Op{{Kind: "lookup", Arg: byShard[warm]}}); got[0] != entryFor(byShard[warm], 0).Cid.String() {
			t.Fatalf("harness: warm-up lookup: %v", got)
		}
		release := make(chan struct{})
		st.Park, st.ParkedNow = map[cid.Cid]chan struct{}{slow: release}, nil
		st.ResetLogs()
		slowDone := make(chan []string, 1)
		go func() {
			// the user whose request is held back
			slowDone <- c17RunScript(rn, []c17Op{{Kind: op, Arg: byShard[slow]}})
		}()
		// wait until the store has that request
		for i := 0; ; i++ {
			st.mu.Lock()
			requested := len(st.ParkedNow) > 0
			st.mu.Unlock()
			if requested {
				break
			}
			if i > 5000 {
				t.Fatalf("harness: the %s never asked for child shard %s", op, slow)
			}
			time.Sleep(time.Millisecond)
		}
		othersDone := make(chan []string, 1)
		go func() {
			othersDone <- c17RunScript(rn, []c17Op{{Kind: "lookup", Arg: byShard[warm]}, {Kind: "lookup-node", Arg: byShard[third]}, {Kind: "lookup", Arg: "no-such-entry-in-" + byShard[warm]}})
		}()
		select {
		case got := <-othersDone:
			if got[0] != entryFor(byShard[warm], 0).Cid.String() || got[1] != entryFor(byShard[third], 0).Cid.String() || !strings.HasPrefix(got[2], "err:") {
				t.Fatalf("C17: lookups made while another goroutine's %s waits for a block returned %v", op, got)
			}
		case <-time.After(20 * time.Second):
			t.Fatalf("C17: while one goroutine's %s waits for the block of child shard %s (a slow request), lookups through an already loaded shard and through a third shard did not return within 20 s: users of the node are serialised behind the outstanding load", op, slow)
		}
		close(release)
		select {
		case got := <-slowDone:
			want := c17RunScript(func() datamodel.Node { n, _ := loadReified(st.LinkSystem(), root, "unixfs"); return n }(), []c17Op{{Kind: op, Arg: byShard[slow]}})
			if got[0] != want[0] {
				t.Fatalf("C17: the held-back %s returned %q after its block arrived, alone it returns %q", op, got[0], want[0])
			}
		case <-time.After(20 * time.Second):
			t.Fatalf("C17: the held-back %s did not return within 20 s of its block being served", op)
		}
		st.Park = nil
	}
}

// "Any number of goroutines": 320 goroutines make their first lookups on one fresh sharded-directory node whose storage is
// slow - the store serves nothing until 256 requests are waiting (or three seconds have passed). Everybody gets the right
// link and everybody returns.
func TestC17_R_HundredsOfGoroutinesOnASlowStore(t *testing.T) {
	const G = 320
	st := NewStore()
	var es []entrySpec
	for i := 0; i < 4000; i++ {
		es = append(es, entryFor(fmt.Sprintf("entry-%04d", i), 0))
	}
	root, _, err := buildSharded(st, es, 16)
	if err != nil {
		t.Fatal(err)
	}
	ls := st.LinkSystem()
	rn, err := loadReified(ls, root, "unixfs")
	if err != nil {
		t.Fatal(err)
	}
	var mu sync.Mutex
	waiting := 0
	release := make(chan struct{})
	var once sync.Once
	inner := ls.StorageReadOpener
	ls.StorageReadOpener = func(lc linking.LinkContext, l datamodel.Link) (io.Reader, error) {
		mu.Lock()
		waiting++
		if waiting >= 256 {
			once.Do(func() { close(release) })
		}
		mu.Unlock()
		select {
		case <-release:
		case <-time.After(3 * time.Second):
			once.Do(func() { close(release) })
		}
		return inner(lc, l)
	}
	errs := make(chan string, G)
	var wg sync.WaitGroup
	for g := 0; g < G; g++ {
		wg.Add(1)
		go func(g int) {
			defer wg.Done()
			for i := 0; i < 3; i++ {
				e := es[(g*37+i*1301)%len(es)]
				v, err := rn.LookupByString(e.Name)
				if err != nil {
					errs <- fmt.Sprintf("goroutine %d: lookup %q: %v", g, e.Name, err)
					return
				}
				if c, _ := linkOf(v); c != e.Cid {
					errs <- fmt.Sprintf("goroutine %d: lookup %q returned another entry's link", g, e.Name)
					return
				}
			}
		}(g)
	}
	done := make(chan struct{})
	go func() { wg.Wait(); close(done) }()
	select {
	case <-done:
	case <-time.After(60 * time.Second):
		t.Fatalf("C17: %d goroutines looking names up in one fresh sharded directory over a slow store: not all of them returned within 60 s (%d requests had reached the store)", G, waiting)
	}
	close(errs)
	for e := range errs {
		t.Fatalf("C17: %d goroutines on one node: %s", G, e)
	}
	if rn.Length() != int64(len(es)) {
		t.Fatalf("C17: Length() = %d afterwards, want %d", rn.Length(), len(es))
	}
}

// A node with thousands of links (a flat file written at a large width) shared by goroutines that all start with a
// positioned read somewhere else in the file: each gets the bytes at its position.
func TestC17_R_ConcurrentFirstReadsOnVeryWideNodes(t *testing.T) {
	for _, c := range []struct{ w, chunks int }{{5000, 4100}, {20000, 20000}} {
		st := NewStore()
		st.Yield = true
		data := lcgBytes(c.chunks*2-1, byte(c.w), 0)
		root, _, err := buildFile(st, data, "size-2", c.w)
		if err != nil {
			t.Fatal(err)
		}
		ls := st.LinkSystem()
		const G = 8
		for trial := 0; trial < 6; trial++ {
			n, err := loadReified(ls, root, "unixfs")
			if err != nil {
				t.Fatal(err)
			}
			var wg sync.WaitGroup
			start := make(chan struct{})
			errs := make([]string, G)
			for g := 0; g < G; g++ {
				wg.Add(1)
				go func(g int) {
					defer wg.Done()
					<-start
					p, _ := safe(func() {
						off := int64((len(data) - 20) * (G - g) / G)
						rs, err := n.(datamodel.LargeBytesNode).AsLargeBytes()
						if err != nil {
							errs[g] = err.Error()
							return
						}
						if _, err := rs.Seek(off, io.SeekStart); err != nil {
							errs[g] = err.Error()
							return
						}
						buf := make([]byte, 19)
						k, err := io.ReadFull(rs, buf)
						if err != nil || !bytes.Equal(buf, data[off:off+19]) {
							errs[g] = fmt.Sprintf("first read of goroutine %d at %d returned %d bytes %x (err %v), the file has %x there", g, off, k, buf[:k], err, data[off:off+19])
						}
					})
					if p != nil {
						errs[g] = fmt.Sprintf("panic: %v", p)
					}
				}(g)
			}
			close(start)
			c17Wait(&wg, fmt.Sprintf("first positioned reads on a %d-link node", c.chunks))
			for _, e := range errs {
				if e != "" {
					t.Fatalf("C17: %d goroutines on one fresh node of %d links (trial %d): %s", G, c.chunks, trial, e)
				}
			}
		}
	}
}

// The very first reifications of a process made by several goroutines at once (a server that starts serving requests on
// all its workers): whatever the library sets up on first use is set up once, and every goroutine gets its node.
// (The driver runs every test in a process of its own, so this test's reifications are the process's first.)
func TestC17_R_ConcurrentFirstReificationsOfAProcess(t *testing.T) {
	st := NewStore()
	file, _, err := buildFile(st, lcgBytes(100, 1, 0), "size-10", 3)
	if err != nil {
		t.Fatal(err)
	}
	var es []entrySpec
	for i := 0; i < 60; i++ {
		es = append(es, entryFor(fmt.Sprintf("e%02d", i), 0))
	}
	plain, _, err := buildDir(st, es[:5])
	if err != nil {
		t.Fatal(err)
	}
	roots := []cid.Cid{file, plain}
	for _, f := range []int{8, 16, 256, 1024} {
		sh, _, err := buildSharded(st, es, f)
		if err != nil {
			t.Fatal(err)
		}
		roots = append(roots, sh)
	}
	ls := st.LinkSystem()
	var plains []datamodel.Node
	for _, r := range roots {
		pn, err := loadPlain(ls, r)
		if err != nil {
			t.Fatal(err)
		}
		plains = append(plains, pn)
	}
	const G = 48
	errs := make([]string, G)
	var wg sync.WaitGroup
	// (a spinning start, so that the first calls really overlap on all cores)
	var ready, start atomic.Int32
	for g := 0; g < G; g++ {
		wg.Add(1)
		go func(g int) {
			defer wg.Done()
			ready.Add(1)
			for start.Load() == 0 {
			}
			p, _ := safe(func() {
				// the very first call of every goroutine: one reification, nothing else before it
				if _, err := ls.KnownReifiers["unixfs"](lcS, plains[len(plains)-1-g%4], ls); err != nil {
					errs[g] = fmt.Sprintf("goroutine %d: first reification (a sharded directory): %v", g, err)
					return
				}
				for i := 0; i < len(plains); i++ {
					k := (g + i) % len(plains)
					reifier := []string{"unixfs", "unixfs-preload"}[(g+i)%2]
					rn, err := ls.KnownReifiers[reifier](lcS, plains[k], ls)
					if err != nil {
						errs[g] = fmt.Sprintf("goroutine %d: %s of node #%d: %v", g, reifier, k, err)
						return
					}
					if k >= 1 {
						if l := rn.Length(); (k == 1 && l != 5) || (k > 1 && l != 60) {
							errs[g] = fmt.Sprintf("goroutine %d: %s of directory #%d: Length() = %d", g, reifier, k, l)
							return
						}
						if _, err := rn.LookupByString("e03"); err != nil {
							errs[g] = fmt.Sprintf("goroutine %d: %s of directory #%d: lookup: %v", g, reifier, k, err)
							return
						}
					} else if b, err := rn.AsBytes(); err != nil || len(b) != 100 {
						errs[g] = fmt.Sprintf("goroutine %d: %s of the file: %d bytes, %v", g, reifier, len(b), err)
						return
					}
				}
			})
			if p != nil {
				errs[g] = fmt.Sprintf("goroutine %d: panic: %v", g, p)
			}
		}(g)
	}
	for ready.Load() < int32(min(G, runtime.GOMAXPROCS(0))) {
		runtime.Gosched()
	}
	start.Store(1)
	c17Wait(&wg, "first reifications of the process")
	for _, e := range errs {
		if e != "" {
			t.Fatalf("C17: %d goroutines making the first reifications of the process: %s", G, e)
		}
	}
}

// ... and the node kept from a failed preload (see C15) is shared by goroutines like any other.
func TestC17_R_NodeKeptFromAFailedPreloadUsedConcurrently(t *testing.T) {
	for _, missing := range []int{0, 3, 25} {
		node, es := c15FailedPreloadNode(t, 1200, 16, missing)
		if node == nil {
			continue
		}
		const G = 8
		errs := make([]string, G)
		var wg sync.WaitGroup
		start := make(chan struct{})
		for g := 0; g < G; g++ {
			wg.Add(1)
			go func(g int) {
				defer wg.Done()
				<-start
				p, _ := safe(func() {
					for i := g; i < len(es); i += 13 {
						v, err := node.LookupByString(es[i].Name)
						if c, e := linkOf(v); err != nil || e != nil || c != es[i].Cid {
							errs[g] = fmt.Sprintf("lookup of %q: %v %v", es[i].Name, v, err)
							return
						}
					}
					if l := node.Length(); l != int64(len(es)) {
						errs[g] = fmt.Sprintf("Length() = %d", l)
					}
				})
				if p != nil {
					errs[g] = fmt.Sprintf("panic: %v", p)
				}
			}(g)
		}
		close(start)
		c17Wait(&wg, "node kept from a failed preload")
		for g, e := range errs {
			if e != "" {
				t.Fatalf("C17: node kept from a preload that failed at shard #%d, shared by %d goroutines once storage is healthy: goroutine %d: %s", missing, G, g, e)
			}
		}
	}
}

// Thousands of positioned reads by sixteen goroutines, each with readers of its own, on one shared file node with several
// hundred links: every read returns the bytes at its position.
func TestC17_R_ManyPositionedReadsOnAWideNode(t *testing.T) {
	st := NewStore()
	data := lcgBytes(600*3-1, 5, 0)
	root, _, err := buildFile(st, data, "size-3", 600)
	if err != nil {
		t.Fatal(err)
	}
	n, err := loadReified(st.LinkSystem(), root, "unixfs")
	if err != nil {
		t.Fatal(err)
	}
	const G, reads = 16, 6000
	errs := make([]string, G)
	var wg sync.WaitGroup
	start := make(chan struct{})
	for g := 0; g < G; g++ {
		wg.Add(1)
		go func(g int) {
			defer wg.Done()
			<-start
			p, _ := safe(func() {
				rs, err := n.(datamodel.LargeBytesNode).AsLargeBytes()
				if err != nil {
					errs[g] = err.Error()
					return
				}
				x := uint32(g*2654435761 + 12345)
				buf := make([]byte, 4)
				for i := 0; i < reads; i++ {
					x = x*1664525 + 1013904223
					off := int64(x>>8) % int64(len(data)-4)
					if _, err := rs.Seek(off, io.SeekStart); err != nil {
						errs[g] = fmt.Sprintf("seek %d: %v", off, err)
						return
					}
					if k, err := io.ReadFull(rs, buf); err != nil || !bytes.Equal(buf, data[off:off+4]) {
						errs[g] = fmt.Sprintf("read #%d at %d returned %d bytes %x (err %v), the file has %x there", i, off, k, buf[:k], err, data[off:off+4])
						return
					}
				}
			})
			if p != nil {
				errs[g] = fmt.Sprintf("panic: %v", p)
			}
		}(g)
	}
	close(start)
	c17Wait(&wg, "positioned reads on a wide node")
	for g, e := range errs {
		if e != "" {
			t.Fatalf("C17: %d goroutines making %d positioned reads each on one shared node of 600 links: goroutine %d: %s", G, reads, g, e)
		}
	}
}

// The first UnixFS messages of a process handled by many goroutines at once: permissions, encodings and decodings are what
// they are when the process has been running for a while.
func TestC17_R_ConcurrentFirstCodecCallsOfAProcess(t *testing.T) {
	const G = 48
	errs := make([]string, G)
	var wg sync.WaitGroup
	var ready, start atomic.Int32
	wires := [][]byte{{0x08, 0x02}, {0x08, 0x01}, {0x08, 0x05, 0x28, 0x22, 0x30, 0x08}, {0x08, 0x02, 0x38, 0x00}, {0x08, 0x02, 0x38, 0xa4, 0x03}, {0x08, 0x04, 0x12, 0x01, 'x'}}
	wantPerm := []int{0o644, 0o755, 0o755, 0, 0o644, 0}
	for g := 0; g < G; g++ {
		wg.Add(1)
		go func(g int) {
			defer wg.Done()
			ready.Add(1)
			for start.Load() == 0 {
			}
			p, _ := safe(func() {
				for i := range wires {
					k := (g + i) % len(wires)
					n, err := data.DecodeUnixFSData(wires[k])
					if err != nil {
						errs[g] = fmt.Sprintf("decode %x: %v", wires[k], err)
						return
					}
					if p := n.Permissions(); p != wantPerm[k] {
						errs[g] = fmt.Sprintf("message %x: Permissions() = %o, want %o", wires[k], p, wantPerm[k])
						return
					}
					enc := data.EncodeUnixFSData(n)
					n2, err := data.DecodeUnixFSData(enc)
					if err != nil || n2.Permissions() != wantPerm[k] {
						errs[g] = fmt.Sprintf("message %x re-encoded as %x: permissions %o after the round trip (err %v), want %o", wires[k], enc, n2.Permissions(), err, wantPerm[k])
						return
					}
				}
			})
			if p != nil {
				errs[g] = fmt.Sprintf("panic: %v", p)
			}
		}(g)
	}
	for ready.Load() < int32(min(G, runtime.GOMAXPROCS(0))) {
		runtime.Gosched()
	}
	start.Store(1)
	c17Wait(&wg, "first codec calls of the process")
	for g, e := range errs {
		if e != "" {
			t.Fatalf("C17 / C09: %d goroutines handling the first UnixFS messages of the process: goroutine %d: %s", G, g, e)
		}
	}
}

// A plain directory block with more than 2^16 links (hand-assembled), freshly reified and asked by eight goroutines at
// once for entries all over it.
func TestC17_R_ConcurrentFirstLookupsOnAHugePlainDirectory(t *testing.T) {
	const n = 70000
	st := NewStore()
	sub, names, want := wideDir(st, n, nil)
	for trial := 0; trial < 3; trial++ {
		rn, err := loadReified(st.LinkSystem(), sub, "unixfs")
		if err != nil {
			t.Fatal(err)
		}
		const G = 8
		errs := make([]string, G)
		var wg sync.WaitGroup
		start := make(chan struct{})
		for g := 0; g < G; g++ {
			wg.Add(1)
			go func(g int) {
				defer wg.Done()
				<-start
				p, _ := safe(func() {
					for i := g * 7; i < n; i += n/40 + g {
						v, err := rn.LookupByString(names[i])
						if c, e := linkOf(v); err != nil || e != nil || c != want[names[i]] {
							errs[g] = fmt.Sprintf("lookup of entry #%d %q: %v %v", i, names[i], v, err)
							return
						}
					}
					if _, err := rn.LookupByString("no-such-entry"); !isNoSuchField(err) {
						errs[g] = fmt.Sprintf("lookup of a non-member: %v", err)
					}
				})
				if p != nil {
					errs[g] = fmt.Sprintf("panic: %v", p)
				}
			}(g)
		}
		close(start)
		c17Wait(&wg, "first lookups on a huge plain directory")
		for g, e := range errs {
			if e != "" {
				t.Fatalf("C17: %d goroutines making their first lookups on one fresh plain directory of %d links (trial %d): goroutine %d: %s", G, n, trial, g, e)
			}
		}
	}
}

// A damaged directory on a trusted store - the block behind one child-shard link is a valid shard of a directory with
// another fanout - used by sixteen goroutines at once: every lookup through the bad child fails the way it fails alone,
// every other lookup succeeds.
func TestC17_R_DamagedChildOfAnotherFanoutUnderConcurrency(t *testing.T) {
	st := NewStore()
	var es, oes []entrySpec
	for i := 0; i < 3000; i++ {
		es = append(es, entryFor(fmt.Sprintf("entry-%04d", i), 0))
	}
	for i := 0; i < 60; i++ {
		oes = append(oes, entryFor(fmt.Sprintf("other-%02d", i), 0))
	}
	root, _, err := buildSharded(st, es, 256)
	if err != nil {
		t.Fatal(err)
	}
	other, _, err := buildSharded(st, oes, 16)
	if err != nil {
		t.Fatal(err)
	}
	tree, err := st.ShardTree(root)
	if err != nil {
		t.Fatal(err)
	}
	bad := tree.ShardsPreOrder()[3]
	raw, _ := st.Get(other)
	st.Put(bad, raw)
	st.Trusted = true
	ls := st.LinkSystem()
	var through, around []string
	for _, e := range es {
		p := tree.HashPath(e.Name)
		if len(p) > 0 && p[0] == bad {
			through = append(through, e.Name)
		} else if len(around) < 40 {
			around = append(around, e.Name)
		}
	}
	if len(through) == 0 {
		t.Fatal("harness: no entry below the damaged child")
	}
	alone := func(name string) string {
		n, err := loadReified(ls, root, "unixfs")
		if err != nil {
			t.Fatal(err)
		}
		return c17RunScript(n, []c17Op{{Kind: "lookup", Arg: name}})[0]
	}
	wantBad := alone(through[0])
	for trial := 0; trial < 8; trial++ {
		n, err := loadReified(ls, root, "unixfs")
		if err != nil {
			t.Fatal(err)
		}
		const G = 16
		errs := make([]string, G)
		var wg sync.WaitGroup
		var ready, start atomic.Int32
		for g := 0; g < G; g++ {
			wg.Add(1)
			go func(g int) {
				defer wg.Done()
				ready.Add(1)
				for start.Load() == 0 {
				}
				for i := 0; i < 400; i++ {
					name := through[(g+i)%len(through)]
					if got := c17RunScript(n, []c17Op{{Kind: "lookup", Arg: name}})[0]; got != wantBad {
						errs[g] = fmt.Sprintf("lookup #%d of %q (below the damaged child) returned %q, alone it returns %q", i, name, got, wantBad)
						return
					}
					if i%8 == 0 {
						name := around[(g+i)%len(around)]
						if got := c17RunScript(n, []c17Op{{Kind: "lookup", Arg: name}})[0]; strings.HasPrefix(got, "err") {
							errs[g] = fmt.Sprintf("lookup of %q (not below the damaged child) returned %q", name, got)
							return
						}
					}
				}
			}(g)
		}
		for ready.Load() < int32(min(G, runtime.GOMAXPROCS(0))) {
			runtime.Gosched()
		}
		start.Store(1)
		c17Wait(&wg, "lookups through a damaged child")
		for g, e := range errs {
			if e != "" {
				t.Fatalf("C17: %d goroutines on one directory whose child #4 is a shard of another fanout (trial %d): goroutine %d: %s", G, trial, g, e)
			}
		}
	}
}
