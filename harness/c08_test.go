package harness

// C08 - sharded directories are byte-identical to and interoperable with the reference HAMT (boxo unixfs/hamt).

import (
	"context"
	"fmt"
	"sort"
	"testing"

	bhamt "github.com/ipfs/boxo/ipld/unixfs/hamt"
	"github.com/ipfs/go-cid"
	format "github.com/ipfs/go-ipld-format"
	"github.com/ipfs/go-unixfsnode"
	"github.com/ipld/go-ipld-prime/datamodel"
	"pgregory.net/rapid"
)

const c08DiffRule = "case = (non-empty set of distinct names incl. murmur3 prefix-collision groups, per-entry sizes, fanout 8..1024, insertion order); built with BuildUnixFSShardedDirectory and with boxo hamt.Shard (CIDv1) via SetLink; " +
	"oracle = the reference root CID and Size() must equal the returned link and size; non-trivial = tree depth >= 2; distinct by (fanout, entry bucket, depth, name classes)"

func refBuildShard(st *Store, es []entrySpec, fanout int) (cid.Cid, uint64, error) {
	sh, err := refShard(st, fanout)
	if err != nil {
		return cid.Undef, 0, err
	}
	ctx := context.Background()
	for _, e := range es {
		if err := sh.SetLink(ctx, e.Name, &format.Link{Name: e.Name, Size: e.Tsize, Cid: e.Cid}); err != nil {
			return cid.Undef, 0, err
		}
	}
	nd, err := sh.Node()
	if err != nil {
		return cid.Undef, 0, err
	}
	sz, err := nd.Size()
	return nd.Cid(), sz, err
}

func TestC08_P_Differential(t *testing.T) {
	ev := newEvid(t, c08DiffRule)
	maxN := scale(300, 3000)
	rapid.Check(t, func(t *rapid.T) {
		names, classes, fanout := genNamesFanout(t, nameOpts{Max: maxN})
		if len(names) == 0 {
			names = []string{rapid.SampledFrom(specialNames).Draw(t, "single")}
		}
		salt := rapid.IntRange(0, 50).Draw(t, "salt")
		es := make([]entrySpec, len(names))
		for i, n := range names {
			es[i] = entryFor(n, salt)
		}
		if rapid.IntRange(0, 4).Draw(t, "hugeEntrySizes") == 0 {
			// entries that are links to very large things: their own Tsize does not fit 32 bits
			for i := rapid.IntRange(1, 3).Draw(t, "nHuge"); i > 0; i-- {
				es[rapid.IntRange(0, len(es)-1).Draw(t, "hugeAt")].Tsize = rapid.SampledFrom([]uint64{1<<32 - 1, 1 << 32, 1<<32 + 1, 5 << 30, 1 << 40, 1 << 50}).Draw(t, "hugeTsize")
			}
		}
		es = rapid.Permutation(es).Draw(t, "order")
		if rapid.IntRange(0, 3).Draw(t, "otherHashPrelude") == 0 {
			must(t, "builds with another name-hash function", func() { otherBuilds(salt) }) // history: must not affect what follows
		}
		st := NewStore()
		var got cid.Cid
		var gsz uint64
		var err error
		must(t, "BuildUnixFSShardedDirectory", func() { got, gsz, err = buildSharded(st, es, fanout) })
		if err != nil {
			t.Fatalf("C08: builder: %v", err)
		}
		want, wsz, err := refBuildShard(NewStore(), es, fanout)
		if err != nil {
			t.Fatalf("reference: %v", err)
		}
		if got != want || gsz != wsz {
			t.Fatalf("C08: fanout=%d n=%d: builder %s/%d, reference %s/%d", fanout, len(es), got, gsz, want, wsz)
		}
		tr, err := st.ShardTree(got)
		if err != nil {
			t.Fatal(err)
		}
		ev.Case(fmt.Sprintf("f=%d n=%s d=%d %v", fanout, bucket(len(es)), tr.Depth(), classes), tr.Depth() >= 2,
			fmt.Sprintf("fanout:%d", fanout), "entries:"+bucket(len(es)), "depth:"+bucket(tr.Depth()))
		ev.Sample(map[string]any{"fanout": fanout, "entries": len(es), "depth": tr.Depth(), "name_classes": classes, "cid": got.String()})
	})
}

const c08HistRule = "case = history of Set / Remove / Flush(Node()+reload with NewHamtFromDag) actions on a reference HAMT over a small name pool built from collision clusters (so removals collapse child shards), model = Go map; " +
	"oracle = the reference-written root read through Reify (lazy and preload) must be exactly the model map (all lookup entry points, both iterators, Length; removed names not found); " +
	"non-trivial = history containing a removal of a present name after which a child shard disappears, or a flush in the middle, or ending empty; distinct by (fanout, final size bucket, final depth, history class set)"

func TestC08_P_ReferenceHistories(t *testing.T) {
	ev := newEvid(t, c08HistRule)
	rapid.Check(t, func(t *rapid.T) {
		fanout := rapid.SampledFrom([]int{8, 8, 16, 64, 256, 1024}).Draw(t, "fanout")
		// name pool: a couple of collision clusters + specials
		var pool []string
		for i := 0; i < 2; i++ {
			c := collisions.Clusters[rapid.IntRange(0, len(collisions.Clusters)-1).Draw(t, "cluster")]
			pool = append(pool, c[:min(len(c), 5)]...)
		}
		p := collisions.Pairs[rapid.IntRange(0, len(collisions.Pairs)-1).Draw(t, "pair")]
		pool = append(pool, p[0], p[1], " ", "a", "00", "FFx", "é")
		st := NewStore()
		sh, err := refShard(st, fanout)
		if err != nil {
			t.Fatal(err)
		}
		ctx := context.Background()
		model := map[string]cid.Cid{}
		removed := map[string]bool{}
		classes := map[string]bool{}
		shardCount := func() int {
			nd, err := sh.Node()
			if err != nil {
				t.Fatalf("reference Node(): %v", err)
			}
			pres, _ := st.Reachable(nd.Cid())
			n := 0
			for c := range pres {
				if c.Prefix().Codec == codecDagPB {
					n++
				}
			}
			return n
		}
		t.Repeat(map[string]func(*rapid.T){
			"set": func(t *rapid.T) {
				name := rapid.SampledFrom(pool).Draw(t, "name")
				ver := rapid.IntRange(0, 2).Draw(t, "ver")
				c := sumRaw([]byte(fmt.Sprintf("%s#%d", name, ver)))
				if err := sh.SetLink(ctx, name, &format.Link{Name: name, Size: uint64(ver + 1), Cid: c}); err != nil {
					t.Fatalf("reference SetLink: %v", err)
				}
				if _, had := model[name]; had {
					classes["overwrite"] = true
				}
				model[name] = c
				delete(removed, name)
			},
			"remove": func(t *rapid.T) {
				name := rapid.SampledFrom(pool).Draw(t, "name")
				_, had := model[name]
				before := 0
				if had {
					before = shardCount()
				}
				err := sh.Remove(ctx, name)
				if had && err != nil {
					t.Fatalf("reference Remove(%q): %v", name, err)
				}
				if had {
					delete(model, name)
					removed[name] = true
					classes["remove-present"] = true
					if shardCount() < before {
						classes["collapse"] = true
					}
				} else {
					classes["remove-absent"] = true
				}
			},
			"flush": func(t *rapid.T) {
				nd, err := sh.Node()
				if err != nil {
					t.Fatalf("reference Node(): %v", err)
				}
				re, err := bhamt.NewHamtFromDag(storeDAG{st}, nd)
				if err != nil {
					t.Fatalf("reference reload: %v", err)
				}
				re.SetCidBuilder(v1Prefix())
				sh = re
				classes["flush"] = true
			},
		})
		nd, err := sh.Node()
		if err != nil {
			t.Fatalf("reference Node(): %v", err)
		}
		root := nd.Cid()
		// cross-check the model against the reference itself
		links, err := sh.EnumLinks(ctx)
		if err != nil || len(links) != len(model) {
			t.Fatalf("harness: reference holds %d entries (%v), model %d", len(links), err, len(model))
		}
		var nonMembers []string
		for n := range removed {
			nonMembers = append(nonMembers, n)
		}
		for _, n := range pool {
			if _, in := model[n]; !in {
				nonMembers = append(nonMembers, n)
			}
		}
		sort.Strings(nonMembers)
		nonMembers = append(nonMembers, "", "zz")
		ls := st.LinkSystem()
		withPast := rapid.IntRange(0, 2).Draw(t, "faultyPast") == 0
		for _, reifier := range []string{"unixfs", "unixfs-preload", "Load+NodeReifier"} {
			var cerr error
			hist := ""
			must(t, "read reference HAMT via "+reifier, func() {
				var dir datamodel.Node
				var err error
				if reifier == "Load+NodeReifier" {
					// a link system that reifies whatever it loads (LinkSystem.NodeReifier): sub-shards reach their parent reified
					ls2 := *ls
					ls2.NodeReifier = unixfsnode.Reify
					dir, err = ls2.Load(lcS, cidLink(root), protoForCid(root))
				} else {
					dir, err = loadReified(ls, root, reifier)
				}
				if err != nil {
					cerr = fmt.Errorf("reify: %w", err)
					return
				}
				if tr, terr := st.ShardTree(root); terr == nil && withPast {
					var mnames []string
					for n := range model {
						mnames = append(mnames, n)
					}
					sort.Strings(mnames)
					hist = "after " + faultyPast(t, st, dir, tr, mnames)
				}
				cerr = checkDirIsMapOpt(dir, model, nonMembers, len(model)%2 == 0)
			})
			if cerr != nil {
				t.Fatalf("C08: reference-written HAMT (fanout %d, %d entries, history %v) read via %s %s: %v", fanout, len(model), keys(classes), reifier, hist, cerr)
			}
		}
		// the caller re-points its link system at another store half way through the life of a reified directory (a cache in
		// front, then the origin; one CAR, then the next): loads made after the switch go where the link system points NOW,
		// also those below shards that were loaded before the switch
		if len(model) > 0 && rapid.IntRange(0, 2).Draw(t, "repointMidway") == 0 {
			var cerr error
			must(t, "read a reference HAMT across a storage switch", func() {
				before, after := NewStore(), NewStore()
				for c, b := range st.Blocks {
					before.Put(c, b)
					after.Put(c, b)
				}
				rls := before.LinkSystem()
				dir, err := loadReified(rls, root, "unixfs")
				if err != nil {
					cerr = err
					return
				}
				var mnames []string
				for n := range model {
					mnames = append(mnames, n)
				}
				sort.Strings(mnames)
				for i := rapid.IntRange(1, 3).Draw(t, "lookupsBeforeSwitch"); i > 0; i-- {
					_, _ = dir.LookupByString(mnames[rapid.IntRange(0, len(mnames)-1).Draw(t, "warmName")])
				}
				rls.StorageReadOpener = after.openRead
				before.LoadBudget = len(before.ReadLog()) // (every further read from the first store fails and is noted)
				if before.LoadBudget == 0 {
					before.LoadBudget = -1
				}
				cerr = checkDirIsMapOpt(dir, model, nonMembers, true)
				if cerr == nil && before.BudgetExceeded {
					cerr = fmt.Errorf("a block was requested from the store the link system no longer points at")
				}
			})
			if cerr != nil {
				t.Fatalf("C08: reference-written HAMT (fanout %d, %d entries) read across a switch of the link system's storage: %v", fanout, len(model), cerr)
			}
			ev.Count("storage-switched-midway", 1)
		}
		depth := 1
		if tr, err := st.ShardTree(root); err == nil {
			depth = tr.Depth()
		}
		if len(model) == 0 {
			classes["ends-empty"] = true
		}
		nt := classes["collapse"] || classes["flush"] || classes["ends-empty"]
		cl := []string{fmt.Sprintf("fanout:%d", fanout), "final:" + bucket(len(model)), "depth:" + bucket(depth)}
		for _, k := range keys(classes) {
			cl = append(cl, "has:"+k)
		}
		ev.Case(fmt.Sprintf("f=%d n=%s d=%d %v", fanout, bucket(len(model)), depth, keys(classes)), nt, cl...)
		ev.Sample(map[string]any{"fanout": fanout, "final_entries": len(model), "depth": depth, "history_classes": keys(classes)})
	})
}

func keys(m map[string]bool) []string {
	var out []string
	for k, v := range m {
		if v {
			out = append(out, k)
		}
	}
	sort.Strings(out)
	return out
}

// F4 (fixed): a reference HAMT whose last entry was removed serialises an empty bitfield by omitting Data.
func TestC08_R_F4_EmptyBitfield(t *testing.T) {
	for _, fanout := range []int{8, 256} {
		st := NewStore()
		sh, err := refShard(st, fanout)
		if err != nil {
			t.Fatal(err)
		}
		ctx := context.Background()
		c := sumRaw([]byte("x"))
		if err := sh.SetLink(ctx, " ", &format.Link{Name: " ", Size: 1, Cid: c}); err != nil {
			t.Fatal(err)
		}
		if err := sh.Remove(ctx, " "); err != nil {
			t.Fatal(err)
		}
		nd, err := sh.Node()
		if err != nil {
			t.Fatal(err)
		}
		dir, err := loadReified(st.LinkSystem(), nd.Cid(), "unixfs")
		if err != nil {
			t.Fatalf("C08 F4: reference-written empty HAMT (fanout %d) rejected: %v", fanout, err)
		}
		if err := checkDirIsMap(dir, map[string]cid.Cid{}, []string{" ", "a"}); err != nil {
			t.Fatalf("C08 F4: %v", err)
		}
	}
}

func TestC08_R_DeepPairs(t *testing.T) {
	// the deepest mined pairs at the narrowest fanout, plus one at each fanout
	for i := 0; i < 6; i++ {
		p := collisions.Pairs[i]
		es := []entrySpec{entryFor(p[0], 1), entryFor(p[1], 2), entryFor("x", 3)}
		for _, f := range []int{8, 16, 32, 64, 128, 256, 512, 1024} {
			got, gsz, err := buildSharded(NewStore(), es, f)
			if err != nil {
				t.Fatal(err)
			}
			want, wsz, err := refBuildShard(NewStore(), es, f)
			if err != nil {
				t.Fatal(err)
			}
			if got != want || gsz != wsz {
				t.Fatalf("C08 deep pair %v fanout %d (%d shared bits): builder %s/%d, reference %s/%d", p, f, collisions.PairBits[i], got, gsz, want, wsz)
			}
		}
	}
}

// Names crafted (by inverting murmur3) to share 48..59 leading digest bits: the deepest separable HAMTs at every fanout.
func TestC08_R_CraftedDeep(t *testing.T) {
	for _, shared := range []int{48, 55, 56, 57, 58, 59} {
		for _, f := range []int{8, 16, 32, 64, 128, 256, 512, 1024} {
			var es []entrySpec
			for _, n := range craftGroup(0x0123456789abcdef*uint64(shared), shared, 3, uint64(f)) {
				es = append(es, entryFor(n, 1))
			}
			es = append(es, entryFor("other", 1))
			got, gsz, err := buildSharded(NewStore(), es, f)
			if err != nil {
				t.Fatalf("C08 crafted shared=%d fanout=%d: builder: %v", shared, f, err)
			}
			want, wsz, err := refBuildShard(NewStore(), es, f)
			if err != nil {
				t.Fatalf("reference: shared=%d fanout=%d: %v", shared, f, err)
			}
			if got != want || gsz != wsz {
				t.Fatalf("C08 crafted shared=%d fanout=%d: builder %s/%d, reference %s/%d", shared, f, got, gsz, want, wsz)
			}
		}
	}
}

// Inseparable names (identical 64-bit digests): the reference refuses to build; the builder must refuse too (an error,
// not a panic and not a directory that loses an entry).
func TestC08_R_FullCollision(t *testing.T) {
	for _, f := range []int{8, 16, 256, 1024} {
		var es []entrySpec
		for _, n := range craftGroup(0xfeedfacefeedface, 64, 2, 5) {
			es = append(es, entryFor(n, 1))
		}
		_, _, rerr := refBuildShard(NewStore(), es, f)
		var berr error
		var root cidT
		must(t, "build with colliding names", func() { root, _, berr = buildSharded(NewStore(), es, f) })
		if (rerr == nil) != (berr == nil) {
			t.Fatalf("C08 full collision fanout=%d: reference err=%v, builder err=%v (root %v)", f, rerr, berr, root)
		}
	}
}

const c08SharedRule = "case = a sequence of 2..4 related entry sets (the first, then with entries added / removed / re-sized) each built with BuildUnixFSShardedDirectory into ONE shared store / link system and with the reference HAMT into a fresh one; oracle = every build's root CID and size equal the reference's, although most shard blocks already exist in the shared store; non-trivial = a later build that re-creates at least one stored shard; distinct by (fanout, size bucket, steps)"

// TestC08_P_SharedStoreRebuilds: the builder's output must not depend on what the link system already holds.
func TestC08_P_SharedStoreRebuilds(t *testing.T) {
	ev := newEvid(t, c08SharedRule)
	rapid.Check(t, func(t *rapid.T) {
		names, _ := genNames(t, nameOpts{Max: scale(120, 600)})
		if len(names) < 3 {
			names = append(names, "a", "b", "c")
		}
		fanout := genFanout(t)
		cur := map[string]entrySpec{}
		for _, n := range names {
			cur[n] = entryFor(n, 0)
		}
		shared := NewStore()
		steps := rapid.IntRange(2, 4).Draw(t, "steps")
		recreated := false
		for s := 0; s < steps; s++ {
			if s > 0 {
				switch rapid.IntRange(0, 3).Draw(t, "change") {
				case 0:
					cur[fmt.Sprintf("added-%d", s)] = entryFor(fmt.Sprintf("added-%d", s), s)
				case 1:
					delete(cur, names[rapid.IntRange(0, len(names)-1).Draw(t, "rm")])
				case 2:
					n := names[rapid.IntRange(0, len(names)-1).Draw(t, "resize")]
					if e, ok := cur[n]; ok {
						e.Tsize += 7
						cur[n] = e
					}
				default: // identical rebuild
				}
				if len(cur) == 0 {
					cur["last"] = entryFor("last", 0)
				}
			}
			var es []entrySpec
			for _, e := range cur {
				es = append(es, e)
			}
			sort.Slice(es, func(i, j int) bool { return es[i].Name < es[j].Name })
			before := shared.Len()
			var got cid.Cid
			var gsz uint64
			var err error
			must(t, "rebuild into shared store", func() { got, gsz, err = buildSharded(shared, es, fanout) })
			if err != nil {
				t.Fatalf("C08: builder: %v", err)
			}
			fresh := NewStore()
			want, wsz, err := refBuildShard(fresh, es, fanout)
			if err != nil {
				t.Fatalf("reference: %v", err)
			}
			if got != want || gsz != wsz {
				t.Fatalf("C08: build #%d (fanout %d, %d entries) into a store that already held %d blocks: builder %s/%d, reference %s/%d", s+1, fanout, len(es), before, got, gsz, want, wsz)
			}
			if s > 0 && shared.Len()-before < fresh.Len() {
				recreated = true
			}
		}
		ev.Case(fmt.Sprintf("f=%d n=%s steps=%d re=%v", fanout, bucket(len(names)), steps, recreated), recreated, fmt.Sprintf("fanout:%d", fanout), fmt.Sprintf("recreated:%v", recreated))
		ev.Sample(map[string]any{"fanout": fanout, "entries": len(names), "steps": steps, "shared_store_blocks": shared.Len()})
	})
}
