package harness

// Generator of stored UnixFS trees (files, plain directories, sharded directories) with an in-memory description,
// shared by C03, C05, C06, C20.

import (
	"fmt"
	"sort"
	"strings"

	"github.com/ipfs/go-cid"
	"pgregory.net/rapid"
)

type tnode struct {
	Dir     bool
	Sharded bool
	Fanout  int
	Data    []byte
	Kids    map[string]*tnode
	Root    cid.Cid
	Size    uint64
	Entity  []cid.Cid // blocks that make up this entity: file = every block; directory = root + child shards
	// Hand, when set, is a hand-assembled file DAG (empty chunks, old-style nodes without BlockSizes) stored as is
	Hand *mnode
	// Unsorted plain directories are stored as a hand-encoded block whose links are NOT in name order
	Unsorted bool
}

var treeNamePool = []string{"a", "b", "c d", "é", "00", "A1x", ".", "..", "x.txt", "漢字", "%41", "0A", "FF", "n1", "n2", "n3", "n4", "\xff\xfe", "a\nb", " ",
	// numeric-looking names (a path segment that parses as an index is still a name) and names around / beyond 255 bytes
	"0", "7", "007", "-1", "2024", "9223372036854775807",
	// names that begin or end with white space (and their trimmed twins)
	"t ", " t", "t", "t\t", "\nt", "t\u00a0", "\u00a0",
	// names that differ in letter case only (and case-folding twins)
	"README", "readme", "Readme", "Straße", "straße", "STRASSE", "ß", "ss", "K", "k", "\u212a",
	"L255" + strings.Repeat("x", 251), "L256" + strings.Repeat("x", 252), "L257" + strings.Repeat("x", 253), "L300" + strings.Repeat("x", 296), "L1000" + strings.Repeat("x", 995)}

// genTreeNames draws distinct entry names without '/' (a path separator) for one directory.
func genTreeNames(t *rapid.T, max int) []string {
	set := map[string]bool{}
	k := rapid.IntRange(0, max).Draw(t, "nkids")
	if k == 0 {
		return nil
	}
	switch rapid.IntRange(0, 5).Draw(t, "namesrc") {
	case 0: // a collision pair plus pool names: forces child shards
		p := collisions.Pairs[rapid.IntRange(0, len(collisions.Pairs)-1).Draw(t, "pair")]
		set[p[0]], set[p[1]] = true, true
	case 1:
		c := collisions.Clusters[rapid.IntRange(0, len(collisions.Clusters)-1).Draw(t, "cluster")]
		for _, s := range c[:min(len(c), k)] {
			set[s] = true
		}
	}
	for _, s := range rapid.SliceOfN(rapid.SampledFrom(treeNamePool), 0, k).Draw(t, "pool") {
		if len(set) < max {
			set[s] = true
		}
	}
	for i := 0; len(set) < k; i++ {
		set[fmt.Sprintf("e%d", i)] = true
	}
	out := make([]string, 0, len(set))
	for s := range set {
		out = append(out, s)
	}
	sort.Strings(out)
	return out
}

// genTree draws a tree whose root is almost always a directory.
type treeOpts struct {
	Hand     bool // hand-assembled file DAGs (empty chunks) among the files
	OldStyle bool // ... which may also omit BlockSizes / FileSize (only for checks about bytes, not fetch order)
	Unsorted bool // plain directories stored as hand-encoded blocks with links out of name order
}

func genTree(t *rapid.T, depth, maxKids int) *tnode {
	return genTreeOpt(t, depth, maxKids, treeOpts{Hand: true, Unsorted: true})
}

// genBuilderTree draws trees written exclusively by the builders under test.
func genBuilderTree(t *rapid.T, depth, maxKids int) *tnode {
	return genTreeOpt(t, depth, maxKids, treeOpts{})
}

func genTreeOpt(t *rapid.T, depth, maxKids int, o treeOpts) *tnode {
	if rapid.IntRange(0, 9).Draw(t, "rootisfile") == 0 {
		return genSubTree(t, 0, maxKids, o)
	}
	return genSubTree(t, -depth, maxKids, o)
}

// genSubTree: depth > 0 may be a file or a directory; depth == 0 is a file; depth < 0 forces a directory of depth -depth.
func genSubTree(t *rapid.T, depth, maxKids int, o treeOpts) *tnode {
	force := depth < 0
	if force {
		depth = -depth
	}
	if depth == 0 || (!force && rapid.IntRange(0, 2).Draw(t, "isfile") == 0) {
		if o.Hand && rapid.IntRange(0, 5).Draw(t, "handfile") == 0 {
			m, data, _, _ := genHandFile(t, o.OldStyle)
			return &tnode{Data: data, Hand: m}
		}
		n := rapid.SampledFrom([]int{0, 1, 5, 12, 13, 30, 46, 60, 140}).Draw(t, "flen")
		return &tnode{Data: lcgBytes(n, rapid.Byte().Draw(t, "tag"), 0)}
	}
	nd := &tnode{Dir: true, Kids: map[string]*tnode{}}
	nd.Sharded = rapid.Bool().Draw(t, "sharded")
	nd.Unsorted = o.Unsorted && !nd.Sharded && rapid.IntRange(0, 3).Draw(t, "unsorted") == 0
	nd.Fanout = rapid.SampledFrom([]int{8, 8, 16, 256}).Draw(t, "fanout")
	for _, name := range genTreeNames(t, maxKids) {
		nd.Kids[name] = genSubTree(t, depth-1, maxKids, o)
	}
	return nd
}

// build stores the tree bottom-up with the real builders (files: size-5 chunks at width 3).
func (n *tnode) build(st *Store) error {
	var err error
	if !n.Dir {
		if n.Hand != nil {
			n.Root, err = n.Hand.store(st, st.LinkSystem())
			if err == nil {
				n.Size, err = st.CumulativeSize(n.Root, nil)
			}
		} else {
			n.Root, n.Size, err = buildFile(st, n.Data, "size-5", 3)
		}
		if err != nil {
			return err
		}
		ft, err := st.FileTree(n.Root, 0)
		if err != nil {
			return err
		}
		n.Entity = ft.PreOrder()
		return nil
	}
	var es []entrySpec
	names := make([]string, 0, len(n.Kids))
	for name := range n.Kids {
		names = append(names, name)
	}
	sort.Strings(names)
	for _, name := range names {
		k := n.Kids[name]
		if err := k.build(st); err != nil {
			return err
		}
		es = append(es, entrySpec{Name: name, Cid: k.Root, Tsize: k.Size})
	}
	if n.Sharded {
		n.Root, n.Size, err = buildSharded(st, es, n.Fanout)
		if err != nil {
			return err
		}
		tr, err := st.ShardTree(n.Root)
		if err != nil {
			return err
		}
		n.Entity = tr.AllShards()
	} else if n.Unsorted && len(es) >= 2 {
		// hand-encoded directory block with the links in descending name order
		var links []LinkInfo
		total := uint64(0)
		for i := len(es) - 1; i >= 0; i-- {
			e := es[i]
			links = append(links, LinkInfo{Name: strp(e.Name), Tsize: u64p(e.Tsize), Cid: e.Cid})
			total += e.Tsize
		}
		raw := encodePBRaw(links, []byte{0x08, 0x01}, true)
		c, serr := pbProto.Prefix.Sum(raw)
		if serr != nil {
			return serr
		}
		st.Put(c, raw)
		n.Root, n.Size = c, total+uint64(len(raw))
		n.Entity = []cid.Cid{n.Root}
	} else {
		n.Root, n.Size, err = buildDir(st, es)
		n.Entity = []cid.Cid{n.Root}
	}
	return err
}

// allBlocks returns every block of the subtree rooted at n (entity blocks of n and of everything below).
func (n *tnode) allBlocks(out map[cid.Cid]bool) {
	for _, c := range n.Entity {
		out[c] = true
	}
	for _, k := range n.Kids {
		k.allBlocks(out)
	}
}

func (n *tnode) count() int {
	c := 1
	for _, k := range n.Kids {
		c += k.count()
	}
	return c
}

func (n *tnode) sortedKids() []string {
	names := make([]string, 0, len(n.Kids))
	for k := range n.Kids {
		names = append(names, k)
	}
	sort.Strings(names)
	return names
}

// genWalk draws a root-to-node walk; returns the segments and the nodes visited (root first).
func genWalk(t *rapid.T, root *tnode) ([]string, []*tnode) {
	var segs []string
	nodes := []*tnode{root}
	cur := root
	for cur.Dir && len(cur.Kids) > 0 && rapid.IntRange(0, 3).Draw(t, "descend") > 0 {
		name := rapid.SampledFrom(cur.sortedKids()).Draw(t, "seg")
		segs = append(segs, name)
		cur = cur.Kids[name]
		nodes = append(nodes, cur)
	}
	return segs, nodes
}

// renderPath joins segments with drawn redundant / leading / trailing slashes.
func renderPath(t *rapid.T, segs []string) (string, string) {
	style := rapid.SampledFrom([]string{"plain", "leading", "trailing", "both", "redundant"}).Draw(t, "slashes")
	p := strings.Join(segs, "/")
	switch style {
	case "leading":
		p = "/" + p
	case "trailing":
		p = p + "/"
	case "both":
		p = "/" + p + "/"
	case "redundant":
		p = "//" + strings.Join(segs, "///") + "//"
	}
	return p, style
}

// pathBlocks returns, per step of the walk, the blocks a lazy resolution must load: for each directory on the path
// the shards on the segment's hash path (the directory root itself is the previous step's target).
func pathBlocks(st *Store, nodes []*tnode, segs []string) ([]cid.Cid, error) {
	out := []cid.Cid{nodes[0].Root}
	for i, seg := range segs {
		d := nodes[i]
		if d.Sharded {
			tr, err := st.ShardTree(d.Root)
			if err != nil {
				return nil, err
			}
			out = append(out, tr.HashPath(seg)...)
		}
		out = append(out, nodes[i+1].Root)
	}
	return out, nil
}
