package harness

// Hash-targeted names: murmur3-x64-128 over a single 16-byte block (seed 0) is a bijection of the block, so for any
// wanted 64-bit digest (the value the HAMT code consumes) a 16-byte name can be computed directly. This lets the
// generators place names at any HAMT depth, up to and including full 64-bit collisions.

import (
	"encoding/binary"
	"math/bits"

	"github.com/spaolacci/murmur3"
)

const (
	m3c1 = 0x87c37b91114253d5
	m3c2 = 0x4cf5ad432745937f
)

// modInv returns the multiplicative inverse of an odd a modulo 2^64 (Newton iteration).
func modInv(a uint64) uint64 {
	x := a
	for i := 0; i < 6; i++ {
		x *= 2 - a*x
	}
	return x
}

func unFmix(x uint64) uint64 {
	x ^= x >> 33
	x *= modInv(0xc4ceb9fe1a85ec53)
	x ^= x >> 33
	x *= modInv(0xff51afd7ed558ccd)
	x ^= x >> 33
	return x
}

// craftName returns a 16-byte name whose murmur3-x64-64 digest is exactly h1; h2 selects one of 2^64 such names.
func craftName(h1, h2 uint64) string {
	// undo the finalisation
	f2 := h2 - h1
	f1 := h1 - f2
	m1, m2 := unFmix(f1), unFmix(f2)
	a2 := m2 - m1
	a1 := m1 - a2
	b1, b2 := a1^16, a2^16
	// undo the body (seed 0)
	k2p := bits.RotateLeft64((b2-0x38495ab5)*modInv(5)-b1, -31)
	k1p := bits.RotateLeft64((b1-0x52dce729)*modInv(5), -27)
	k1 := bits.RotateLeft64(k1p*modInv(m3c2), -31) * modInv(m3c1)
	k2 := bits.RotateLeft64(k2p*modInv(m3c1), -33) * modInv(m3c2)
	var b [16]byte
	binary.LittleEndian.PutUint64(b[0:8], k1)
	binary.LittleEndian.PutUint64(b[8:16], k2)
	name := string(b[:])
	if murmur3.Sum64(b[:]) != h1 {
		panic("craftName: inversion failed")
	}
	return name
}

// craftGroup returns up to k distinct names whose digests share the top `shared` bits of base. For shared <= 59 the
// digests are pairwise different within their first 60 bits (so the names are separable at every fanout 8..1024) and the
// first two differ exactly at bit `shared`; at most 2^(60-shared) names are returned. With shared >= 60 the names only
// differ in the last bits (shared == 64: identical digests), i.e. they are inseparable at some or all fanouts.
func craftGroup(base uint64, shared, k int, salt uint64) []string {
	return craftGroupU(base, shared, k, salt, 60)
}

// usableBits is the number of leading digest bits a HAMT of the given fanout can consume in whole levels
// (8: 63, 16: 64, 32: 60, 64: 60, 128: 63, 256: 64, 512: 63, 1024: 60); names are separable at that fanout iff their
// digests differ within those bits.
func usableBits(fanout int) int {
	b := bits.Len(uint(fanout)) - 1
	return 64 / b * b
}

// craftGroupU is craftGroup for one particular fanout: the names differ pairwise within the first `usable` bits.
func craftGroupU(base uint64, shared, k int, salt uint64, usable int) []string {
	var out []string
	if shared >= usable {
		for i := 0; i < k; i++ {
			h := base
			if shared < 64 {
				h = base&^(^uint64(0)>>uint(shared)) | (uint64(i)*0x9e3779b97f4a7c15+salt)>>uint(shared)
			}
			out = append(out, craftName(h, salt+uint64(i)*7919+1))
		}
		return out
	}
	free := usable - shared
	pbits := free
	if pbits > 8 {
		pbits = 8
	}
	if k > 1<<uint(pbits) {
		k = 1 << uint(pbits)
	}
	var prefix uint64
	if shared > 0 {
		prefix = base &^ (^uint64(0) >> uint(shared))
	}
	for i := 0; i < k; i++ {
		pattern := uint64(bits.Reverse8(uint8(i))) >> uint(8-pbits) // i=1 -> 1 followed by zeros
		h := prefix | pattern<<uint(64-shared-pbits)
		// fill the bits below the pattern pseudo-randomly
		lowBits := uint(64 - shared - pbits)
		if lowBits > 0 {
			h |= ((salt+1)*0x9e3779b97f4a7c15 + uint64(i)*0xbf58476d1ce4e5b9) >> (64 - lowBits)
		}
		out = append(out, craftName(h, salt+uint64(i)*7919+1))
	}
	return out
}

// craftGroupFS is craftGroup restricted to names a filesystem can hold (no '/' and no NUL): the free second half of the
// preimage is varied until the name qualifies.
func craftGroupFS(base uint64, shared, k int) []string {
	var out []string
	for salt := uint64(0); len(out) < k && salt < 4000; salt++ {
		g := craftGroup(base, shared, k, salt)
		if len(g) <= len(out) {
			break
		}
		n := g[len(out)]
		ok := true
		for i := 0; i < len(n); i++ {
			if n[i] == '/' || n[i] == 0 {
				ok = false
			}
		}
		if ok {
			out = append(out, n)
		}
	}
	return out
}
