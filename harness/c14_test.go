package harness

// C14 - reification is total, type-directed, and never alters the underlying node.

import (
	"bytes"
	"context"
	"fmt"
	"github.com/ipfs/go-unixfsnode/data"
	"github.com/ipfs/go-unixfsnode/directory"
	"github.com/ipfs/go-unixfsnode/file"
	"github.com/ipfs/go-unixfsnode/hamt"
	"reflect"
	"testing"

	"github.com/ipfs/go-cid"
	"github.com/ipfs/go-unixfsnode"
	dagpb "github.com/ipld/go-codec-dagpb"
	"github.com/ipld/go-ipld-prime"
	"github.com/ipld/go-ipld-prime/adl"
	"github.com/ipld/go-ipld-prime/datamodel"
	"github.com/ipld/go-ipld-prime/fluent/qp"
	"github.com/ipld/go-ipld-prime/node/basicnode"
	"pgregory.net/rapid"
)

func isPow2(v uint64) bool { return v != 0 && v&(v-1) == 0 }

// c14ValidShard says whether the HAMT parameters are valid per the library's documented checks.
func c14ValidShard(u *ufsFields) bool {
	if u.HashType == nil || *u.HashType != 0x22 || u.Fanout == nil {
		return false
	}
	f := *u.Fanout
	if !isPow2(f) || f < 8 || f > 1024 {
		return false
	}
	return uint64(len(u.Data)) <= f/8
}

const c14Rule = "case = node in {raw bytes, non-dag-pb map/list/string/int, dag-pb with Data absent / garbage / valid UnixFS of each type 0..5 / unknown type 6, 99, 2^31} with 0..8 (sometimes 40..90) links (children stored so that preload can succeed), shard parameters valid and invalid (fanout not a power of two / < 8 / > 1024 / missing, wrong or missing hash type, oversized bitfield) x {Reify, registered 'unixfs', registered 'unixfs-preload'}; " +
	"oracle = the statement's table (same node back / link map with LookupByString(linkname) / bytes-kind LargeBytesNode / map-kind directory / error, never a panic) and Substrate() is the original dag-pb node whose re-encoding equals the original block; " +
	"non-trivial = dag-pb with decodable Data and >= 1 link; distinct by (input class, type, link count, reifier, validity)"

type c14Kept struct {
	desc   string
	node   datamodel.Node
	orig   []byte
	isFile bool
	inner  []byte
}

// TestC14_P_ReifyTable reifies 1..3 generated nodes per case (same link system) and, after all of them, checks again that
// every node still exposes its own original substrate: reification of one node must not alter another.
func TestC14_P_ReifyTable(t *testing.T) {
	ev := newEvid(t, c14Rule)
	rapid.Check(t, func(t *rapid.T) {
		st := NewStore()
		ls := st.LinkSystem()
		var kept []*c14Kept
		for i := rapid.IntRange(1, 3).Draw(t, "nodes"); i > 0; i-- {
			if k := c14OneNode(t, st, ls, ev); k != nil {
				kept = append(kept, k)
			}
		}
		for _, k := range kept {
			sub := k.node.(adl.ADL).Substrate()
			var buf bytes.Buffer
			if err := dagpb.Encode(sub, &buf); err != nil || !bytes.Equal(buf.Bytes(), k.orig) {
				t.Fatalf("C14: %s: after reifying further nodes, Substrate() (%T) no longer re-encodes to the original block (err %v)", k.desc, sub, err)
			}
			if k.isFile {
				if b, err := k.node.AsBytes(); err != nil || !bytes.Equal(b, k.inner) {
					t.Fatalf("C14: %s: after reifying further nodes the file reads %q (err %v), want %q", k.desc, b, err, k.inner)
				}
			}
		}
	})
}

func c14OneNode(t *rapid.T, st *Store, ls *ipld.LinkSystem, ev *Evid) *c14Kept {
	reifier := rapid.SampledFrom([]string{"Reify", "unixfs", "unixfs-preload"}).Draw(t, "reifier")
	// lazy reification loads nothing, so it has to work just as well through a link system that can only write (the one a
	// builder was handed) or has no storage at all: what a node is reified as depends on the node
	rls := ls
	if reifier != "unixfs-preload" && rapid.IntRange(0, 3).Draw(t, "noReadStorage") == 0 {
		ls2 := *ls
		ls2.StorageReadOpener = nil
		if rapid.Bool().Draw(t, "noWriteStorageEither") {
			ls2.StorageWriteOpener = nil
		}
		rls = &ls2
		ev.Count("reified-through-a-link-system-without-read-storage", 1)
	}
	reify := func(n datamodel.Node) (datamodel.Node, error) {
		if reifier == "Reify" {
			return unixfsnode.Reify(ipld.LinkContext{}, n, rls)
		}
		return rls.KnownReifiers[reifier](ipld.LinkContext{}, n, rls)
	}
	class := rapid.SampledFrom([]string{"non-dagpb", "pb-nodata", "pb-garbage", "pb-unixfs", "pb-unixfs", "pb-unixfs", "pb-unixfs"}).Draw(t, "class")
	if class == "non-dagpb" {
		var n datamodel.Node
		switch rapid.IntRange(0, 9).Draw(t, "nd") {
		case 5, 6, 7, 8:
			// nodes that are not dag-pb because they are ADLs already: a reified directory / sharded directory / multi-block
			// file, or a file view over a raw leaf - reifying them (again) gives them back unchanged
			ast := NewStore()
			var c cid.Cid
			var e error
			switch rapid.IntRange(0, 3).Draw(t, "adlKind") {
			case 0:
				c, _, e = buildDir(ast, []entrySpec{entryFor("a", 1), entryFor("b", 1)})
			case 1:
				var es []entrySpec
				for i := 0; i < 30; i++ {
					es = append(es, entryFor(fmt.Sprintf("e%d", i), 1))
				}
				c, _, e = buildSharded(ast, es, 8)
			case 2:
				c, _, e = buildFile(ast, lcgBytes(40, 1, 0), "size-8", 2)
			default:
				c, _, e = buildFile(ast, []byte("one raw leaf"), "size-64", 2)
			}
			if e != nil {
				t.Fatalf("harness: %v", e)
			}
			als := ast.LinkSystem()
			n, e = loadReified(als, c, rapid.SampledFrom([]string{"unixfs", "unixfs-preload"}).Draw(t, "firstReifier"))
			if e != nil {
				t.Fatalf("harness: %v", e)
			}
		case 9:
			n = foreignADL{basicnode.NewString("not unixfs"), func() datamodel.Node {
				pn, _ := loadPlain(st.LinkSystem(), mustDir(st))
				return pn
			}()}
		case 0:
			n = basicnode.NewBytes(rapid.SliceOfN(rapid.Byte(), 0, 10).Draw(t, "b"))
		case 1:
			n = basicnode.NewString("Links")
		case 2:
			n = basicnode.NewInt(5)
		case 3:
			n, _ = qp.BuildMap(basicnode.Prototype.Any, -1, func(ma datamodel.MapAssembler) {
				qp.MapEntry(ma, "Links", qp.List(0, func(datamodel.ListAssembler) {}))
				qp.MapEntry(ma, "Data", qp.Bytes([]byte{8, 2}))
			})
		default:
			n, _ = qp.BuildList(basicnode.Prototype.Any, -1, func(la datamodel.ListAssembler) { qp.ListEntry(la, qp.Int(1)) })
		}
		var rn datamodel.Node
		var err error
		must(t, "reify non-dag-pb", func() { rn, err = reify(n) })
		if err != nil || !sameNode(rn, n) {
			t.Fatalf("C14: %s of a non-dag-pb %s node (%T) returned (%T %v, %v); want the same node back", reifier, n.Kind(), n, rn, rn, err)
		}
		ev.Case("non-dagpb "+n.Kind().String()+" "+reifier, false, "class:non-dagpb")
		return nil
	}
	m := &mnode{}
	nl := rapid.IntRange(0, 8).Draw(t, "nlinks")
	if rapid.IntRange(0, 2).Draw(t, "linkless") == 0 {
		nl = 0
	} else if rapid.IntRange(0, 7).Draw(t, "manyLinks") == 0 {
		nl = rapid.IntRange(40, 90).Draw(t, "nlinksMany")
	}
	typ := uint64(99)
	valid := true
	shardParamsAnyway := false
	switch class {
	case "pb-nodata":
	case "pb-garbage":
		m.HasData = true
		m.Garbage = rapid.SampledFrom([][]byte{{0xff, 0xff}, {0x08}, {0x12, 0x05, 0x01}, {0x0b}}).Draw(t, "garbage")
		if rapid.Bool().Draw(t, "validPrefix") {
			// a message that starts like a valid one - a type, then perhaps inline data of up to a few hundred KiB - and is
			// cut off or corrupted at its very end: undecodable as a whole by any protobuf decoder, however large it is
			g := wVarint(wTag(nil, 1, 0), rapid.SampledFrom([]uint64{0, 1, 2, 2, 3, 4, 5}).Draw(t, "prefixType"))
			if l := rapid.SampledFrom([]int{-1, 0, 100, 65535, 65536, 70000, 300000}).Draw(t, "prefixData"); l >= 0 {
				g = wVarint(wTag(g, 2, 2), uint64(l))
				g = append(g, lcgBytes(l, 3, 0)...)
			}
			m.Garbage = append(g, rapid.SampledFrom([][]byte{{0x18}, {0x00, 0x01}, {0x12, 0x7f, 0x01}, {0x20, 0xff}, {0x18, 0x80}}).Draw(t, "brokenTail")...)
		}
	default:
		m.HasData = true
		typ = rapid.SampledFrom([]uint64{0, 0, 0, 1, 1, 1, 2, 2, 2, 2, 3, 3, 4, 4, 5, 5, 5, 5, 6, 7, 99, 1 << 31, 1 << 32, 1<<32 | 2, 1<<32 | 3, 1<<40 | 4, 1<<33 | 1, 1<<32 | 5, 1 << 63, 1<<63 | 2, ^uint64(0)}).Draw(t, "type")
		u := &ufsFields{Type: typ}
		// the wire presentation of the UnixFS message: what is reified depends on the message, not on its field order
		u.Presentation = rapid.SampledFrom([]int{0, 0, 0, 1, 2, 3}).Draw(t, "presentation")
		if typ == 5 {
			u.HashType = u64p(0x22)
			u.Fanout = u64p(rapid.SampledFrom([]uint64{8, 16, 256, 1024}).Draw(t, "fanout"))
			u.HasData, u.Data = true, []byte{}
			if rapid.Bool().Draw(t, "dropBitfield") {
				u.HasData = false // reference form of an empty bitfield
			}
			if rapid.IntRange(0, 2).Draw(t, "breakShard") == 0 {
				switch rapid.IntRange(0, 6).Draw(t, "how") {
				case 0:
					u.Fanout = u64p(rapid.SampledFrom([]uint64{0, 1, 2, 4, 3, 7, 24, 100}).Draw(t, "badfan"))
				case 1:
					u.Fanout = u64p(rapid.SampledFrom([]uint64{2048, 1 << 20, 1 << 63, 1<<32 | 256, 1<<32 | 8, 3<<32 | 1024, 1<<40 | 16, 1<<63 | 256}).Draw(t, "bigfan"))
				case 2:
					u.Fanout = nil
				case 3:
					u.HashType = u64p(rapid.SampledFrom([]uint64{0, 0x12, 0x23, 0x1022, 1<<32 | 0x22, 1<<40 | 0x22, 1<<63 | 0x22}).Draw(t, "badht"))
				case 4:
					u.HashType = nil
				default:
					u.HasData, u.Data = true, make([]byte, *u.Fanout/8+uint64(rapid.IntRange(1, 4).Draw(t, "over")))
					// (too long whatever the surplus bytes hold: set bits in front, at the end, or none at all)
					switch rapid.IntRange(0, 2).Draw(t, "overlongFill") {
					case 0:
						u.Data[0] = 1
					case 1:
						u.Data[len(u.Data)-1] = 0x81
					}
				}
			}
			valid = c14ValidShard(u)
		} else {
			if rapid.Bool().Draw(t, "hasInnerData") {
				u.HasData, u.Data = true, rapid.SliceOfN(rapid.Byte(), 0, 9).Draw(t, "inner")
			}
			if rapid.IntRange(0, 3).Draw(t, "shardParamsAnyway") == 0 {
				// a writer that fills the shard parameters into every node it writes: a complete, valid set (hash type,
				// fanout, data short enough to pass for a bitfield) on a node whose type says it is something else
				f := rapid.SampledFrom([]uint64{8, 16, 256, 1024}).Draw(t, "otherFanout")
				if uint64(len(u.Data)) > f/8 {
					f = 1024
				}
				u.HashType, u.Fanout = u64p(0x22), u64p(f)
				shardParamsAnyway = true
			}
		}
		m.UFS = u
	}
	pad := 0
	if m.UFS != nil && typ == 5 && m.UFS.Fanout != nil && valid {
		pad = padWidth(int(*m.UFS.Fanout))
	}
	total := uint64(0)
	for i := 0; i < nl; i++ {
		leaf := &mnode{IsRaw: true, Raw: []byte(fmt.Sprintf("leaf-%d", i))}
		name := fmt.Sprintf("%0*X%s", pad, i%8, fmt.Sprintf("n%d", i))
		l := mlink{Name: strp(name), Tsize: i64p(int64(len(leaf.Raw))), Child: leaf}
		if m.UFS != nil && (typ == 0 || typ == 2) {
			l.Name = nil
			m.UFS.BlockSizes = append(m.UFS.BlockSizes, uint64(len(leaf.Raw)))
			total += uint64(len(leaf.Raw))
		}
		m.Links = append(m.Links, l)
	}
	if m.UFS != nil && (typ == 0 || typ == 2) && nl > 0 {
		m.UFS.FileSize = u64p(total)
	}
	root, err := m.store(st, ls)
	if err != nil {
		t.Fatalf("harness: %v", err)
	}
	orig, _ := st.Get(root)
	pn, err := loadPlain(ls, root)
	if err != nil {
		t.Fatalf("harness: %v", err)
	}
	var rn datamodel.Node
	must(t, "reify "+class, func() { rn, err = reify(pn) })
	desc := fmt.Sprintf("%s of %s type=%d links=%d valid=%v", reifier, class, typ, nl, valid)
	if shardParamsAnyway {
		desc += " (carrying a valid set of shard parameters)"
	}
	// the sharded-directory constructor that takes a general dag-pb node is type-directed too: a shard for a valid shard
	// node, an error for everything else
	{
		var herr error
		must(t, "AttemptHAMTShardFromNode", func() { _, herr = hamt.AttemptHAMTShardFromNode(context.Background(), pn, rls) })
		if wantShard := class == "pb-unixfs" && typ == 5 && valid; wantShard != (herr == nil) {
			t.Fatalf("C14: %s: hamt.AttemptHAMTShardFromNode on the same dag-pb node returned err=%v; a sharded directory is wanted from it: %v", desc, herr, wantShard)
		}
		// ... and so is the plain-directory constructor: a directory for a node of type Directory, an error for any other
		if tpn, ok := pn.(dagpb.PBNode); ok && class == "pb-unixfs" && tpn.Data.Exists() {
			if ud, derr := data.DecodeUnixFSData(tpn.Data.Must().Bytes()); derr == nil {
				var berr error
				must(t, "NewUnixFSBasicDir", func() { _, berr = directory.NewUnixFSBasicDir(context.Background(), tpn, ud, rls) })
				if (typ == 1) != (berr == nil) {
					t.Fatalf("C14: %s: directory.NewUnixFSBasicDir on the same dag-pb node returned err=%v; a plain directory is wanted from it: %v", desc, berr, typ == 1)
				}
			}
		}
	}
	wantErr := class == "pb-unixfs" && (typ > 5 || (typ == 5 && !valid))
	if wantErr {
		if err == nil {
			t.Fatalf("C14: %s returned %T without error; want an error", desc, rn)
		}
		ev.Case(desc, nl > 0, "class:"+class, "outcome:error", "reifier:"+reifier)
		ev.Sample(map[string]any{"case": desc, "outcome": "error: " + err.Error()})
		return nil
	}
	if err != nil {
		t.Fatalf("C14: %s failed: %v", desc, err)
	}
	wantKind := datamodel.Kind_Map
	if class == "pb-unixfs" && (typ == 0 || typ == 2) {
		wantKind = datamodel.Kind_Bytes
	}
	if rn.Kind() != wantKind {
		t.Fatalf("C14: %s gave kind %s (%T), want %s", desc, rn.Kind(), rn, wantKind)
	}
	if wantKind == datamodel.Kind_Bytes {
		if _, ok := rn.(datamodel.LargeBytesNode); !ok {
			t.Fatalf("C14: %s gave %T which is not a LargeBytesNode", desc, rn)
		}
	} else if typ != 5 {
		// name-addressable: every link is found under its name (HAMT lookups are by hash path: see C02)
		for i, l := range m.Links {
			key := (*l.Name)[pad:]
			var v datamodel.Node
			var lerr error
			must(t, "lookup", func() { v, lerr = rn.LookupByString(key) })
			if lerr != nil {
				t.Fatalf("C14: %s: LookupByString(%q) of link %d: %v", desc, key, i, lerr)
			}
			if c, e := linkOf(v); e != nil || c != sumRaw(l.Child.Raw) {
				t.Fatalf("C14: %s: LookupByString(%q) -> %v, want link %d", desc, key, c, i)
			}
		}
	}
	a, ok := rn.(adl.ADL)
	if !ok {
		t.Fatalf("C14: %s gave %T which exposes no substrate", desc, rn)
	}
	sub := a.Substrate()
	if sub != pn {
		if _, isPB := sub.(dagpb.PBNode); !isPB {
			t.Fatalf("C14: %s: Substrate() is a %T of kind %s, not the original dag-pb node", desc, sub, sub.Kind())
		}
	}
	var buf bytes.Buffer
	if err := dagpb.Encode(sub, &buf); err != nil {
		t.Fatalf("C14: %s: re-encoding Substrate() (%T) failed: %v", desc, sub, err)
	}
	if !bytes.Equal(buf.Bytes(), orig) {
		t.Fatalf("C14: %s: re-encoded Substrate() differs from the original block", desc)
	}
	ev.Case(desc, class == "pb-unixfs" && nl > 0, "class:"+class, fmt.Sprintf("type:%d", typ), "reifier:"+reifier, "outcome:"+wantKind.String())
	ev.Sample(map[string]any{"case": desc, "outcome": fmt.Sprintf("%T", rn)})
	var inner []byte
	if m.UFS != nil {
		inner = m.UFS.Data
	}
	return &c14Kept{desc: desc, node: rn, orig: orig, isFile: wantKind == datamodel.Kind_Bytes && nl == 0, inner: inner}
}

// F7 (fixed): the substrate of a single-block dag-pb file is the dag-pb node.
func TestC14_R_F7_WrappedSubstrate(t *testing.T) {
	for _, u := range []*ufsFields{{Type: 2, HasData: true, Data: []byte("abc")}, {Type: 2}, {Type: 0, HasData: true, Data: []byte("x")}} {
		st := NewStore()
		ls := st.LinkSystem()
		root, err := (&mnode{HasData: true, UFS: u}).store(st, ls)
		if err != nil {
			t.Fatal(err)
		}
		orig, _ := st.Get(root)
		for _, r := range []string{"unixfs", "unixfs-preload"} {
			rn, err := loadReified(ls, root, r)
			if err != nil {
				t.Fatal(err)
			}
			sub := rn.(adl.ADL).Substrate()
			var buf bytes.Buffer
			if err := dagpb.Encode(sub, &buf); err != nil || !bytes.Equal(buf.Bytes(), orig) {
				t.Fatalf("C14 F7: type %d via %s: Substrate() is %T (kind %s); re-encode err=%v equal=%v", u.Type, r, sub, sub.Kind(), err, bytes.Equal(buf.Bytes(), orig))
			}
			if b, err := rn.AsBytes(); err != nil || !bytes.Equal(b, u.Data) {
				t.Fatalf("C14 F7: bytes %q err %v", b, err)
			}
		}
	}
}

const c14RetryRule = "case = multi-block file or sharded directory node; preload-reify it on one link system while a drawn child block is unavailable (must fail), make the block available again and preload-reify the SAME node value again, then lazily; " +
	"oracle = every reification returns either an error or a proper node of the right kind whose substrate is the original - never (nil, nil), never a node left half-loaded that reports success; every case non-trivial; distinct by (kind, blocks, fault position)"

// TestC14_P_ReifyAfterFailedReify: reification is total also right after a reification that failed.
func TestC14_P_ReifyAfterFailedReify(t *testing.T) {
	ev := newEvid(t, c14RetryRule)
	rapid.Check(t, func(t *rapid.T) {
		st := NewStore()
		var root cid.Cid
		var blocks []cid.Cid
		kind := rapid.SampledFrom([]string{"file", "hamt"}).Draw(t, "kind")
		wantKind := datamodel.Kind_Bytes
		if kind == "file" {
			fc := genFileDAG(t, 4, 120)
			if len(fc.Tree.All()) < 2 {
				return
			}
			st, root, blocks = fc.St, fc.Root, fc.Tree.PreOrder()[1:]
		} else {
			wantKind = datamodel.Kind_Map
			p := collisions.Pairs[rapid.IntRange(0, len(collisions.Pairs)-1).Draw(t, "pair")]
			es := []entrySpec{entryFor(p[0], 0), entryFor(p[1], 0), entryFor("x", 0), entryFor("y", 0)}
			var err error
			root, _, err = buildSharded(st, es, rapid.SampledFrom([]int{8, 16, 256}).Draw(t, "fanout"))
			if err != nil {
				t.Fatal(err)
			}
			tr, _ := st.ShardTree(root)
			blocks = tr.ShardsPreOrder()
		}
		ls := st.LinkSystem()
		pn, err := loadPlain(ls, root)
		if err != nil {
			t.Fatal(err)
		}
		orig, _ := st.Get(root)
		missing := blocks[rapid.IntRange(0, len(blocks)-1).Draw(t, "missing")]
		st.Missing = map[cid.Cid]bool{missing: true}
		var rn datamodel.Node
		must(t, "preload with a missing block", func() { rn, err = ls.KnownReifiers["unixfs-preload"](lc0, pn, ls) })
		if err == nil {
			t.Fatalf("C14: preload-reification with block %s unavailable returned %T without error", missing, rn)
		}
		st.Missing = map[cid.Cid]bool{}
		for _, r := range []string{"unixfs-preload", "unixfs", "unixfs-preload"} {
			must(t, "reify again ("+r+")", func() { rn, err = ls.KnownReifiers[r](lc0, pn, ls) })
			if err != nil {
				t.Fatalf("C14: %s of the same node after the block came back failed: %v", r, err)
			}
			if rn == nil {
				t.Fatalf("C14: %s of the same node after a failed preload returned (nil, nil)", r)
			}
			if rn.Kind() != wantKind {
				t.Fatalf("C14: %s after a failed preload returned kind %s, want %s", r, rn.Kind(), wantKind)
			}
			var buf bytes.Buffer
			if e := dagpb.Encode(rn.(adl.ADL).Substrate(), &buf); e != nil || !bytes.Equal(buf.Bytes(), orig) {
				t.Fatalf("C14: %s after a failed preload: substrate does not re-encode to the original block (%v)", r, e)
			}
			var uerr error
			must(t, "use the node", func() {
				if wantKind == datamodel.Kind_Bytes {
					_, uerr = rn.AsBytes()
				} else {
					for it := rn.MapIterator(); !it.Done(); {
						if _, _, e := it.Next(); e != nil {
							uerr = e
							return
						}
					}
					if rn.Length() != 4 {
						uerr = fmt.Errorf("Length() = %d, want 4", rn.Length())
					}
				}
			})
			if uerr != nil {
				t.Fatalf("C14: node from %s after a failed preload is not usable: %v", r, uerr)
			}
		}
		ev.Case(fmt.Sprintf("%s b=%s", kind, bucket(len(blocks))), true, "kind:"+kind)
		ev.Sample(map[string]any{"kind": kind, "blocks_below_root": len(blocks)})
	})
}

// foreignADL is some other ADL (not UnixFS) whose substrate happens to be a dag-pb directory node.
type foreignADL struct {
	datamodel.Node
	sub datamodel.Node
}

func (f foreignADL) Substrate() datamodel.Node { return f.sub }

func mustDir(st *Store) cid.Cid {
	c, _, err := buildDir(st, []entrySpec{entryFor("x", 1)})
	if err != nil {
		panic(err)
	}
	return c
}

// sameNode: the very same node - same dynamic type and, for pointers, the same object; values compare by ==, or deeply
// when the type is not comparable.
func sameNode(a, b datamodel.Node) (same bool) {
	if a == nil || b == nil || reflect.TypeOf(a) != reflect.TypeOf(b) {
		return false
	}
	if reflect.ValueOf(a).Kind() == reflect.Ptr {
		return reflect.ValueOf(a).Pointer() == reflect.ValueOf(b).Pointer()
	}
	defer func() {
		if recover() != nil {
			same = reflect.DeepEqual(a, b)
		}
	}()
	return a == b
}

// Nodes built one after another over ONE scratch buffer that the caller refills between them (each node is done with
// before the next is built): reification goes by what the node holds now, never by where its bytes live.
func TestC14_R_ScratchBufferNodes(t *testing.T) {
	enc := func(typ uint64, payload string) []byte {
		return (&ufsFields{Type: typ, HasData: true, Data: []byte(payload)}).encode()
	}
	hamt := (&ufsFields{Type: 5, HasData: true, Data: []byte{0}, HashType: u64p(0x22), Fanout: u64p(8)}).encode()
	msgs := []struct {
		name string
		raw  []byte
		kind datamodel.Kind
	}{
		{"file", enc(2, "hello"), datamodel.Kind_Bytes},
		{"symlink", enc(4, "world"), datamodel.Kind_Map},
		{"raw", enc(0, "bytes"), datamodel.Kind_Bytes},
		{"directory", enc(1, "xxxxx"), datamodel.Kind_Map},
		{"metadata", enc(3, "mmmmm"), datamodel.Kind_Map},
		{"shard", hamt, datamodel.Kind_Map},
		{"garbage", []byte{0xff, 0xff, 0xff, 0xff, 0xff, 0xff, 0xff, 0xff, 0xff}, datamodel.Kind_Map},
	}
	st := NewStore()
	ls := st.LinkSystem()
	scratch := make([]byte, 64)
	for _, reifier := range []string{"Reify", "unixfs", "unixfs-preload"} {
		for i := range msgs {
			for j := range msgs {
				if i == j {
					continue
				}
				var lastKind datamodel.Kind
				for step, m := range []int{i, j, i} {
					n := copy(scratch, msgs[m].raw)
					pn, err := qp.BuildMap(dagpb.Type.PBNode, -1, func(ma datamodel.MapAssembler) {
						qp.MapEntry(ma, "Links", qp.List(0, func(datamodel.ListAssembler) {}))
						qp.MapEntry(ma, "Data", qp.Bytes(scratch[:n]))
					})
					if err != nil {
						t.Fatal(err)
					}
					var rn datamodel.Node
					if reifier == "Reify" {
						rn, err = unixfsnode.Reify(ipld.LinkContext{}, pn, ls)
					} else {
						rn, err = ls.KnownReifiers[reifier](ipld.LinkContext{}, pn, ls)
					}
					if err != nil {
						t.Fatalf("C14 scratch: %s via %s: %v", msgs[m].name, reifier, err)
					}
					if rn.Kind() != msgs[m].kind {
						t.Fatalf("C14: a %s node built over a scratch buffer that held a %s node before (step %d) reified via %s as kind %s, want %s", msgs[m].name, msgs[[]int{i, j, i}[max(step-1, 0)]].name, step, reifier, rn.Kind(), msgs[m].kind)
					}
					if msgs[m].kind == datamodel.Kind_Bytes {
						if b, err := rn.AsBytes(); err != nil || string(b) != string(msgs[m].raw[len(msgs[m].raw)-5:]) {
							t.Fatalf("C14: %s node over a reused scratch buffer reads %q (err %v)", msgs[m].name, b, err)
						}
					}
					lastKind = rn.Kind()
				}
				_ = lastKind
			}
		}
	}
}

// The file constructors called directly (not through Reify) on every kind of input they accept - a raw bytes node, a
// dag-pb file node, an already reified file: what they return exposes the node it was made from as its substrate.
func TestC14_R_DirectFileConstructorsKeepSubstrate(t *testing.T) {
	st := NewStore()
	ls := st.LinkSystem()
	data := lcgBytes(50, 4, 0)
	root, _, err := buildFile(st, data, "size-16", 2)
	if err != nil {
		t.Fatal(err)
	}
	pn, err := loadPlain(ls, root)
	if err != nil {
		t.Fatal(err)
	}
	reified, err := loadReified(ls, root, "unixfs")
	if err != nil {
		t.Fatal(err)
	}
	rawNode := basicnode.NewBytes([]byte("a raw leaf"))
	inputs := []struct {
		name string
		n    datamodel.Node
		want []byte
	}{{"raw bytes node", rawNode, []byte("a raw leaf")}, {"dag-pb file root", pn, data}, {"already reified file", reified, data}}
	ctors := []struct {
		name string
		f    func(datamodel.Node) (datamodel.Node, error)
	}{
		{"file.NewUnixFSFile", func(n datamodel.Node) (datamodel.Node, error) { return file.NewUnixFSFile(sessionCtx, n, ls) }},
		{"file.NewUnixFSFileWithPreload", func(n datamodel.Node) (datamodel.Node, error) {
			return file.NewUnixFSFileWithPreload(sessionCtx, n, ls)
		}},
	}
	for _, in := range inputs {
		for _, c := range ctors {
			fn, err := c.f(in.n)
			if err != nil || fn == nil {
				t.Fatalf("C14: %s on a %s: (%v, %v)", c.name, in.name, fn, err)
			}
			if fn.Kind() != datamodel.Kind_Bytes {
				t.Fatalf("C14: %s on a %s gave kind %s", c.name, in.name, fn.Kind())
			}
			a, ok := fn.(adl.ADL)
			if !ok {
				t.Fatalf("C14: %s on a %s gave %T which exposes no substrate", c.name, in.name, fn)
			}
			if sub := a.Substrate(); sub != in.n {
				t.Fatalf("C14: %s on a %s: Substrate() is %v (%T), not the node it was made from", c.name, in.name, sub, sub)
			}
			if b, err := fn.AsBytes(); err != nil || !bytes.Equal(b, in.want) {
				t.Fatalf("C14: %s on a %s reads %d bytes (err %v), want %d", c.name, in.name, len(b), err, len(in.want))
			}
		}
	}
}
