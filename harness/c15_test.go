package harness

// C15 - directory nodes satisfy the map-node contract on any link list.

import (
	"context"
	"fmt"
	"github.com/ipfs/go-unixfsnode/data"
	"github.com/ipfs/go-unixfsnode/hamt"
	"sort"
	"strings"
	"testing"

	"github.com/ipfs/go-cid"
	format "github.com/ipfs/go-ipld-format"
	"github.com/ipfs/go-unixfsnode"
	dagpb "github.com/ipld/go-codec-dagpb"
	"github.com/ipld/go-ipld-prime"
	"github.com/ipld/go-ipld-prime/datamodel"
	"github.com/ipld/go-ipld-prime/fluent/qp"
	cidlink "github.com/ipld/go-ipld-prime/linking/cid"
	"github.com/ipld/go-ipld-prime/node/basicnode"
	mh "github.com/multiformats/go-multihash"
	"pgregory.net/rapid"
)

// checkMapContract verifies the C15 contract on a reified map-kind node.
func checkMapContract(n datamodel.Node, neverKeys []string) (pairs int, err error) {
	if n.Kind() != datamodel.Kind_Map {
		return 0, fmt.Errorf("kind %s", n.Kind())
	}
	yielded := map[string][]cid.Cid{}
	type kept struct {
		k, v datamodel.Node
		ks   string
		c    cid.Cid
	}
	var retained []kept
	it := n.MapIterator()
	budget := int(n.Length())*2 + 20
	for !it.Done() {
		pairs++
		if pairs > budget {
			return pairs, fmt.Errorf("iteration did not finish within %d steps (Length %d)", budget, n.Length())
		}
		k, v, err := it.Next()
		if err != nil {
			return pairs, fmt.Errorf("Next #%d: %v", pairs, err)
		}
		ks, err := k.AsString()
		if err != nil {
			return pairs, fmt.Errorf("key #%d: %v", pairs, err)
		}
		c, err := linkOf(v)
		if err != nil {
			return pairs, fmt.Errorf("value of %q: %v", ks, err)
		}
		yielded[ks] = append(yielded[ks], c)
		retained = append(retained, kept{k, v, ks, c})
	}
	// nodes handed out by the iterator are values: they must still read the same after the iteration moved on
	for i, r := range retained {
		ks, err := r.k.AsString()
		if err != nil || ks != r.ks {
			return pairs, fmt.Errorf("key #%d yielded as %q reads %q (err %v) after the iteration moved on", i, r.ks, ks, err)
		}
		c, err := linkOf(r.v)
		if err != nil || c != r.c {
			return pairs, fmt.Errorf("value #%d (key %q) yielded as %s reads %s (err %v) after the iteration moved on", i, r.ks, r.c, c, err)
		}
	}
	if int64(pairs) != n.Length() {
		return pairs, fmt.Errorf("iteration yielded %d pairs, Length() = %d", pairs, n.Length())
	}
	// a finished iterator stays finished while a second walk of the same node is under way, and the second walk is whole
	if pairs > 1 {
		it2 := n.MapIterator()
		if _, _, err := it2.Next(); err != nil {
			return pairs, fmt.Errorf("second walk, first pair: %v", err)
		}
		if !it.Done() {
			return pairs, fmt.Errorf("the finished iterator of the first walk reports Done() = false once a second walk has started")
		}
		if k, v, err := it.Next(); err == nil && (k != nil || v != nil) {
			return pairs, fmt.Errorf("the finished iterator of the first walk yielded (%v, %v) once a second walk had started", k, v)
		}
		got := 1
		for !it2.Done() && got <= budget {
			if _, _, err := it2.Next(); err != nil {
				return pairs, fmt.Errorf("second walk, pair #%d: %v", got+1, err)
			}
			got++
		}
		if got != pairs {
			return pairs, fmt.Errorf("a second walk, during which the first walk's finished iterator was touched, yielded %d pairs of %d", got, pairs)
		}
	}
	// count-driven: Next() called Length() times without asking Done() in between yields pairs every time and is then done
	{
		cit := n.MapIterator()
		for i := 0; i < pairs; i++ {
			k, v, err := cit.Next()
			if err != nil || k == nil || v == nil {
				return pairs, fmt.Errorf("count-driven iteration (no Done() polling): Next #%d of %d returned (%v, %v, %v)", i+1, pairs, k, v, err)
			}
		}
		if !cit.Done() {
			return pairs, fmt.Errorf("count-driven iteration: not Done after Length() = %d calls of Next", pairs)
		}
	}
	if !it.Done() {
		return pairs, fmt.Errorf("iterator not Done after Length() pairs")
	}
	if k, v, err := it.Next(); err == nil && (k != nil || v != nil) {
		return pairs, fmt.Errorf("Next() after the end yielded (%v, %v) without error", k, v)
	}
	if n.Length() != int64(pairs) {
		return pairs, fmt.Errorf("Length() changed to %d after reading past the end of an iterator (was %d)", n.Length(), pairs)
	}
	if pairs > 1 {
		// an iteration dropped half way leaves the node as it was
		pit := n.MapIterator()
		for i := 0; i < (pairs*2)/3 && !pit.Done(); i++ {
			_, _, _ = pit.Next()
		}
		if n.Length() != int64(pairs) {
			return pairs, fmt.Errorf("Length() = %d after an abandoned iteration, iteration yields %d pairs", n.Length(), pairs)
		}
	}
	// native iterator agrees on the count
	nd, hasNative := n.(nativeDir)
	if hasNative {
		cnt := 0
		for nit := nd.Iterator(); !nit.Done(); {
			cnt++
			if cnt > budget {
				return pairs, fmt.Errorf("native iteration did not finish")
			}
			k, v := nit.Next()
			if k == nil || v == nil {
				return pairs, fmt.Errorf("native iterator yielded nil at %d", cnt)
			}
			found := false
			for _, c := range yielded[k.String()] {
				if c == cidOf(v.Link()) {
					found = true
				}
			}
			if !found {
				return pairs, fmt.Errorf("native iterator yielded %q -> %s which MapIterator did not", k.String(), v.Link())
			}
		}
		if cnt != pairs {
			return pairs, fmt.Errorf("native iterator yielded %d pairs, MapIterator %d", cnt, pairs)
		}
	}
	// keys in the order they were first yielded (not Go's map order), with the key yielded just before their LAST occurrence
	var distinct []string
	predOfLast := map[string]string{}
	{
		seen := map[string]bool{}
		for i, r := range retained {
			if !seen[r.ks] {
				seen[r.ks] = true
				distinct = append(distinct, r.ks)
			}
			if i > 0 && retained[i-1].ks != r.ks {
				predOfLast[r.ks] = retained[i-1].ks
			} else if i > 0 {
				delete(predOfLast, r.ks)
			}
		}
	}
	for di, k := range distinct {
		cs := yielded[k]
		// a lookup is a function of the node and the key: between the entry points other keys are looked up (the neighbour
		// of a later duplicate, the first key of the listing) - for duplicated keys and for the first keys of every listing
		touch := func(which int) {
			if len(cs) < 2 && di >= 64 {
				return
			}
			other, ok := predOfLast[k]
			if which == 1 || !ok {
				other, ok = distinct[0], distinct[0] != k
			}
			if ok {
				switch which {
				case 0:
					_, _ = n.LookupByString(other)
				case 1:
					_, _ = n.LookupBySegment(datamodel.PathSegmentOfString(other))
				default:
					_, _ = n.LookupByNode(basicnode.NewString(other))
				}
			}
		}
		touch(2)
		v1, err := n.LookupByString(k)
		if err != nil {
			return pairs, fmt.Errorf("yielded key %q is not found by LookupByString: %v", k, err)
		}
		c1, err := linkOf(v1)
		if err != nil {
			return pairs, err
		}
		ok := false
		for _, c := range cs {
			if c == c1 {
				ok = true
			}
		}
		if !ok {
			return pairs, fmt.Errorf("LookupByString(%q) = %s which was never yielded under that key (%v)", k, c1, cs)
		}
		touch(0)
		v2, e2 := n.LookupByNode(basicnode.NewString(k))
		touch(1)
		v3, e3 := n.LookupBySegment(datamodel.PathSegmentOfString(k))
		touch(2)
		if e2 != nil || e3 != nil {
			return pairs, fmt.Errorf("key %q: LookupByNode err %v, LookupBySegment err %v", k, e2, e3)
		}
		c2, _ := linkOf(v2)
		c3, _ := linkOf(v3)
		if c2 != c1 || c3 != c1 {
			return pairs, fmt.Errorf("key %q (yielded %d times): entry points disagree (other keys were looked up in between): ByString %s, ByNode %s, BySegment %s", k, len(cs), c1, c2, c3)
		}
		if hasNative {
			l := nd.Lookup(pbString(k))
			if l == nil || cidOf(l.Link()) != c1 {
				return pairs, fmt.Errorf("key %q: native Lookup = %v, ByString %s", k, l, c1)
			}
		}
	}
	for _, k := range neverKeys {
		if _, in := yielded[k]; in {
			continue
		}
		if v, err := n.LookupByString(k); err == nil {
			return pairs, fmt.Errorf("never-yielded key %q found by LookupByString: %v", k, v)
		}
		if v, err := n.LookupByNode(basicnode.NewString(k)); err == nil {
			return pairs, fmt.Errorf("never-yielded key %q found by LookupByNode: %v", k, v)
		}
		if v, err := n.LookupBySegment(datamodel.PathSegmentOfString(k)); err == nil {
			return pairs, fmt.Errorf("never-yielded key %q found by LookupBySegment: %v", k, v)
		}
		if hasNative {
			if l := nd.Lookup(pbString(k)); l != nil {
				return pairs, fmt.Errorf("never-yielded key %q found by native Lookup", k)
			}
		}
	}
	if v, err := n.LookupByNode(basicnode.NewInt(7)); err == nil {
		return pairs, fmt.Errorf("LookupByNode(int) returned %v without error", v)
	}
	return pairs, nil
}

const c15Rule = "case = dag-pb link list of 0..12 (one in six: 13..70) links with names absent / empty / duplicated / drawn (any order; both as an in-memory unsorted node and after an encode+decode round trip) viewed as Directory (type 1) and as generic link map (no Data, garbage Data, Symlink, Metadata); plus well-formed sharded directories from the builder and from reference insert/remove histories; " +
	"oracle = map-node contract: pairs yielded = Length(), then Done and no further pair; every yielded key is found by all four lookup entry points, which agree, and resolves to a link yielded under it; never-yielded keys (incl. 'Links', 'Data', 'Hash') are not found; LookupByNode(non-string) errors; " +
	"non-trivial = list with a duplicate or nameless link, or a sharded directory of depth >= 2; distinct by (view, link count, name pattern)"

func TestC15_P_LinkLists(t *testing.T) {
	ev := newEvid(t, c15Rule)
	rapid.Check(t, func(t *rapid.T) {
		nl := rapid.IntRange(0, 12).Draw(t, "nlinks")
		if rapid.IntRange(0, 5).Draw(t, "long") == 0 {
			nl = rapid.IntRange(13, 70).Draw(t, "nlinksLong") // long lists: lookups must not assume a small or sorted list
		}
		type lk struct {
			name *string
			c    cid.Cid
		}
		var links []lk
		pattern := ""
		dupOrNameless := false
		seen := map[string]bool{}
		for i := 0; i < nl; i++ {
			l := lk{c: sumRaw([]byte(fmt.Sprint("t", i)))}
			switch rapid.IntRange(0, 5).Draw(t, "nk") {
			case 0:
				pattern += "-"
				dupOrNameless = true
			case 1:
				l.name = strp("")
				pattern += "e"
			default:
				s := rapid.SampledFrom([]string{"a", "b", "a", "c", "zz", "Links", "Data", "0", "é", "\xff", "b"}).Draw(t, "name")
				if nl > 12 && rapid.IntRange(0, 3).Draw(t, "uniq") > 0 {
					s = fmt.Sprintf("k%02d", rapid.IntRange(0, 99).Draw(t, "knum"))
				}
				l.name = &s
				if seen[s] {
					dupOrNameless = true
					pattern += "D"
				} else {
					pattern += "n"
				}
				seen[s] = true
			}
			if l.name != nil && *l.name == "" {
				if seen["\x00empty"] {
					dupOrNameless = true
				}
				seen["\x00empty"] = true
			}
			links = append(links, l)
		}
		if nl > 12 && rapid.Bool().Draw(t, "ascending") {
			// the named links in ascending name order, the nameless ones staying where they were drawn: nearly the order a
			// sorting writer produces, except that it is another writer's (nameless links not in front)
			var at []int
			var names []string
			for i, l := range links {
				if l.name != nil {
					at, names = append(at, i), append(names, *l.name)
				}
			}
			sort.Strings(names)
			for j, i := range at {
				links[i].name = strp(names[j])
			}
			pattern += " ascending"
		}
		view := rapid.SampledFrom([]string{"directory", "no-data", "garbage-data", "symlink", "metadata"}).Draw(t, "view")
		var payload []byte
		hasData := true
		switch view {
		case "directory":
			payload = (&ufsFields{Type: 1}).encode()
		case "no-data":
			hasData = false
		case "garbage-data":
			payload = []byte{0xff, 0xff}
		case "symlink":
			payload = (&ufsFields{Type: 4, HasData: true, Data: []byte("target")}).encode()
		default:
			payload = (&ufsFields{Type: 3}).encode()
		}
		pn, err := qp.BuildMap(dagpb.Type.PBNode, -1, func(ma datamodel.MapAssembler) {
			qp.MapEntry(ma, "Links", qp.List(int64(len(links)), func(la datamodel.ListAssembler) {
				for _, h := range links {
					qp.ListEntry(la, qp.Map(-1, func(ma datamodel.MapAssembler) {
						qp.MapEntry(ma, "Hash", qp.Link(cidlink.Link{Cid: h.c}))
						if h.name != nil {
							qp.MapEntry(ma, "Name", qp.String(*h.name))
						}
					}))
				}
			}))
			if hasData {
				qp.MapEntry(ma, "Data", qp.Bytes(payload))
			}
		})
		if err != nil {
			t.Fatalf("harness: %v", err)
		}
		st := NewStore()
		ls := st.LinkSystem()
		stored := rapid.Bool().Draw(t, "storedRoundTrip")
		node := pn
		if stored {
			l, err := ls.Store(ipld.LinkContext{}, pbProto, pn)
			if err != nil {
				t.Fatalf("harness: %v", err)
			}
			node, err = loadPlain(ls, cidOf(l))
			if err != nil {
				t.Fatalf("harness: %v", err)
			}
		}
		for _, reifier := range []string{"unixfs", "unixfs-preload"} {
			var rn datamodel.Node
			var cerr error
			var pairs int
			must(t, "map contract", func() {
				rn, cerr = ls.KnownReifiers[reifier](ipld.LinkContext{}, node, ls)
				if cerr != nil {
					return
				}
				pairs, cerr = checkMapContract(rn, []string{"nope", "Links", "Data", "Hash", "Name", "a ", "0"})
			})
			if cerr != nil {
				t.Fatalf("C15: %s view of link list [%s] (stored=%v) via %s: %v", view, pattern, stored, reifier, cerr)
			}
			if pairs != nl {
				t.Fatalf("C15: %s view of %d links yielded %d pairs", view, nl, pairs)
			}
		}
		ev.Case(fmt.Sprintf("%s %s stored=%v", view, pattern, stored), dupOrNameless, "view:"+view, "links:"+bucket(nl), fmt.Sprintf("stored:%v", stored))
		ev.Sample(map[string]any{"view": view, "name_pattern(-=absent,e=empty,n=new,D=duplicate)": pattern, "stored_round_trip": stored})
	})
}

func TestC15_P_ShardedDirs(t *testing.T) {
	ev := newEvid(t, c15Rule)
	maxN := scale(200, 1500)
	rapid.Check(t, func(t *rapid.T) {
		st := NewStore()
		var root cid.Cid
		src := rapid.SampledFrom([]string{"builder", "reference", "reference-inlined"}).Draw(t, "source")
		names, _, fanout := genNamesFanout(t, nameOpts{Max: maxN})
		if src == "builder" {
			if rapid.IntRange(0, 3).Draw(t, "framedDagPB") == 0 {
				// the link system's dag-pb codec is a custom one (an envelope around every block): what the caller's link
				// system decodes the root with is what every child shard has to be decoded with
				st.PBEnvelope = rapid.SampledFrom([]int{1, 5, 40}).Draw(t, "pbEnvelope")
			}
			es := make([]entrySpec, len(names))
			for i, n := range names {
				es[i] = entryFor(n, 0)
			}
			var err error
			root, _, err = buildSharded(st, es, fanout)
			if err != nil {
				t.Fatalf("harness: %v", err)
			}
		} else {
			sh, err := refShard(st, fanout)
			if err != nil {
				t.Fatal(err)
			}
			if src == "reference-inlined" {
				// the writer inlines small blocks: shard blocks of up to a few hundred bytes get identity CIDs (the block is
				// the link), which sibling shards with few entries share long stretches of
				sh.SetCidBuilder(inlineBuilder{v1Prefix(), rapid.SampledFrom([]int{120, 200, 400}).Draw(t, "inlineLimit")})
			}
			ctx := context.Background()
			for _, n := range names {
				if err := sh.SetLink(ctx, n, &format.Link{Name: n, Size: 1, Cid: sumRaw([]byte(n))}); err != nil {
					t.Fatal(err)
				}
			}
			// remove a drawn subset again
			sort.Strings(names)
			for _, n := range names {
				if rapid.IntRange(0, 3).Draw(t, "rm") == 0 {
					if err := sh.Remove(ctx, n); err != nil {
						t.Fatal(err)
					}
				}
			}
			nd, err := sh.Node()
			if err != nil {
				t.Fatal(err)
			}
			root = nd.Cid()
		}
		depth := 1
		// keys that are never yielded but look like what is stored: an entry's stored link name (slot label + name) and the
		// tail of its label + name
		labelled := []string{}
		if tr, err := st.ShardTree(root); err == nil {
			depth = tr.Depth()
			var walk func(sn *ShardNode)
			walk = func(sn *ShardNode) {
				for _, l := range sn.Links {
					if l.Child != nil {
						walk(l.Child)
					} else if len(labelled) < 600 {
						for k := 0; k < sn.Pad; k++ {
							labelled = append(labelled, l.Name[k:])
						}
					}
				}
			}
			walk(tr)
		}
		ls := st.LinkSystem()
		st.RequireSession = len(names)%2 == 1 // (the store serves only loads that carry the request's context)
		st.HonorCtx = true                    // (and refuses loads whose context is already done)
		for _, reifier := range []string{"unixfs", "unixfs-preload", "Load+NodeReifier", "unixfs+AttemptHAMTShardFromNode(another link system)"} {
			var cerr error
			load := func() (datamodel.Node, error) {
				if strings.HasPrefix(reifier, "unixfs+Attempt") {
					// a reified directory narrowed to the shard type by a caller that holds its own copy of the link system
					// (a request handler with a per-request link system): the result is the same directory
					rn, err := loadReified(ls, root, "unixfs")
					if err != nil {
						return nil, err
					}
					other := *ls
					if len(names)%2 == 0 {
						return hamt.AttemptHAMTShardFromNode(sessionCtx, rn, &other)
					}
					// ... or the other way round: somebody else narrowed the node - with a link system that has no storage
					// and a request context that is over by now - and the first holder goes on using ITS node
					other.StorageReadOpener = nil
					octx, cancel := context.WithCancel(sessionCtx)
					_, err = hamt.AttemptHAMTShardFromNode(octx, rn, &other)
					cancel()
					return rn, err
				}
				if reifier == "Load+NodeReifier" {
					// a link system that reifies whatever it loads: child shards reach the directory already reified
					ls2 := *ls
					ls2.NodeReifier = unixfsnode.Reify
					return ls2.Load(lcS, cidLink(root), protoForCid(root))
				}
				return loadReified(ls, root, reifier)
			}
			must(t, "map contract (sharded)", func() {
				var rn datamodel.Node
				rn, cerr = load()
				if cerr != nil {
					return
				}
				_, cerr = checkMapContract(rn, append([]string{"nope", "Links", "Data", "Hash", "", "00", "0"}, labelled...))
			})
			if cerr != nil {
				t.Fatalf("C15: sharded directory (%s, fanout %d, %d names, depth %d) via %s: %v", src, fanout, len(names), depth, reifier, cerr)
			}
			// the same contract on a node with a history: partial iterations, lookups and Length() calls in a drawn order
			// happen BEFORE the contract is checked (nothing has asked this node for its length yet)
			nops := rapid.IntRange(1, 4).Draw(t, "historyOps")
			hist := ""
			must(t, "map contract after history (sharded)", func() {
				var rn datamodel.Node
				rn, cerr = load()
				if cerr != nil {
					return
				}
				if tr, err := st.ShardTree(root); err == nil && rapid.IntRange(0, 2).Draw(t, "faultyPast") == 0 {
					hist += faultyPast(t, st, rn, tr, names) + " "
				}
				for i := 0; i < nops; i++ {
					switch rapid.IntRange(0, 5).Draw(t, "historyOp") {
					case 4:
						// drained the way a loop "until the iterator has nothing more" does it: one Next() past the end
						hist += "drain+overread "
						it := rn.MapIterator()
						for !it.Done() {
							_, _, _ = it.Next()
						}
						_, _, _ = it.Next()
					case 5:
						hist += "native-drain+overread "
						if nd, ok := rn.(nativeDir); ok {
							nit := nd.Iterator()
							for k, _ := nit.Next(); k != nil; k, _ = nit.Next() {
							}
							nit.Next()
						}
					case 0, 1:
						steps := rapid.IntRange(0, len(names)+1).Draw(t, "steps")
						hist += fmt.Sprintf("iter(%d) ", steps)
						it := rn.MapIterator()
						for j := 0; j < steps && !it.Done(); j++ {
							_, _, _ = it.Next()
						}
					case 2:
						k := "nope"
						if len(names) > 0 {
							k = rapid.SampledFrom(names).Draw(t, "lookup")
						}
						hist += "lookup "
						_, _ = rn.LookupByString(k)
					case 3:
						hist += "length "
						_ = rn.Length()
					}
				}
				_, cerr = checkMapContract(rn, []string{"nope", ""})
			})
			if cerr != nil {
				t.Fatalf("C15: sharded directory (%s, fanout %d, %d names, depth %d) via %s after history [%s]: %v", src, fanout, len(names), depth, reifier, hist, cerr)
			}
		}
		ev.Case(fmt.Sprintf("%s f=%d n=%s d=%d", src, fanout, bucket(len(names)), depth), depth >= 2, "source:"+src, "depth:"+bucket(depth))
		ev.Sample(map[string]any{"source": src, "fanout": fanout, "names": len(names), "depth": depth})
	})
}

func TestC15_R_Basics(t *testing.T) {
	// the un-reified check must not be vacuous: a plain directory of three links incl. a duplicate and a nameless one
	st := NewStore()
	ls := st.LinkSystem()
	m := &mnode{HasData: true, UFS: &ufsFields{Type: 1}, Links: []mlink{
		{Name: strp("a"), Child: &mnode{IsRaw: true, Raw: []byte("1")}},
		{Name: strp("a"), Child: &mnode{IsRaw: true, Raw: []byte("2")}},
		{Child: &mnode{IsRaw: true, Raw: []byte("3")}},
	}}
	root, err := m.store(st, ls)
	if err != nil {
		t.Fatal(err)
	}
	rn, err := loadReified(ls, root, "unixfs")
	if err != nil {
		t.Fatal(err)
	}
	pairs, err := checkMapContract(rn, []string{"b", "Links"})
	if err != nil || pairs != 3 {
		t.Fatalf("C15 basics: pairs=%d err=%v", pairs, err)
	}
	_ = unixfsnode.Reify
}

// A long-lived node: millions of operations on one reified sharded directory must leave it exactly as usable as a fresh one.
func TestC15_R_LongLivedNode(t *testing.T) {
	st := NewStore()
	var es []entrySpec
	for i := 0; i < 400; i++ {
		es = append(es, entryFor(fmt.Sprintf("n%d", i), 0))
	}
	root, _, err := buildSharded(st, es, 8)
	if err != nil {
		t.Fatal(err)
	}
	rn, err := loadReified(st.LinkSystem(), root, "unixfs")
	if err != nil {
		t.Fatal(err)
	}
	total := scale(2500000, 6000000)
	for i := 0; i < total; i++ {
		name := es[i%len(es)].Name
		v, err := rn.LookupByString(name)
		if err != nil {
			t.Fatalf("C15 long-lived node: lookup #%d of %q failed: %v", i, name, err)
		}
		if i%100000 == 0 {
			if c, _ := linkOf(v); c != es[i%len(es)].Cid {
				t.Fatalf("C15 long-lived node: lookup #%d wrong link", i)
			}
		}
	}
	if _, err := checkMapContract(rn, []string{"nope"}); err != nil {
		t.Fatalf("C15 long-lived node after %d lookups: %v", total, err)
	}
}

// Sharded directories written by the reference implementation with a CID builder that inlines small blocks: most child
// shards of a directory of naturally named entries are then identity CIDs (the shard block itself is the link), and
// sibling shards with few entries differ in a few bytes only.
func TestC15_R_ReferenceHAMTWithInlinedShards(t *testing.T) {
	for _, c := range []struct{ fanout, n, limit int }{{256, 1500, 400}, {16, 600, 300}, {1024, 3000, 400}} {
		st := NewStore()
		sh, err := refShard(st, c.fanout)
		if err != nil {
			t.Fatal(err)
		}
		sh.SetCidBuilder(inlineBuilder{v1Prefix(), c.limit})
		want := map[string]cid.Cid{}
		for i := 0; i < c.n; i++ {
			n := fmt.Sprintf("entry-%04d", i)
			want[n] = sumRaw([]byte(n))
			if err := sh.SetLink(context.Background(), n, &format.Link{Name: n, Size: 1, Cid: want[n]}); err != nil {
				t.Fatal(err)
			}
		}
		nd, err := sh.Node()
		if err != nil {
			t.Fatal(err)
		}
		inlined := 0
		for b := range st.Blocks {
			if dm, _ := mh.Decode(b.Hash()); dm != nil && dm.Code == mh.IDENTITY {
				inlined++
			}
		}
		if inlined < 10 {
			t.Fatalf("harness: only %d inlined shard blocks", inlined)
		}
		ls := st.LinkSystem()
		for _, reifier := range []string{"unixfs", "unixfs-preload"} {
			rn, err := loadReified(ls, nd.Cid(), reifier)
			if err != nil {
				t.Fatalf("C15: reference HAMT (fanout %d, %d entries, %d inlined shard blocks) via %s: %v", c.fanout, c.n, inlined, reifier, err)
			}
			pairs, err := checkMapContract(rn, []string{"nope", "entry-", "entry-99999"})
			if err != nil || pairs != c.n {
				t.Fatalf("C15: reference HAMT with inlined shard blocks (fanout %d, %d entries, %d inlined) via %s: %d pairs, %v", c.fanout, c.n, inlined, reifier, pairs, err)
			}
			for name, wc := range want {
				v, err := rn.LookupByString(name)
				if err != nil {
					t.Fatalf("C15: reference HAMT with inlined shard blocks (fanout %d) via %s: lookup of entry %q: %v", c.fanout, reifier, name, err)
				}
				if got, _ := linkOf(v); got != wc {
					t.Fatalf("C15: reference HAMT with inlined shard blocks (fanout %d) via %s: lookup of %q returned another entry's link", c.fanout, reifier, name)
				}
			}
		}
	}
}

// c15FailedPreloadNode builds a sharded directory, calls the preloading shard constructor directly while one child shard
// is unavailable (it returns the node together with the error) and gives back that node with storage healthy again.
func c15FailedPreloadNode(t *testing.T, n, fanout, missing int) (datamodel.Node, []entrySpec) {
	st := NewStore()
	var es []entrySpec
	for i := 0; i < n; i++ {
		es = append(es, entryFor(fmt.Sprintf("entry-%04d", i), 0))
	}
	root, _, err := buildSharded(st, es, fanout)
	if err != nil {
		t.Fatal(err)
	}
	tree, err := st.ShardTree(root)
	if err != nil {
		t.Fatal(err)
	}
	shards := tree.ShardsPreOrder()
	ls := st.LinkSystem()
	pn, err := loadPlain(ls, root)
	if err != nil {
		t.Fatal(err)
	}
	tpn := pn.(dagpb.PBNode)
	ud, err := data.DecodeUnixFSData(tpn.Data.Must().Bytes())
	if err != nil {
		t.Fatal(err)
	}
	st.Missing = map[cid.Cid]bool{shards[missing%len(shards)]: true}
	node, perr := hamt.NewUnixFSHAMTShardWithPreload(sessionCtx, tpn, ud, ls)
	st.Missing = map[cid.Cid]bool{}
	if perr == nil {
		t.Fatalf("C12: the preloading shard constructor succeeded although shard #%d cannot be loaded", missing)
	}
	return node, es
}

// A caller that keeps the node the preloading constructor hands out together with its error: once storage is healthy
// the node is the directory - iteration, length and lookups agree.
func TestC15_R_NodeKeptFromAFailedPreload(t *testing.T) {
	for _, missing := range []int{0, 1, 7, 40, 1000003} {
		node, es := c15FailedPreloadNode(t, 1200, 16, missing)
		if node == nil {
			continue // (nothing was handed out: nothing to hold the library to)
		}
		pairs, err := checkMapContract(node, []string{"nope", "entry-"})
		if err != nil || pairs != len(es) {
			t.Fatalf("C15: node kept from a preload that failed at shard #%d, storage healthy again: %d pairs of %d entries, %v", missing, pairs, len(es), err)
		}
	}
}
