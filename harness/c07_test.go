package harness

// C07 - file DAGs are byte-identical to the reference balanced importer's (raw leaves, CIDv1).

import (
	"bytes"
	"fmt"
	"io"
	"os"
	"syscall"
	"testing"

	chunk "github.com/ipfs/boxo/chunker"
	"github.com/ipfs/boxo/ipld/unixfs/importer/balanced"
	"github.com/ipfs/boxo/ipld/unixfs/importer/helpers"
	"github.com/ipfs/go-cid"
	"github.com/ipld/go-ipld-prime/datamodel"

	"pgregory.net/rapid"
)

func c07Compare(data []byte, chunker string, w int) error {
	got, gsz, err := buildFile(NewStore(), data, chunker, w)
	if err != nil {
		return fmt.Errorf("builder error: %v", err)
	}
	want, wsz, err := refImportFile(NewStore(), data, refFileOpts{Chunker: chunker, Width: w, RawLeaves: true, CidV1: true})
	if err != nil {
		return fmt.Errorf("reference error: %v", err)
	}
	if got != want || gsz != wsz {
		return fmt.Errorf("len=%d chunker=%q w=%d: builder %s/%d, reference %s/%d", len(data), chunker, w, got, gsz, want, wsz)
	}
	return nil
}

// hasSingleChildTail reports whether, for n chunks at width w, some level's trailing subtree has exactly one child.
func hasSingleChildTail(n, w int) bool {
	for n > w {
		if n%w == 1 {
			return true
		}
		n = (n + w - 1) / w
	}
	return false
}

const c07Rule = "case = (content, chunker, link width); oracle = boxo balanced.Layout(RawLeaves, CIDv1, Maxlinks=w) root CID and Size(); " +
	"non-trivial = more chunks than the width (>= 2 levels); distinct by (w, chunk count, chunker class, tail class)"

// Deterministic sweep: for w in 2..5 every chunk count 0..3*w^3+2 (all balanced shapes at those widths).
func TestC07_P_Sweep(t *testing.T) {
	ev := newEvid(t, c07Rule+"; this part enumerates every chunk count 0..3w^3+2 for w=2..5 with size-1 and size-3 chunkers")
	ev.Exh = true
	for w := 2; w <= 5; w++ {
		max := 3*w*w*w + 2
		for _, cs := range []int{1, 3} {
			for n := 0; n <= max; n++ {
				data := lcgBytes(n*cs, byte(n), 0)
				chunker := fmt.Sprintf("size-%d", cs)
				if err := c07Compare(data, chunker, w); err != nil {
					t.Fatalf("C07 sweep: %v", err)
				}
				tail := ""
				if hasSingleChildTail(n, w) {
					tail = "single-child-tail"
				}
				ev.Case(fmt.Sprintf("sweep w=%d n=%d cs=%d", w, n, cs), n > w, "sweep", tail)
				if n > w {
					ev.Sample(map[string]any{"w": w, "chunks": n, "chunker": chunker})
				}
			}
		}
	}
}

func TestC07_P_Random(t *testing.T) {
	ev := newEvid(t, c07Rule)
	maxLen := scale(4096, 65536)
	rapid.Check(t, func(t *rapid.T) {
		w := genWidth(t)
		ck := genChunker(t)
		data := genContent(t, ck, w, maxLen)
		var err error
		must(t, "BuildUnixFSFile", func() { err = c07Compare(data, ck.Name, w) })
		if err != nil {
			t.Fatalf("C07: %v", err)
		}
		n := 0
		if ck.CS > 0 {
			n = (len(data) + ck.CS - 1) / ck.CS
		} else {
			n = len(data) / 32 // rough, only for classification
		}
		tail := ""
		if ck.CS > 0 && hasSingleChildTail(n, w) {
			tail = "single-child-tail"
		}
		ev.Case(fmt.Sprintf("w=%d n=%d %s %s", w, n, ck.Class, tail), n > w, "chunker:"+ck.Class, tail, fmt.Sprintf("w:%s", bucket(w)))
		ev.Sample(map[string]any{"w": w, "len": len(data), "chunker": ck.Name, "approx_chunks": n})
	})
}

// Real production width: boundary counts around 174 and 174^2 with one-byte chunks.
func TestC07_R_RealWidth(t *testing.T) {
	for _, n := range []int{173, 174, 175, 176, 347, 348, 349, 174*2 + 1, 174 * 174, 174*174 + 1, 174*174 + 175} {
		if err := c07Compare(lcgBytes(n, 7, 0), "size-1", 174); err != nil {
			t.Fatalf("C07 real width n=%d: %v", n, err)
		}
	}
}

// F2 (fixed): a trailing subtree with a single child must not be collapsed.
func TestC07_R_F2_SingleChildTail(t *testing.T) {
	for _, c := range []struct{ w, n int }{{2, 3}, {2, 5}, {2, 7}, {3, 4}, {3, 10}, {4, 5}, {4, 17}, {5, 26}} {
		if err := c07Compare(lcgBytes(c.n, 1, 0), "size-1", c.w); err != nil {
			t.Fatalf("C07 F2: %v", err)
		}
	}
}

// Large chunkers at default settings (thorough only: several MiB of content).
func TestC07_R_DefaultChunkers(t *testing.T) {
	if !thorough() {
		t.Skip("thorough only")
	}
	for _, ck := range []string{"", "default", "size-262144", "rabin", "buzhash", "rabin-262144"} {
		for _, n := range []int{0, 1, 262144, 262145, 3 << 20} {
			if err := c07Compare(lcgBytes(n, byte(n), 0), ck, 174); err != nil {
				t.Fatalf("C07 default chunkers: %v", err)
			}
			if err := c07Compare(lcgBytes(n, byte(n), 0), ck, 3); err != nil {
				t.Fatalf("C07 default chunkers: %v", err)
			}
		}
	}
}

// The largest chunk the chunker accepts (1 MiB, also builder.BlockSizeLimit) and its neighbour.
func TestC07_R_ChunkSizeLimits(t *testing.T) {
	for _, ck := range []string{"size-1048575", "size-1048576"} {
		for _, n := range []int{1048575, 1048576, 1048577, 2*1048576 + 1} {
			if err := c07Compare(lcgBytes(n, byte(n), 0), ck, 2); err != nil {
				t.Fatalf("C07 chunk size limits: %v", err)
			}
		}
	}
	if err := c07Compare(lcgBytes(1048576+9, 3, 0), "rabin-262144-524288-1048576", 174); err != nil {
		t.Fatalf("C07 chunk size limits: %v", err)
	}
}

const c07SourceRule = "case = content x source kind in {*os.File positioned at a drawn offset, io.SectionReader partly read, bytes.Reader partly read, the library's own AsLargeBytes reader after a Seek, a plain non-seekable reader} x chunker in {default \"\", size-K}; " +
	"the builder must import exactly the bytes the reader has left; oracle = reference importer over those remaining bytes (CID and size); non-trivial = seekable source with a non-zero position; distinct by (source, chunker class, position class)"

// TestC07_P_PositionedSources: BuildUnixFSFile takes an io.Reader - what it imports is what that reader still has to give.
func TestC07_P_PositionedSources(t *testing.T) {
	ev := newEvid(t, c07SourceRule)
	rapid.Check(t, func(t *rapid.T) {
		n := rapid.IntRange(0, 3000).Draw(t, "len")
		data := lcgBytes(n, rapid.Byte().Draw(t, "fill"), 0)
		pos := 0
		if n > 0 {
			pos = rapid.IntRange(0, n).Draw(t, "pos")
		}
		chunker := rapid.SampledFrom([]string{"", "default", "size-64", "size-1000"}).Draw(t, "chunker")
		src := rapid.SampledFrom([]string{"os.File", "SectionReader", "bytes.Reader", "AsLargeBytes", "plain"}).Draw(t, "source")
		var r io.Reader
		cleanup := func() {}
		switch src {
		case "os.File":
			f, err := os.CreateTemp("", "verif-c07-")
			if err != nil {
				t.Fatal(err)
			}
			cleanup = func() { f.Close(); os.Remove(f.Name()) }
			if _, err := f.Write(data); err != nil {
				t.Fatal(err)
			}
			if _, err := f.Seek(int64(pos), io.SeekStart); err != nil {
				t.Fatal(err)
			}
			r = f
		case "SectionReader":
			sr := io.NewSectionReader(bytes.NewReader(data), 0, int64(n))
			_, _ = io.CopyN(io.Discard, sr, int64(pos))
			r = sr
		case "bytes.Reader":
			br := bytes.NewReader(data)
			_, _ = io.CopyN(io.Discard, br, int64(pos))
			r = br
		case "AsLargeBytes":
			st0 := NewStore()
			root0, _, err := buildFile(st0, data, "size-100", 3)
			if err != nil {
				t.Fatal(err)
			}
			node, err := loadReified(st0.LinkSystem(), root0, "unixfs")
			if err != nil {
				t.Fatal(err)
			}
			rs, err := node.(datamodel.LargeBytesNode).AsLargeBytes()
			if err != nil {
				t.Fatal(err)
			}
			if _, err := rs.Seek(int64(pos), io.SeekStart); err != nil {
				t.Fatal(err)
			}
			r = rs
		default:
			r = plainReader{bytes.NewReader(data[pos:])}
		}
		defer cleanup()
		rest := data[pos:]
		st := NewStore()
		var got cid.Cid
		var gsz uint64
		var err error
		must(t, "BuildUnixFSFile", func() { got, gsz, err = buildFileR(st.LinkSystem(), r, chunker, 174) })
		if err != nil {
			t.Fatalf("C07 source %s: %v", src, err)
		}
		want, wsz, err := refImportFile(NewStore(), rest, refFileOpts{Chunker: chunker, Width: 174, RawLeaves: true, CidV1: true})
		if err != nil {
			t.Fatalf("reference: %v", err)
		}
		if got != want || gsz != wsz {
			t.Fatalf("C07: source %s holding %d bytes, positioned at %d, chunker %q: builder %s/%d, reference over the remaining %d bytes %s/%d", src, n, pos, chunker, got, gsz, len(rest), want, wsz)
		}
		ev.Case(fmt.Sprintf("%s %q pos=%s/%s", src, chunker, bucket(pos), bucket(n)), src != "plain" && pos > 0, "source:"+src, "chunker:"+chunker)
		ev.Sample(map[string]any{"source": src, "len": n, "pos": pos, "chunker": chunker})
	})
}

// failingSource delivers data in the drawn fragment sizes and fails (non-EOF) once failAfter bytes have been delivered:
// either together with the last bytes of that read (n > 0, err) or on the call after them.
type failingSource struct {
	data      []byte
	frags     []int
	failAfter int
	together  bool
	pos, call int
	err       error
	// transient: the error is reported once (an interrupted or would-block read) and the source carries on afterwards
	transient, reported bool
}

func (f *failingSource) Read(p []byte) (int, error) {
	if f.transient && f.reported {
		k := f.frags[f.call%len(f.frags)]
		f.call++
		k = min(k, len(p), len(f.data)-f.pos)
		if k <= 0 {
			return 0, io.EOF
		}
		copy(p, f.data[f.pos:f.pos+k])
		f.pos += k
		return k, nil
	}
	if f.pos >= f.failAfter {
		f.reported = true
		return 0, f.err
	}
	k := f.frags[f.call%len(f.frags)]
	f.call++
	if k > len(p) {
		k = len(p)
	}
	if f.pos+k > f.failAfter {
		k = f.failAfter - f.pos
	}
	copy(p, f.data[f.pos:f.pos+k])
	f.pos += k
	if f.pos >= f.failAfter && f.together {
		return k, f.err
	}
	return k, nil
}

const c07FailRule = "case = (content, chunker, width, a source reader that fails with a non-EOF error after delivering a drawn number of bytes - aimed at chunk and level boundaries incl. exactly at the end - in drawn fragment sizes, the error arriving with the last bytes or on the next call, error value from the fault palette incl. values wrapping io.EOF); " +
	"oracle = differential: where the reference importer fed the same failing source reports an error, the builder must report one too and return no link (a link would name a file the source never delivered); where the reference takes the failure for the end of the input (errors wrapping io.ErrUnexpectedEOF), the builder must return the same root; every case non-trivial; distinct by (chunker class, w, position class, together?)"

// TestC07_P_FailingSource extends the content domain of C07 to sources that break: builder and reference must agree that
// there is no file.
func TestC07_P_FailingSource(t *testing.T) {
	ev := newEvid(t, c07FailRule)
	rapid.Check(t, func(t *rapid.T) {
		w := genWidth(t)
		ck := genChunker(t)
		data := genContent(t, ck, w, 2048)
		failAfter := rapid.IntRange(0, len(data)).Draw(t, "failAfter")
		posClass := "interior"
		if ck.CS > 0 && rapid.Bool().Draw(t, "onChunkBoundary") {
			chunks := (len(data) + ck.CS - 1) / ck.CS
			c := genChunkCount(t, w, chunks+1)
			if c > chunks {
				c = chunks
			}
			failAfter = c * ck.CS
			if failAfter > len(data) {
				failAfter = len(data)
			}
			posClass = "chunk-boundary"
		}
		if failAfter == len(data) {
			posClass = "at-end"
		}
		if failAfter == len(data) && len(data) > 0 && rapid.Bool().Draw(t, "notAtEndAfterAll") {
			failAfter = len(data) / 2
			posClass = "interior"
		}
		kind := genFaultKind(t)
		// one source in five reports its error once - EINTR, EAGAIN or the drawn value - and delivers the rest of the bytes
		// when asked again (whoever retries must not have thrown bytes away)
		transient := rapid.IntRange(0, 4).Draw(t, "transientSourceError") == 0
		var srcErr error = &ioFault{what: "source reader", inner: faultKinds[kind].Inner}
		if transient {
			vals := []error{syscall.EINTR, syscall.EAGAIN, fmt.Errorf("read: %w", syscall.EINTR), srcErr}
			if failAfter > 0 && ck.CS > 0 {
				// a file that is being appended to: its end was reached once, and then there was more
				vals = append(vals, io.EOF, io.EOF)
			}
			srcErr = vals[rapid.IntRange(0, len(vals)-1).Draw(t, "transientValue")]
		}
		mk := func() *failingSource {
			return &failingSource{data: data, failAfter: failAfter, together: false, err: srcErr, transient: transient}
		}
		frags := rapid.SliceOfN(rapid.SampledFrom([]int{1, 2, 3, 7, 64, 1000, 1 << 20}), 1, 4).Draw(t, "frags")
		together := rapid.Bool().Draw(t, "together")
		src, refSrc := mk(), mk()
		src.frags, refSrc.frags = frags, frags
		src.together, refSrc.together = together, together
		// reference
		var refErr error
		var refRoot cid.Cid
		func() {
			spl, err := chunk.FromString(refSrc, ck.Name)
			if err != nil {
				t.Fatalf("harness: chunker %q: %v", ck.Name, err)
			}
			params := helpers.DagBuilderParams{Maxlinks: w, RawLeaves: true, Dagserv: storeDAG{NewStore()}, CidBuilder: v1Prefix()}
			db, err := params.New(spl)
			if err != nil {
				t.Fatal(err)
			}
			nd, e := balanced.Layout(db)
			refErr = e
			if e == nil {
				refRoot = nd.Cid()
			}
		}()
		var got cid.Cid
		var err error
		must(t, "BuildUnixFSFile", func() { got, _, err = buildFileR(NewStore().LinkSystem(), src, ck.Name, w) })
		if refErr == nil {
			// the reference took the failure for the end of the input (the splitter does that for errors wrapping
			// io.ErrUnexpectedEOF): then the builder has to build the same file from what was delivered (F17)
			if err != nil || got != refRoot {
				t.Fatalf("C07: source failing (%s, with the last bytes: %v) after %d of %d bytes, chunker %q, w=%d: the reference importer takes that for the end of the input and returns %s; the builder returned %s, err %v", faultKinds[kind].Name, together, failAfter, len(data), ck.Name, w, refRoot, got, err)
			}
			ev.Case(fmt.Sprintf("reference-took-it-for-the-end %s %s", ck.Class, posClass), true, "reference-took-it-for-the-end", "pos:"+posClass)
			return
		}
		if err == nil || got.Defined() {
			t.Fatalf("C07: source reader failing (%s, with the last bytes: %v) after %d of %d bytes, chunker %q, w=%d: the reference importer reports %q, the builder returned link %s, err %v", faultKinds[kind].Name, together, failAfter, len(data), ck.Name, w, refErr, got, err)
		}
		ev.Case(fmt.Sprintf("%s w=%d %s together=%v %s", ck.Class, w, posClass, together, faultKinds[kind].Name), true, "chunker:"+ck.Class, "pos:"+posClass, "fault:"+faultKinds[kind].Name)
		ev.Sample(map[string]any{"len": len(data), "chunker": ck.Name, "w": w, "fail_after": failAfter, "together": together, "fault": faultKinds[kind].Name})
	})
}

// F17 (fixed): a source cut off exactly at a chunk boundary with an error wrapping io.ErrUnexpectedEOF.
func TestC07_R_F17_SourceCutAtChunkBoundary(t *testing.T) {
	for _, n := range []int{0, 8, 16, 32, 33, 64} {
		for _, w := range []int{2, 3, 174} {
			data := lcgBytes(n, 1, 0)
			mk := func() io.Reader {
				return &failingSource{data: data, frags: []int{5}, failAfter: n, err: fmt.Errorf("truncated stream: %w", io.ErrUnexpectedEOF)}
			}
			got, _, err := buildFileR(NewStore().LinkSystem(), mk(), "size-8", w)
			spl, _ := chunk.FromString(mk(), "size-8")
			db, _ := (&helpers.DagBuilderParams{Maxlinks: w, RawLeaves: true, Dagserv: storeDAG{NewStore()}, CidBuilder: v1Prefix()}).New(spl)
			nd, rerr := balanced.Layout(db)
			if rerr != nil {
				t.Fatalf("harness: reference failed: %v", rerr)
			}
			if err != nil || got != nd.Cid() {
				t.Fatalf("C07 F17: %d bytes then an error wrapping io.ErrUnexpectedEOF, size-8, w=%d: builder %s (err %v), reference %s", n, w, got, err, nd.Cid())
			}
		}
	}
}
