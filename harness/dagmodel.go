package harness

// Independent model of stored DAGs (DESIGN.md section 3.2). Nothing here calls go-unixfsnode:
// dag-pb blocks are decoded with go-codec-dagpb and UnixFS payloads with the gogo-generated
// unixfs_pb types of boxo.

import (
	"encoding/binary"
	"fmt"
	"math/bits"

	"github.com/gogo/protobuf/proto"
	pb "github.com/ipfs/boxo/ipld/unixfs/pb"
	"github.com/ipfs/go-cid"
	dagpb "github.com/ipld/go-codec-dagpb"
	cidlink "github.com/ipld/go-ipld-prime/linking/cid"
	"github.com/spaolacci/murmur3"
)

type LinkInfo struct {
	Name  *string
	Tsize *uint64
	Cid   cid.Cid
}

type BlockInfo struct {
	Cid     cid.Cid
	Raw     []byte
	IsPB    bool
	Links   []LinkInfo
	HasData bool
	Data    []byte
	UFS     *pb.Data // nil when Data absent or not decodable by the reference decoder
}

func (s *Store) Decode(c cid.Cid) (*BlockInfo, error) {
	raw, ok := s.Get(c)
	if !ok {
		return nil, fmt.Errorf("model: block %s not in store", c)
	}
	bi := &BlockInfo{Cid: c, Raw: raw}
	if c.Prefix().Codec != codecDagPB {
		return bi, nil
	}
	bi.IsPB = true
	nb := dagpb.Type.PBNode.NewBuilder()
	if s.PBEnvelope > 0 {
		if len(raw) < s.PBEnvelope {
			return nil, fmt.Errorf("model: block %s is shorter than the store's dag-pb envelope", c)
		}
		raw = raw[s.PBEnvelope:] // (the link system's dag-pb codec frames its blocks)
	}
	if err := dagpb.DecodeBytes(nb, raw); err != nil {
		return nil, fmt.Errorf("model: decode %s: %w", c, err)
	}
	pn := nb.Build().(dagpb.PBNode)
	for it := pn.Links.Iterator(); !it.Done(); {
		_, l := it.Next()
		li := LinkInfo{Cid: l.Hash.Link().(cidlink.Link).Cid}
		if l.Name.Exists() {
			s := l.Name.Must().String()
			li.Name = &s
		}
		if l.Tsize.Exists() {
			v := uint64(l.Tsize.Must().Int())
			li.Tsize = &v
		}
		bi.Links = append(bi.Links, li)
	}
	if pn.Data.Exists() {
		bi.HasData = true
		bi.Data = pn.Data.Must().Bytes()
		var d pb.Data
		if err := proto.Unmarshal(bi.Data, &d); err == nil {
			bi.UFS = &d
		}
	}
	return bi, nil
}

// ---------------------------------------------------------------- files

type FileNode struct {
	Cid        cid.Cid
	Start, End int64
	Kids       []*FileNode
	Info       *BlockInfo
}

// FileTree walks the file DAG below c assigning byte spans from the leaves' actual payloads.
func (s *Store) FileTree(c cid.Cid, at int64) (*FileNode, error) {
	bi, err := s.Decode(c)
	if err != nil {
		return nil, err
	}
	fn := &FileNode{Cid: c, Start: at, Info: bi}
	if !bi.IsPB {
		fn.End = at + int64(len(bi.Raw)-s.rawOverhead(bi.Raw)) // (the stored block may carry an envelope around the content)
		return fn, nil
	}
	if len(bi.Links) == 0 {
		n := 0
		if bi.UFS != nil {
			n = len(bi.UFS.Data)
		}
		fn.End = at + int64(n)
		return fn, nil
	}
	cur := at
	for _, l := range bi.Links {
		k, err := s.FileTree(l.Cid, cur)
		if err != nil {
			return nil, err
		}
		fn.Kids = append(fn.Kids, k)
		cur = k.End
	}
	fn.End = cur
	return fn, nil
}

func (f *FileNode) All() []*FileNode {
	out := []*FileNode{f}
	for _, k := range f.Kids {
		out = append(out, k.All()...)
	}
	return out
}

// Needed returns the set of blocks whose span intersects [a,b).
func (f *FileNode) Needed(a, b int64, out map[cid.Cid]bool) {
	if f.Start < b && f.End > a {
		out[f.Cid] = true
		for _, k := range f.Kids {
			k.Needed(a, b, out)
		}
	}
}

// PreOrder is the depth-first link-order list of distinct blocks (first occurrences).
func (f *FileNode) PreOrder() []cid.Cid {
	var all []cid.Cid
	for _, n := range f.All() {
		all = append(all, n.Cid)
	}
	return firstOccurrences(all)
}

func (f *FileNode) Depth() int {
	d := 0
	for _, k := range f.Kids {
		if kd := k.Depth(); kd > d {
			d = kd
		}
	}
	return d + 1
}

func (f *FileNode) Leaves() int {
	if len(f.Kids) == 0 {
		return 1
	}
	n := 0
	for _, k := range f.Kids {
		n += k.Leaves()
	}
	return n
}

// ---------------------------------------------------------------- sharded directories

type ShardLink struct {
	Name  string // full stored name, prefix included
	Cid   cid.Cid
	Tsize *uint64
	Child *ShardNode // non-nil for child shards
}

type ShardNode struct {
	Cid    cid.Cid
	Fanout int
	Pad    int
	Links  []ShardLink
	Info   *BlockInfo
}

func padWidth(fanout int) int { return len(fmt.Sprintf("%X", fanout-1)) }

// ShardTree walks a well-formed HAMT below c.
func (s *Store) ShardTree(c cid.Cid) (*ShardNode, error) {
	bi, err := s.Decode(c)
	if err != nil {
		return nil, err
	}
	if bi.UFS == nil || bi.UFS.GetType() != pb.Data_HAMTShard {
		return nil, fmt.Errorf("model: %s is not a HAMT shard", c)
	}
	sn := &ShardNode{Cid: c, Fanout: int(bi.UFS.GetFanout()), Info: bi}
	sn.Pad = padWidth(sn.Fanout)
	for _, l := range bi.Links {
		if l.Name == nil || len(*l.Name) < sn.Pad {
			return nil, fmt.Errorf("model: bad link name in shard %s", c)
		}
		sl := ShardLink{Name: *l.Name, Cid: l.Cid, Tsize: l.Tsize}
		if len(sl.Name) == sn.Pad {
			ch, err := s.ShardTree(l.Cid)
			if err != nil {
				return nil, err
			}
			sl.Child = ch
		}
		sn.Links = append(sn.Links, sl)
	}
	return sn, nil
}

// hashBitsRef extracts width bits at bit offset off (most significant first) of the
// murmur3-x64-64 digest of name, written from the UnixFS spec with 64-bit shifts.
func hashBitsRef(name string, off, width int) (int, bool) {
	if off+width > 64 {
		return 0, false
	}
	h := murmur3.Sum64([]byte(name))
	var be [8]byte
	binary.BigEndian.PutUint64(be[:], h)
	v := binary.BigEndian.Uint64(be[:])
	return int((v << uint(off)) >> uint(64-width)), true
}

// HashPath lists the child shards (not the root) that a lookup of name must load, in order.
func (sn *ShardNode) HashPath(name string) []cid.Cid {
	var out []cid.Cid
	cur := sn
	off := 0
	for {
		lg := bits.TrailingZeros(uint(cur.Fanout))
		idx, ok := hashBitsRef(name, off, lg)
		if !ok {
			return out
		}
		off += lg
		prefix := fmt.Sprintf("%0*X", cur.Pad, idx)
		var next *ShardNode
		for _, l := range cur.Links {
			if l.Child != nil && l.Name == prefix {
				next = l.Child
				out = append(out, l.Cid)
				break
			}
		}
		if next == nil {
			return out
		}
		cur = next
	}
}

// ShardsPreOrder lists child shards depth-first in stored link order (root excluded).
func (sn *ShardNode) ShardsPreOrder() []cid.Cid {
	var out []cid.Cid
	for _, l := range sn.Links {
		if l.Child != nil {
			out = append(out, l.Cid)
			out = append(out, l.Child.ShardsPreOrder()...)
		}
	}
	return out
}

type DirEntryM struct {
	Name  string
	Cid   cid.Cid
	Tsize *uint64
}

// Entries returns every value link with its un-prefixed name in depth-first link order.
func (sn *ShardNode) Entries() []DirEntryM {
	var out []DirEntryM
	for _, l := range sn.Links {
		if l.Child != nil {
			out = append(out, l.Child.Entries()...)
		} else {
			out = append(out, DirEntryM{Name: l.Name[sn.Pad:], Cid: l.Cid, Tsize: l.Tsize})
		}
	}
	return out
}

// ReachableWithout returns the entries reachable when the shards in missing cannot be loaded,
// and the number of missing shards whose parent is reachable.
func (sn *ShardNode) ReachableWithout(missing map[cid.Cid]bool) (ents []DirEntryM, met int) {
	for _, l := range sn.Links {
		if l.Child == nil {
			ents = append(ents, DirEntryM{Name: l.Name[sn.Pad:], Cid: l.Cid, Tsize: l.Tsize})
			continue
		}
		if missing[l.Cid] {
			met++
			continue
		}
		e, m := l.Child.ReachableWithout(missing)
		ents = append(ents, e...)
		met += m
	}
	return
}

func (sn *ShardNode) Depth() int {
	d := 0
	for _, l := range sn.Links {
		if l.Child != nil {
			if kd := l.Child.Depth(); kd > d {
				d = kd
			}
		}
	}
	return d + 1
}

func (sn *ShardNode) AllShards() []cid.Cid {
	return append([]cid.Cid{sn.Cid}, sn.ShardsPreOrder()...)
}

// ---------------------------------------------------------------- sizes

// CumulativeSize = encoded length of c + sum over its links (tree sum, not de-duplicated).
// Blocks not in the store (external entries) contribute ext[c] if present.
func (s *Store) CumulativeSize(c cid.Cid, ext map[cid.Cid]uint64) (uint64, error) {
	if _, ok := s.Get(c); !ok {
		if v, ok := ext[c]; ok {
			return v, nil
		}
		return 0, fmt.Errorf("model: size of unknown block %s", c)
	}
	bi, err := s.Decode(c)
	if err != nil {
		return 0, err
	}
	tot := uint64(len(bi.Raw))
	for _, l := range bi.Links {
		ks, err := s.CumulativeSize(l.Cid, ext)
		if err != nil {
			return 0, err
		}
		tot += ks
	}
	return tot, nil
}

// Reachable returns all blocks reachable from c that are in the store, and the dangling links.
func (s *Store) Reachable(c cid.Cid) (present map[cid.Cid]bool, dangling []cid.Cid) {
	present = map[cid.Cid]bool{}
	var walk func(c cid.Cid)
	walk = func(c cid.Cid) {
		if present[c] {
			return
		}
		if _, ok := s.Get(c); !ok {
			dangling = append(dangling, c)
			return
		}
		present[c] = true
		bi, err := s.Decode(c)
		if err != nil {
			return
		}
		for _, l := range bi.Links {
			walk(l.Cid)
		}
	}
	walk(c)
	return
}
