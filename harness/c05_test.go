package harness

// C05 - lazy ('unixfs') access fetches only the blocks the request needs.

import (
	"bytes"
	"context"
	"fmt"
	"github.com/ipfs/go-unixfsnode/file"
	dagpb "github.com/ipld/go-codec-dagpb"
	"io"
	"strings"
	"sync"
	"testing"

	"github.com/ipfs/go-cid"
	"github.com/ipfs/go-unixfsnode"
	"github.com/ipld/go-ipld-prime"
	"github.com/ipld/go-ipld-prime/datamodel"
	"github.com/ipld/go-ipld-prime/node/basicnode"
	"github.com/ipld/go-ipld-prime/traversal"
	"github.com/ipld/go-ipld-prime/traversal/selector"
	sbuilder "github.com/ipld/go-ipld-prime/traversal/selector/builder"
	"pgregory.net/rapid"
)

func genRange(t *rapid.T, fc *fileCase) (int64, int64) {
	n := int64(len(fc.Data))
	pt := func(label string) int64 {
		if rapid.Bool().Draw(t, label+"onb") {
			b := fc.boundaries()
			v := b[rapid.IntRange(0, len(b)-1).Draw(t, label+"b")] + int64(rapid.IntRange(-1, 1).Draw(t, label+"d"))
			if v < 0 {
				v = 0
			}
			if v > n {
				v = n
			}
			return v
		}
		return int64(rapid.IntRange(0, int(n)).Draw(t, label))
	}
	a, b := pt("a"), pt("b")
	if a > b {
		a, b = b, a
	}
	if a == b {
		if b < n {
			b++
		} else {
			a--
		}
	}
	return a, b
}

// genFileOrHand: mostly files written by the builders, sometimes a hand-assembled one (no empty chunks; File- and
// Raw-typed nodes mixed), which no writer at hand produces but every reader accepts.
func genFileOrHand(t *rapid.T, minLen, maxLen int) *fileCase {
	if rapid.IntRange(0, 4).Draw(t, "hand") == 0 {
		mc := 1
		if minLen > 1 {
			mc = 3
		}
		return genHandFileDAGOpt(t, handOpts{NoEmpty: true, MinChunk: mc, SpareBlockSize: true, NoFileSizeOK: true})
	}
	return genFileDAG(t, minLen, maxLen)
}

func subsetOf(log []cid.Cid, want map[cid.Cid]bool) (cid.Cid, bool) {
	for _, c := range log {
		if !want[c] {
			return c, false
		}
	}
	return cid.Undef, true
}

const c05FileRule = "case = (file DAG of any shape, byte range [a,b) with a<b and edges drawn on / next to chunk boundaries); read by Seek(a)+ReadFull(b-a) on a lazily reified node and by a traversal with InterpretAs(unixfs, MatcherSubset(a,b)); " +
	"oracle = independent span model: requested blocks must equal {blocks whose span intersects [a,b)} (subset for the traversal), and the bytes must be content[a:b]; non-trivial = multi-level file and range strictly inside it touching a chunk boundary; distinct by (writer, depth, leaves, alignment class)"

func TestC05_P_FileRange(t *testing.T) {
	ev := newEvid(t, c05FileRule)
	rapid.Check(t, func(t *rapid.T) {
		fc := genFileOrHand(t, 1, 300)
		a, b := genRange(t, fc)
		ls := fc.St.LinkSystem()
		want := map[cid.Cid]bool{}
		fc.Tree.Needed(a, b, want)

		// (1) Seek + ReadFull on a lazily reified node
		pn, err := loadPlain(ls, fc.Root)
		if err != nil {
			t.Fatal(err)
		}
		fc.St.ResetLogs()
		// sometimes the k-th block load of the range read fails once (a transient storage error): whatever the outcome,
		// a fault is no licence to fetch blocks outside the range
		faultAt := 0
		if rapid.IntRange(0, 3).Draw(t, "withFault") == 0 {
			faultAt = rapid.IntRange(1, len(want)+1).Draw(t, "faultAt")
			fc.St.FaultKind = genFaultKind(t)
			fc.St.FailReadAt = faultAt
		}
		var got []byte
		// mostly through Reify; sometimes through the file package's constructor handed the root block decoded into a
		// generic (basicnode) tree instead of the typed dag-pb node - the constructor takes any ipld.Node
		viaGeneric := rapid.IntRange(0, 4).Draw(t, "genericRoot") == 0
		must(t, "lazy range read", func() {
			var rn datamodel.Node
			if viaGeneric {
				raw, _ := fc.St.Get(fc.Root)
				nb := basicnode.Prototype.Any.NewBuilder()
				if fc.Root.Prefix().Codec != codecDagPB {
					viaGeneric = false
				} else if err = dagpb.Decode(nb, bytes.NewReader(raw)); err != nil {
					return
				}
				if viaGeneric {
					rn, err = file.NewUnixFSFile(context.Background(), nb.Build(), ls)
				}
			}
			if !viaGeneric {
				rn, err = unixfsnode.Reify(ipld.LinkContext{}, pn, ls)
			}
			if err != nil {
				return
			}
			var rs io.ReadSeeker
			rs, err = rn.(datamodel.LargeBytesNode).AsLargeBytes()
			if err != nil {
				return
			}
			if _, err = rs.Seek(a, io.SeekStart); err != nil {
				return
			}
			got = make([]byte, b-a)
			_, err = io.ReadFull(rs, got)
		})
		fc.St.FailReadAt = 0
		faulted := faultAt != 0 && err != nil && isInjected(err)
		if err != nil && !faulted {
			t.Fatalf("C05 [%s] range [%d,%d): %v", fc.Desc, a, b, err)
		}
		if !faulted && !bytes.Equal(got, fc.Data[a:b]) {
			t.Fatalf("C05 [%s] range [%d,%d): wrong bytes", fc.Desc, a, b)
		}
		log := fc.St.ReadLog()
		if c, ok := subsetOf(log, want); !ok {
			t.Fatalf("C05 [%s] range [%d,%d) (transient fault at load #%d, outcome err=%v): over-fetch of block %s (requested %v, needed %d blocks)", fc.Desc, a, b, faultAt, err, c, shortCids(log), len(want))
		}
		gotSet := cidSet(log)
		for c := range want {
			if !faulted && c != fc.Root && !gotSet[c] {
				t.Fatalf("C05 [%s] range [%d,%d): needed block %s was never requested although the bytes were returned", fc.Desc, a, b, c)
			}
		}

		// (2) traversal with a subset matcher through the lazy ADL
		ssb := sbuilder.NewSelectorSpecBuilder(basicnode.Prototype.Any)
		sel, err := ssb.ExploreInterpretAs("unixfs", ssb.MatcherSubset(a, b)).Selector()
		if err != nil {
			t.Fatal(err)
		}
		fc.St.ResetLogs()
		var sub []byte
		matches := 0
		must(t, "subset traversal", func() {
			prog := traversal.Progress{Cfg: &traversal.Config{LinkSystem: *ls, LinkTargetNodePrototypeChooser: protoChooser}}
			err = prog.WalkMatching(pn, sel, func(p traversal.Progress, n datamodel.Node) error {
				matches++
				var e error
				sub, e = n.AsBytes()
				return e
			})
		})
		if err != nil {
			t.Fatalf("C05 [%s] subset traversal [%d,%d): %v", fc.Desc, a, b, err)
		}
		if matches != 1 || !bytes.Equal(sub, fc.Data[a:b]) {
			t.Fatalf("C05 [%s] subset traversal [%d,%d): %d matches, %d bytes", fc.Desc, a, b, matches, len(sub))
		}
		if c, ok := subsetOf(fc.St.ReadLog(), want); !ok {
			t.Fatalf("C05 [%s] subset traversal [%d,%d): over-fetch of block %s", fc.Desc, a, b, c)
		}

		onb := false
		for _, x := range fc.boundaries() {
			if x != 0 && (x == a || x == b) {
				onb = true
			}
		}
		align := "unaligned"
		if onb {
			align = "on-boundary"
		}
		inside := a > 0 && b < int64(len(fc.Data))
		nt := fc.Tree.Depth() >= 3 && inside && onb
		ev.Case(fmt.Sprintf("%s d=%d l=%s %s in=%v", fc.Writer, fc.Tree.Depth(), bucket(fc.Tree.Leaves()), align, inside), nt,
			"writer:"+fc.Writer, fmt.Sprintf("depth:%d", fc.Tree.Depth()), align, fmt.Sprintf("needed:%s/total:%s", bucket(len(want)), bucket(len(fc.Tree.PreOrder()))))
		ev.Sample(map[string]any{"file": fc.Desc, "a": a, "b": b, "needed_blocks": len(want), "total_blocks": len(fc.Tree.PreOrder())})
	})
}

const c05HamtRule = "case = (sharded directory from the C02 name generator incl. hash-collision groups, fanout, a member or non-member name); lookup on a freshly reified (cold cache) root; " +
	"oracle = independent murmur3 hash-path model: the set of requested blocks must equal the child shards on the name's hash path; non-trivial = hash path with >= 2 child shards or a non-member probe below the root; distinct by (fanout, depth, path length, member?)"

func TestC05_P_HamtLookup(t *testing.T) {
	ev := newEvid(t, c05HamtRule)
	maxN := scale(300, 2000)
	rapid.Check(t, func(t *rapid.T) {
		names, _, fanout := genNamesFanout(t, nameOpts{Max: maxN})
		if len(names) == 0 {
			names = []string{"only"}
		}
		es := make([]entrySpec, len(names))
		for i, n := range names {
			es[i] = entryFor(n, 0)
		}
		st := NewStore()
		root, _, err := buildSharded(st, es, fanout)
		if err != nil {
			t.Fatalf("build: %v", err)
		}
		tree, err := st.ShardTree(root)
		if err != nil {
			t.Fatal(err)
		}
		ls := st.LinkSystem()
		pn, err := loadPlain(ls, root)
		if err != nil {
			t.Fatal(err)
		}
		probes := genNonMembers(t, names, fanout)[:6]
		for i := 0; i < 6; i++ {
			probes = append(probes, names[rapid.IntRange(0, len(names)-1).Draw(t, "member")])
		}
		member := map[string]cid.Cid{}
		for _, e := range es {
			member[e.Name] = e.Cid
		}
		for _, name := range probes {
			st.ResetLogs()
			var v datamodel.Node
			var lerr error
			must(t, "cold lookup", func() {
				var rn datamodel.Node
				rn, err = unixfsnode.Reify(ipld.LinkContext{}, pn, ls) // fresh node: cold shard cache
				if err != nil {
					return
				}
				v, lerr = rn.LookupByString(name)
			})
			if err != nil {
				t.Fatalf("reify: %v", err)
			}
			wantPath := tree.HashPath(name)
			log := st.ReadLog()
			// set comparison (request order and repetition are C20's subject, not C05's)
			if c, ok := subsetOf(log, cidSet(wantPath)); !ok {
				t.Fatalf("C05 hamt fanout=%d n=%d lookup %q: requested %s which is not on the name's hash path (requested %v, hash path %v)", fanout, len(names), name, c, shortCids(log), shortCids(wantPath))
			}
			if c, ok := subsetOf(wantPath, cidSet(log)); !ok {
				t.Fatalf("C05 hamt fanout=%d n=%d lookup %q: shard %s on the hash path was never requested (requested %v)", fanout, len(names), name, c, shortCids(log))
			}
			if w, ok := member[name]; ok {
				if c, e := linkOf(v); lerr != nil || e != nil || c != w {
					t.Fatalf("C05 hamt lookup %q: %v %v", name, lerr, e)
				}
			} else if lerr == nil {
				t.Fatalf("C05 hamt lookup of non-member %q succeeded", name)
			}
			// the same lookup while one shard of the hash path cannot be loaded (for good, or once), through any of the entry
			// points: a fault is no licence to ask for shards off the path
			if len(wantPath) > 0 {
				st.ResetLogs()
				bad := wantPath[len(name)%len(wantPath)]
				if len(name)%2 == 0 {
					st.Missing = map[cid.Cid]bool{bad: true}
				} else {
					st.FailReadAt = 1 + len(name)%len(wantPath)
				}
				ep := len(name) % 5
				must(t, "lookup under a fault", func() {
					rn, e := unixfsnode.Reify(ipld.LinkContext{}, pn, ls)
					if e != nil {
						return
					}
					switch ep {
					case 0:
						_, _ = rn.LookupByString(name)
					case 1:
						_, _ = rn.LookupByNode(basicnode.NewString(name))
					case 2:
						_, _ = rn.LookupBySegment(datamodel.PathSegmentOfString(name))
					case 3:
						_, _ = rn.LookupByNode(pbString(name))
					default:
						_ = rn.(nativeDir).Lookup(pbString(name))
					}
				})
				st.Missing, st.FailReadAt = map[cid.Cid]bool{}, 0
				if c, ok := subsetOf(st.ReadLog(), cidSet(wantPath)); !ok {
					t.Fatalf("C05 hamt fanout=%d n=%d lookup %q (entry point %d: 0 string, 1 node, 2 segment, 3 typed key, 4 typed accessor) with a shard of its hash path failing: requested %s which is not on the hash path (requested %d blocks, the path has %d)", fanout, len(names), name, ep, c, len(cidSet(st.ReadLog())), len(wantPath))
				}
			}
			_, isM := member[name]
			nt := len(wantPath) >= 2 || (!isM && len(wantPath) >= 1)
			ev.Case(fmt.Sprintf("f=%d d=%d p=%d m=%v", fanout, tree.Depth(), len(wantPath), isM), nt,
				fmt.Sprintf("pathlen:%s", bucket(len(wantPath))), fmt.Sprintf("member:%v", isM), fmt.Sprintf("fanout:%d", fanout))
		}
		ev.Sample(map[string]any{"fanout": fanout, "entries": len(names), "depth": tree.Depth(), "shards": len(tree.AllShards()), "probe": probes[len(probes)-1], "probe_path_len": len(tree.HashPath(probes[len(probes)-1]))})
	})
}

const c05PathRule = "case = (tree of files / plain dirs / sharded dirs, a root-to-node path rendered with drawn slashes, or the same path with a bogus trailing segment); resolved with UnixFSPathSelector (lazy match); " +
	"oracle = model path blocks (root, per directory the shards on the segment's hash path, each entry's root block): the set of requested blocks must equal exactly that set; non-trivial = path crosses a sharded directory with a child shard on the hash path; distinct by (segment count, kinds along the path, bogus?)"

func TestC05_P_PathResolution(t *testing.T) {
	ev := newEvid(t, c05PathRule)
	rapid.Check(t, func(t *rapid.T) {
		root := genTree(t, 3, scale(8, 14))
		st := NewStore()
		if err := root.build(st); err != nil {
			t.Fatalf("build tree: %v", err)
		}
		segs, nodes := genWalk(t, root)
		bogus := rapid.IntRange(0, 4).Draw(t, "bogus") == 0 && nodes[len(nodes)-1].Dir
		want, err := pathBlocks(st, nodes, segs)
		if err != nil {
			t.Fatal(err)
		}
		if bogus {
			seg := "no-such-entry"
			last := nodes[len(nodes)-1]
			if last.Sharded {
				tr, _ := st.ShardTree(last.Root)
				want = append(want, tr.HashPath(seg)...)
			}
			segs = append(append([]string{}, segs...), seg)
		}
		path, style := renderPath(t, segs)
		ls := st.LinkSystem()
		// other selectors asked for earlier in this process - for the very same path, with a greedy target - leave nothing
		// behind that changes the lazy one
		if prior := rapid.IntRange(0, 3).Draw(t, "priorSelectors"); prior > 0 {
			ssb := sbuilder.NewSelectorSpecBuilder(basicnode.Prototype.Any)
			targets := []sbuilder.SelectorSpec{unixfsnode.ExploreAllRecursivelySelector, unixfsnode.MatchUnixFSPreloadSelector, unixfsnode.MatchUnixFSEntitySelector, ssb.ExploreRecursive(selector.RecursionLimitNone(), ssb.ExploreAll(ssb.ExploreRecursiveEdge()))}
			for i := 0; i < prior; i++ {
				_ = unixfsnode.UnixFSPathSelectorBuilder(path, targets[(i+len(path))%len(targets)], false)
			}
		}
		sel, err := selector.CompileSelector(unixfsnode.UnixFSPathSelector(path))
		if err != nil {
			t.Fatal(err)
		}
		st.ResetLogs()
		pn, err := loadPlain(ls, root.Root)
		if err != nil {
			t.Fatal(err)
		}
		matches := 0
		must(t, "path traversal", func() {
			prog := traversal.Progress{Cfg: &traversal.Config{LinkSystem: *ls, LinkTargetNodePrototypeChooser: protoChooser}}
			err = prog.WalkMatching(pn, sel, func(p traversal.Progress, n datamodel.Node) error { matches++; return nil })
		})
		if err != nil {
			t.Fatalf("C05 path %q: traversal error %v", path, err)
		}
		log := st.ReadLog()
		if c, ok := subsetOf(log, cidSet(want)); !ok {
			t.Fatalf("C05 path %q (bogus=%v): requested %s which is not on the path (requested %v, path blocks %v)", path, bogus, c, shortCids(log), shortCids(want))
		}
		if c, ok := subsetOf(want, cidSet(log)); !ok {
			t.Fatalf("C05 path %q (bogus=%v): path block %s was never requested (requested %v)", path, bogus, c, shortCids(log))
		}
		if (bogus && matches != 0) || (!bogus && matches != 1) {
			t.Fatalf("C05 path %q (bogus=%v): %d matches", path, bogus, matches)
		}
		kinds := ""
		crossesShard := false
		for i, nd := range nodes {
			switch {
			case !nd.Dir:
				kinds += "f"
			case nd.Sharded:
				kinds += "h"
				if i < len(segs) {
					tr, _ := st.ShardTree(nd.Root)
					if len(tr.HashPath(segs[i])) > 0 {
						crossesShard = true
					}
				}
			default:
				kinds += "d"
			}
		}
		cs := ""
		if crossesShard {
			cs = "crosses-child-shard"
		}
		ev.Case(fmt.Sprintf("n=%d %s bogus=%v", len(segs), kinds, bogus), crossesShard, "kinds:"+kinds, "slashes:"+style, fmt.Sprintf("bogus:%v", bogus), cs)
		ev.Sample(map[string]any{"path": path, "kinds": kinds, "bogus": bogus, "tree_entities": root.count(), "blocks_requested": len(log), "blocks_in_store": st.Len()})
	})
}

const c05HistRule = "case = (file DAG, 1..2 readers from one lazily reified node, a history of 2..7 (reader, Seek(a) via a drawn whence, ReadFull(n)) steps with ranges aimed at chunk boundaries, forward and backward); " +
	"oracle = after every step the cumulative request log must stay inside the union of the blocks whose span intersects any range read so far (plus the bytes being right), and at the end every needed block was requested; " +
	"non-trivial = >= 3 steps on a multi-level file with at least one forward seek over a whole chunk after a read; distinct by (writer, depth, steps, readers, forward-skip?)"

// TestC05_P_FileRangeHistory: laziness must hold across a history of seeks and reads on used readers, not only for a
// fresh Seek+Read (a reader that skips forward by reading and discarding would fetch blocks nobody asked for).
func TestC05_P_FileRangeHistory(t *testing.T) {
	ev := newEvid(t, c05HistRule)
	rapid.Check(t, func(t *rapid.T) {
		fc := genFileOrHand(t, 8, 300)
		ls := fc.St.LinkSystem()
		pn, err := loadPlain(ls, fc.Root)
		if err != nil {
			t.Fatal(err)
		}
		fc.St.ResetLogs()
		rn, err := unixfsnode.Reify(ipld.LinkContext{}, pn, ls)
		if err != nil {
			t.Fatalf("reify: %v", err)
		}
		nreaders := rapid.IntRange(1, 2).Draw(t, "readers")
		type rd struct {
			rs  io.ReadSeeker
			pos int64
		}
		var readers []*rd
		for i := 0; i < nreaders; i++ {
			rs, err := rn.(datamodel.LargeBytesNode).AsLargeBytes()
			if err != nil {
				t.Fatal(err)
			}
			readers = append(readers, &rd{rs: rs})
		}
		want := map[cid.Cid]bool{}
		steps := rapid.IntRange(2, 7).Draw(t, "steps")
		forwardSkip, readAtEnd, bareSeek := false, false, false
		n := int64(len(fc.Data))
		for s := 0; s < steps; s++ {
			r := readers[rapid.IntRange(0, nreaders-1).Draw(t, "reader")]
			if rapid.IntRange(0, 4).Draw(t, "bareSeek") == 0 {
				// a Seek that is not followed by a read (a consumer that probes the length, or positions and changes its
				// mind): it reads no byte, so it may not request a block either
				target := int64(rapid.IntRange(0, int(n)).Draw(t, "seekTarget"))
				whence := rapid.IntRange(0, 2).Draw(t, "whence")
				off := target
				switch whence {
				case io.SeekCurrent:
					off = target - r.pos
				case io.SeekEnd:
					off = target - n
				}
				var pos int64
				var serr error
				must(t, "bare seek", func() { pos, serr = r.rs.Seek(off, whence) })
				if serr != nil || pos != target {
					t.Fatalf("C05 [%s] step %d: Seek(%d, %d) from %d = (%d, %v), want %d", fc.Desc, s, off, whence, r.pos, pos, serr, target)
				}
				r.pos = target
				if c, ok := subsetOf(fc.St.ReadLog(), want); !ok {
					t.Fatalf("C05 [%s] step %d: a Seek to %d (whence %d) that was not followed by any read requested block %s, which no range read so far touches", fc.Desc, s, target, whence, c)
				}
				bareSeek = true
				continue
			}
			if rapid.IntRange(0, 5).Draw(t, "readAtEnd") == 0 {
				// a read positioned at or behind the end: [len+d, len+d+k) touches no block, so nothing may be requested
				d := int64(rapid.SampledFrom([]int{0, 0, 1, 1000}).Draw(t, "behindEnd"))
				whence := rapid.IntRange(0, 2).Draw(t, "whence")
				off := n + d
				switch whence {
				case io.SeekCurrent:
					off = n + d - r.pos
				case io.SeekEnd:
					off = d
				}
				buf := make([]byte, rapid.IntRange(1, 40).Draw(t, "k"))
				var got int
				var rerr error
				must(t, "seek to the end + read", func() {
					if _, rerr = r.rs.Seek(off, whence); rerr != nil {
						return
					}
					got, rerr = r.rs.Read(buf)
				})
				if got != 0 || rerr != io.EOF {
					t.Fatalf("C05 [%s] step %d: Read at %d (file has %d bytes) = (%d, %v), want (0, EOF)", fc.Desc, s, n+d, n, got, rerr)
				}
				r.pos = n + d
				if c, ok := subsetOf(fc.St.ReadLog(), want); !ok {
					t.Fatalf("C05 [%s] step %d: a %d-byte Read at %d, at or behind the end of the %d-byte file (whence %d), requested block %s although the range touches no block", fc.Desc, s, len(buf), n+d, n, whence, c)
				}
				readAtEnd = true
				continue
			}
			a, b := genRange(t, fc)
			if b-a > 40 {
				b = a + int64(rapid.IntRange(1, 40).Draw(t, "shorten"))
			}
			whence := rapid.IntRange(0, 2).Draw(t, "whence")
			off := a
			switch whence {
			case io.SeekCurrent:
				off = a - r.pos
			case io.SeekEnd:
				off = a - n
			}
			if r.pos > 0 && a >= r.pos+int64(fc.CS) {
				forwardSkip = true
			}
			buf := make([]byte, b-a)
			var rerr error
			must(t, "seek+read", func() {
				if _, rerr = r.rs.Seek(off, whence); rerr != nil {
					return
				}
				_, rerr = io.ReadFull(r.rs, buf)
			})
			if rerr != nil {
				t.Fatalf("C05 [%s] step %d range [%d,%d): %v", fc.Desc, s, a, b, rerr)
			}
			if !bytes.Equal(buf, fc.Data[a:b]) {
				t.Fatalf("C05 [%s] step %d range [%d,%d): wrong bytes", fc.Desc, s, a, b)
			}
			r.pos = b
			fc.Tree.Needed(a, b, want)
			if c, ok := subsetOf(fc.St.ReadLog(), want); !ok {
				t.Fatalf("C05 [%s] step %d (reader at %d -> range [%d,%d), whence %d): block %s was requested although no range read so far touches it", fc.Desc, s, r.pos, a, b, whence, c)
			}
		}
		got := cidSet(fc.St.ReadLog())
		for c := range want {
			if c != fc.Root && !got[c] {
				t.Fatalf("C05 [%s]: needed block %s never requested", fc.Desc, c)
			}
		}
		fs := ""
		if forwardSkip {
			fs = "forward-skip-after-read"
		}
		if readAtEnd {
			fs += " read-at-end"
		}
		if bareSeek {
			fs += " bare-seek"
		}
		ev.Case(fmt.Sprintf("%s d=%d steps=%d r=%d %s", fc.Writer, fc.Tree.Depth(), steps, nreaders, fs), steps >= 3 && fc.Tree.Depth() >= 3 && forwardSkip,
			"writer:"+fc.Writer, fmt.Sprintf("steps:%d", steps), fmt.Sprintf("readers:%d", nreaders), fs)
		ev.Sample(map[string]any{"file": fc.Desc, "steps": steps, "readers": nreaders, "needed_blocks": len(want), "total_blocks": len(fc.Tree.PreOrder())})
	})
}

// Chunks of the largest size the chunker allows (1 MiB) and its neighbour, distinct contents: a range read must still only
// request the leaves it touches.
func TestC05_R_LargestChunks(t *testing.T) {
	for _, cs := range []int{1048575, 1048576} {
		data := lcgBytes(4*cs+17, byte(cs), 0)
		st := NewStore()
		root, _, err := buildFile(st, data, fmt.Sprintf("size-%d", cs), 174)
		if err != nil {
			t.Fatal(err)
		}
		tree, err := st.FileTree(root, 0)
		if err != nil {
			t.Fatal(err)
		}
		ls := st.LinkSystem()
		for _, r := range [][2]int64{{0, 10}, {int64(cs) - 5, int64(cs) + 5}, {int64(2*cs) + 1, int64(2*cs) + 2}, {int64(4 * cs), int64(4*cs) + 17}, {int64(3*cs) - 1, int64(3 * cs)}} {
			pn, _ := loadPlain(ls, root)
			st.ResetLogs()
			rn, err := unixfsnode.Reify(ipld.LinkContext{}, pn, ls)
			if err != nil {
				t.Fatal(err)
			}
			rs, _ := rn.(datamodel.LargeBytesNode).AsLargeBytes()
			if _, err := rs.Seek(r[0], io.SeekStart); err != nil {
				t.Fatal(err)
			}
			buf := make([]byte, r[1]-r[0])
			if _, err := io.ReadFull(rs, buf); err != nil || !bytes.Equal(buf, data[r[0]:r[1]]) {
				t.Fatalf("C05 largest chunks (size-%d) range %v: read failed: %v", cs, r, err)
			}
			want := map[cid.Cid]bool{}
			tree.Needed(r[0], r[1], want)
			if c, ok := subsetOf(st.ReadLog(), want); !ok {
				t.Fatalf("C05 largest chunks (size-%d) range [%d,%d): block %s requested although the range does not touch it (%d requested, %d needed)", cs, r[0], r[1], c, len(st.ReadLog()), len(want)-1)
			}
		}
	}
}

// ---------------------------------------------------------------- nodes over raw leaves that record no BlockSizes

const c05RawOldRule = "case = (hand-made file whose leaves are raw blocks, with empty chunks, where the nodes directly above the leaves may record no BlockSizes - a raw leaf's size is its link's Tsize, nothing has to be opened to learn it; byte range [a,b)); read by Seek(a)+ReadFull(b-a) on a lazily reified node and by the subset-matcher traversal; " +
	"oracle = span model: no block outside {blocks whose span intersects [a,b)} + {empty chunks, and nodes over empty chunks only, lying at a position in [a,b]} is requested, every non-empty chunk in the range is, bytes = content[a:b]; non-trivial = a node without BlockSizes and an empty chunk outside the range; distinct by (writer, alignment)"

func TestC05_P_RawLeafNodesWithoutBlockSizes(t *testing.T) {
	ev := newEvid(t, c05RawOldRule)
	rapid.Check(t, func(t *rapid.T) {
		fc := genHandFileDAGOpt(t, handOpts{MinChunk: 2, SpareBlockSize: true, NoFileSizeOK: true, RawOldStyle: true})
		if len(fc.Data) == 0 {
			t.Skip("no bytes to range over")
		}
		a, b := genRange(t, fc)
		ls := fc.St.LinkSystem()
		allowed, required := map[cid.Cid]bool{}, map[cid.Cid]bool{}
		fc.Tree.Needed(a, b, allowed)
		emptyOutside := false
		for _, n := range fc.Tree.All() {
			if len(n.Kids) == 0 && n.Start != n.End && allowed[n.Cid] {
				required[n.Cid] = true
			}
		}
		for _, n := range fc.Tree.All() {
			if n.Start == n.End { // an empty chunk, or a node over nothing but empty chunks
				if n.Start >= a && n.Start <= b {
					allowed[n.Cid] = true
				} else if !allowed[n.Cid] {
					emptyOutside = true
				}
			}
		}
		pn, err := loadPlain(ls, fc.Root)
		if err != nil {
			t.Fatal(err)
		}
		fc.St.ResetLogs()
		var got []byte
		must(t, "lazy range read", func() {
			var rn datamodel.Node
			rn, err = unixfsnode.Reify(ipld.LinkContext{}, pn, ls)
			if err != nil {
				return
			}
			var rs io.ReadSeeker
			rs, err = rn.(datamodel.LargeBytesNode).AsLargeBytes()
			if err != nil {
				return
			}
			if _, err = rs.Seek(a, io.SeekStart); err != nil {
				return
			}
			got = make([]byte, b-a)
			_, err = io.ReadFull(rs, got)
		})
		if err != nil || !bytes.Equal(got, fc.Data[a:b]) {
			t.Fatalf("C05 [%s] range [%d,%d): err=%v, %d bytes", fc.Desc, a, b, err, len(got))
		}
		log := fc.St.ReadLog()
		if c, ok := subsetOf(log, allowed); !ok {
			t.Fatalf("C05 [%s] range [%d,%d): over-fetch of block %s (requested %v, the range needs %d blocks)", fc.Desc, a, b, c, shortCids(log), len(allowed))
		}
		gotSet := cidSet(log)
		for c := range required {
			if !gotSet[c] {
				t.Fatalf("C05 [%s] range [%d,%d): chunk %s of the range was never requested although the bytes were returned", fc.Desc, a, b, c)
			}
		}
		ssb := sbuilder.NewSelectorSpecBuilder(basicnode.Prototype.Any)
		sel, err := ssb.ExploreInterpretAs("unixfs", ssb.MatcherSubset(a, b)).Selector()
		if err != nil {
			t.Fatal(err)
		}
		fc.St.ResetLogs()
		var sub []byte
		matches := 0
		must(t, "subset traversal", func() {
			prog := traversal.Progress{Cfg: &traversal.Config{LinkSystem: *ls, LinkTargetNodePrototypeChooser: protoChooser}}
			err = prog.WalkMatching(pn, sel, func(p traversal.Progress, n datamodel.Node) error {
				matches++
				var e error
				sub, e = n.AsBytes()
				return e
			})
		})
		if err != nil || matches != 1 || !bytes.Equal(sub, fc.Data[a:b]) {
			t.Fatalf("C05 [%s] subset traversal [%d,%d): err=%v, %d matches, %d bytes", fc.Desc, a, b, err, matches, len(sub))
		}
		if c, ok := subsetOf(fc.St.ReadLog(), allowed); !ok {
			t.Fatalf("C05 [%s] subset traversal [%d,%d): over-fetch of block %s", fc.Desc, a, b, c)
		}
		noBS := strings.Contains(fc.Writer, "-bs=false-")
		ev.Case(fmt.Sprintf("%s in=%v eo=%v", fc.Writer, a > 0 && b < int64(len(fc.Data)), emptyOutside), noBS && emptyOutside,
			fmt.Sprintf("blocksizes:%v", !noBS), fmt.Sprintf("emptyChunkOutsideRange:%v", emptyOutside), fmt.Sprintf("depth:%d", fc.Tree.Depth()))
		ev.Sample(map[string]any{"file": fc.Desc, "a": a, "b": b, "allowed_blocks": len(allowed), "total_blocks": len(fc.Tree.PreOrder())})
	})
}

// Laziness does not depend on who else is using the node: eight goroutines make their first range read on one freshly
// opened file node with thousands of dag-pb children (recorded BlockSizes) at the same moment; together they fetch no
// block outside their ranges.
func TestC05_R_ConcurrentFirstRangeReadsOnAWideNode(t *testing.T) {
	const nl = 20000
	root := &mnode{HasData: true, UFS: &ufsFields{Type: 2}}
	var data []byte
	for i := 0; i < nl; i++ {
		c := []byte{byte(i), byte(i >> 8)}
		data = append(data, c...)
		root.Links = append(root.Links, mlink{Tsize: i64p(10), Child: &mnode{HasData: true, UFS: &ufsFields{Type: 2, HasData: true, Data: c, FileSize: u64p(2)}}})
		root.UFS.BlockSizes = append(root.UFS.BlockSizes, 2)
	}
	root.UFS.FileSize = u64p(uint64(len(data)))
	st := NewStore()
	st.Yield = true
	ls := st.LinkSystem()
	rc, err := root.store(st, ls)
	if err != nil {
		t.Fatal(err)
	}
	tree, err := st.FileTree(rc, 0)
	if err != nil {
		t.Fatal(err)
	}
	const G = 8
	for trial := 0; trial < 5; trial++ {
		rn, err := loadReified(ls, rc, "unixfs")
		if err != nil {
			t.Fatal(err)
		}
		st.ResetLogs()
		allowed := map[cid.Cid]bool{}
		offs := make([]int64, G)
		for g := range offs {
			offs[g] = int64(len(data)) - 7 - int64(g*(trial%2)*4001)
			tree.Needed(offs[g], offs[g]+7, allowed)
		}
		errs := make([]string, G)
		var wg sync.WaitGroup
		start := make(chan struct{})
		for g := 0; g < G; g++ {
			wg.Add(1)
			go func(g int) {
				defer wg.Done()
				<-start
				rs, err := rn.(datamodel.LargeBytesNode).AsLargeBytes()
				if err != nil {
					errs[g] = err.Error()
					return
				}
				if _, err := rs.Seek(offs[g], io.SeekStart); err != nil {
					errs[g] = err.Error()
					return
				}
				buf := make([]byte, 7)
				if _, err := io.ReadFull(rs, buf); err != nil || !bytes.Equal(buf, data[offs[g]:offs[g]+7]) {
					errs[g] = fmt.Sprintf("read at %d: %x, %v", offs[g], buf, err)
				}
			}(g)
		}
		close(start)
		wg.Wait()
		for _, e := range errs {
			if e != "" {
				t.Fatalf("C05: concurrent first range reads on a %d-link node: %s", nl, e)
			}
		}
		log := st.ReadLog()
		if c, ok := subsetOf(log, allowed); !ok {
			t.Fatalf("C05: %d goroutines making their first range read (7 bytes each) on one fresh node of %d dag-pb children (trial %d): %d blocks were requested, among them %s which no range needs (the ranges need %d blocks)", G, nl, trial, len(cidSet(log)), c, len(allowed))
		}
	}
}

// A node that records FileSize 0 (and nothing else) over empty dag-pb children: its length is on record - asking for the
// end, or positioning a read at the end, requests none of the children.
func TestC05_R_RecordedZeroLengthNeedsNoBlocks(t *testing.T) {
	empty := func(i int) *mnode {
		return &mnode{HasData: true, UFS: &ufsFields{Type: 2, FileSize: u64p(0), Mode: u64p(uint64(0o600 + i))}}
	}
	root := &mnode{HasData: true, UFS: &ufsFields{Type: 2, FileSize: u64p(0)}}
	for i := 0; i < 3; i++ {
		root.Links = append(root.Links, mlink{Tsize: i64p(8), Child: empty(i)})
	}
	st := NewStore()
	ls := st.LinkSystem()
	rc, err := root.store(st, ls)
	if err != nil {
		t.Fatal(err)
	}
	rn, err := loadReified(ls, rc, "unixfs")
	if err != nil {
		t.Fatal(err)
	}
	st.ResetLogs()
	rs, err := rn.(datamodel.LargeBytesNode).AsLargeBytes()
	if err != nil {
		t.Fatal(err)
	}
	if end, err := rs.Seek(0, io.SeekEnd); err != nil || end != 0 {
		t.Fatalf("C05: Seek(0, End) on a node recording FileSize 0 = %d, %v", end, err)
	}
	if log := st.ReadLog(); len(log) != 0 {
		t.Fatalf("C05: asking a node that records FileSize 0 for its end requested %d blocks (%v): the length is on record", len(log), shortCids(log))
	}
}
