package harness

// C16 - builders store children before parents and fail cleanly when a write fails.
// Generation over builds; exhaustive enumeration of (k-th write open) x (open | write | commit) faults per build.

import (
	"bytes"
	"fmt"
	"testing"

	"github.com/ipfs/go-cid"
	"github.com/ipfs/go-unixfsnode/data/builder"
	quickbuilder "github.com/ipfs/go-unixfsnode/data/builder/quick"
	"github.com/ipld/go-ipld-prime"
	"github.com/ipld/go-ipld-prime/datamodel"
	"pgregory.net/rapid"
)

type c16Build struct {
	desc string
	run  func(st *Store) (datamodel.Link, uint64, error)
}

// commitOrderOK checks: for every committed block b and every link target t that this build produces,
// firstCommit(t) < firstCommit(b).
func commitOrderOK(st *Store, produced map[cid.Cid]bool) error {
	first := map[cid.Cid]int{}
	for i, c := range st.Commits {
		if _, ok := first[c]; !ok {
			first[c] = i
		}
	}
	for c, i := range first {
		bi, err := st.Decode(c)
		if err != nil {
			return err
		}
		for _, l := range bi.Links {
			if !produced[l.Cid] {
				continue
			}
			j, ok := first[l.Cid]
			if !ok {
				return fmt.Errorf("block %s (commit #%d) links to builder-written block %s which was never committed: dangling link", c, i, l.Cid)
			}
			if j > i {
				return fmt.Errorf("block %s was committed (#%d) before its child %s (#%d)", c, i, l.Cid, j)
			}
		}
	}
	return nil
}

const c16Rule = "case = a build (file of any shape incl. empty / single chunk, symlink, plain dir, deep sharded dir, quick builder, recursive import of an on-disk tree); run fault-free once to learn the N write opens, then re-run with EVERY single fault (k in 1..N) x (open | first write | commit); " +
	"oracle = commit log: every committed block's builder-written link targets were committed earlier (no dangling link at any prefix, checked on each faulted run's partial store too); a faulted build returns err != nil AND a nil link; a fault-free build returns a link whose whole DAG is stored; " +
	"non-trivial = build with >= 3 levels, and every faulted run; distinct by (kind, blocks bucket, fault stage, fault position class)"

func TestC16_P_WriteOrderAndFaults(t *testing.T) {
	ev := newEvid(t, c16Rule)
	rapid.Check(t, func(t *rapid.T) {
		kind := rapid.SampledFrom([]string{"file", "file", "symlink", "plain", "sharded", "sharded", "quick", "recursive"}).Draw(t, "kind")
		var b c16Build
		var fsroot *fsNode
		ext := map[cid.Cid]bool{}
		switch kind {
		case "file":
			w := rapid.IntRange(2, 4).Draw(t, "w")
			cs := rapid.IntRange(1, 9).Draw(t, "cs")
			n := rapid.SampledFrom([]int{0, 1, cs, cs + 1, w * cs, w*cs + 1, w * w * cs, w*w*cs + 1, 60}).Draw(t, "len")
			content := fillContent(t, n, cs)
			b = c16Build{fmt.Sprintf("file len=%d cs=%d w=%d", n, cs, w), func(st *Store) (l datamodel.Link, sz uint64, err error) {
				withWidth(w, func() {
					l, sz, err = builder.BuildUnixFSFile(bytes.NewReader(content), fmt.Sprintf("size-%d", cs), st.LinkSystem())
				})
				return
			}}
		case "symlink":
			target := rapid.SampledFrom(fsTargets).Draw(t, "target")
			b = c16Build{fmt.Sprintf("symlink %q", target), func(st *Store) (datamodel.Link, uint64, error) {
				return builder.BuildUnixFSSymlink(target, st.LinkSystem())
			}}
		case "recursive":
			fsroot = genFSRootDir(t, 2, false)
			b = c16Build{fmt.Sprintf("recursive import of %d entities", fsroot.count()), nil}
		default:
			names, _ := genNames(t, nameOpts{Max: 80})
			fanout := rapid.SampledFrom([]int{8, 8, 16, 256}).Draw(t, "fanout")
			es := make([]entrySpec, len(names))
			for i, n := range names {
				es[i] = entryFor(n, 1)
				ext[es[i].Cid] = true
			}
			how := kind
			b = c16Build{fmt.Sprintf("%s dir n=%d fanout=%d", kind, len(es), fanout), func(st *Store) (datamodel.Link, uint64, error) {
				switch how {
				case "plain":
					return builder.BuildUnixFSDirectory(pbEntries(es), st.LinkSystem())
				case "sharded":
					return builder.BuildUnixFSShardedDirectory(fanout, 0x22, pbEntries(es), st.LinkSystem())
				}
				c, sz, err := c02Build(st, es, "quick", fanout)
				if err != nil {
					return nil, 0, err
				}
				return cidLink(c), sz, nil
			}}
		}
		body := func(fsPath string) {
			if kind == "recursive" {
				b.run = func(st *Store) (datamodel.Link, uint64, error) {
					return builder.BuildUnixFSRecursive(fsPath, st.LinkSystem())
				}
			}
			// fault-free run
			clean := NewStore()
			var link datamodel.Link
			var err error
			must(t, b.desc, func() { link, _, err = b.run(clean) })
			if err != nil || link == nil {
				t.Fatalf("C16 [%s]: fault-free build failed: link=%v err=%v", b.desc, link, err)
			}
			produced := map[cid.Cid]bool{}
			for c := range clean.Blocks {
				produced[c] = true
			}
			if err := commitOrderOK(clean, produced); err != nil {
				t.Fatalf("C16 [%s]: %v", b.desc, err)
			}
			_, dangling := clean.Reachable(cidOf(link))
			for _, d := range dangling {
				if !ext[d] {
					t.Fatalf("C16 [%s]: returned link %s but block %s of its DAG was never stored", b.desc, link, d)
				}
			}
			if kind == "recursive" {
				// the same tree imported twice through ONE link system value whose storage is swapped in between (the same
				// importer writing a second CAR): the link returned by the second import is only good if its whole DAG was
				// committed to the second store - whatever the importer remembers from the first run
				first, second := NewStore(), NewStore()
				ls := first.LinkSystem()
				var l1, l2 datamodel.Link
				var e1, e2 error
				must(t, "first of two imports", func() { l1, _, e1 = builder.BuildUnixFSRecursive(fsPath, ls) })
				ls.StorageWriteOpener, ls.StorageReadOpener = second.openWrite, second.openRead
				must(t, "second of two imports", func() { l2, _, e2 = builder.BuildUnixFSRecursive(fsPath, ls) })
				if e1 != nil || e2 != nil || l1 == nil || l2 == nil {
					t.Fatalf("C16 [%s]: two imports through one link system: %v / %v", b.desc, e1, e2)
				}
				if _, dangling := second.Reachable(cidOf(l2)); len(dangling) > 0 {
					t.Fatalf("C16 [%s]: the second import through the same link system (storage swapped in between) returned %s, but block %s of its DAG was never committed to the second store (%d blocks there, %d in the first)", b.desc, l2, dangling[0], second.Len(), first.Len())
				}
				produced2 := map[cid.Cid]bool{}
				for c := range second.Blocks {
					produced2[c] = true
				}
				if err := commitOrderOK(second, produced2); err != nil {
					t.Fatalf("C16 [%s] second import: %v", b.desc, err)
				}
			}
			levels := 1
			if ft, err := clean.FileTree(cidOf(link), 0); err == nil && kind == "file" {
				levels = ft.Depth()
			} else if tr, err := clean.ShardTree(cidOf(link)); err == nil {
				levels = tr.Depth()
			}
			n := clean.Opens
			ev.Case(fmt.Sprintf("%s blocks=%s levels=%d clean", kind, bucket(n), levels), levels >= 3 || (kind == "recursive" && n >= 4), "kind:"+kind, "opens:"+bucket(n))
			if kind == "quick" {
				return // the quick builder's documented behaviour on store errors is to panic: ordering only
			}
			// the value of the injected error: plain, or wrapping a well-known value (io.EOF, fs.ErrNotExist, ...) that
			// builder code may give a meaning of its own in other places - a storage failure must stay a failure
			faultKind := genWriteFaultKind(t)
			for k := 1; k <= n; k++ {
				for stage := 0; stage < 4; stage++ {
					st := NewStore()
					st.FaultKind = faultKind
					stageName := []string{"open", "write", "commit", "write-partial"}[stage]
					switch stage {
					case 0:
						st.FailOpenAt = k
					case 1:
						st.FailWriteAt = k
					case 3:
						st.FailWriteAt = k
						st.PartialWrite = true
					default:
						st.FailCommitAt = k
					}
					var fl datamodel.Link
					var ferr error
					must(t, b.desc+" under fault", func() { fl, _, ferr = b.run(st) })
					if ferr == nil {
						t.Fatalf("C16 [%s]: write #%d of %d failing at %s: build reported success (link %v)", b.desc, k, n, stageName, fl)
					}
					if fl != nil {
						t.Fatalf("C16 [%s]: write #%d of %d failing at %s: build returned the link %v together with the error %q", b.desc, k, n, stageName, fl, ferr)
					}
					if err := commitOrderOK(st, produced); err != nil {
						t.Fatalf("C16 [%s]: write #%d failing at %s: partial store: %v", b.desc, k, stageName, err)
					}
					pos := "interior"
					if k == n {
						pos = "last(root)"
					} else if k == 1 {
						pos = "first"
					}
					ev.Case(fmt.Sprintf("%s blocks=%s %s@%s %s", kind, bucket(n), stageName, pos, faultKindName(faultKind)), true, "fault:"+stageName, "faultpos:"+pos, "faultvalue:"+faultKindName(faultKind))
				}
			}
			ev.Sample(map[string]any{"build": b.desc, "write_opens": n, "faulted_builds": 4 * n, "levels": levels})
		}
		if kind == "recursive" {
			if err := withFSTree(fsroot, body); err != nil {
				t.Fatalf("harness: %v", err)
			}
		} else {
			body("")
		}
	})
}

// F8 (fixed): the only block of an empty file / a symlink fails to commit -> no link may be returned.
func TestC16_R_F8_LinkWithError(t *testing.T) {
	for _, stage := range []string{"open", "write", "commit"} {
		mk := func() *Store {
			st := NewStore()
			switch stage {
			case "open":
				st.FailOpenAt = 1
			case "write":
				st.FailWriteAt = 1
			default:
				st.FailCommitAt = 1
			}
			return st
		}
		l, _, err := builder.BuildUnixFSFile(bytes.NewReader(nil), "", mk().LinkSystem())
		if err == nil || l != nil {
			t.Fatalf("C16 F8: empty file, %s fails: link=%v err=%v", stage, l, err)
		}
		l, _, err = builder.BuildUnixFSSymlink("target", mk().LinkSystem())
		if err == nil || l != nil {
			t.Fatalf("C16 F8: symlink, %s fails: link=%v err=%v", stage, l, err)
		}
		l, _, err = builder.BuildUnixFSFile(bytes.NewReader([]byte("x")), "", mk().LinkSystem())
		if err == nil || l != nil {
			t.Fatalf("C16 F8: one-chunk file, %s fails: link=%v err=%v", stage, l, err)
		}
		l, _, err = builder.BuildUnixFSDirectory(nil, mk().LinkSystem())
		if err == nil || l != nil {
			t.Fatalf("C16 F8: empty dir, %s fails: link=%v err=%v", stage, l, err)
		}
	}
}

// TestC16_P_AutoShardedFaults: a directory large enough to be auto-sharded (estimate above 256 KiB, ~1150 entries) built through
// BuildUnixFSDirectory and the recursive importer's code path, with every single write fault. A fallback from the sharded
// to the plain layout (or anything else that retries) must not turn a failed write into a reported success.
func TestC16_P_AutoShardedFaults(t *testing.T) {
	ev := newEvid(t, "case = ~1150-entry directory whose size estimate is above the auto-shard threshold, built with BuildUnixFSDirectory; fault-free run, then EVERY (k-th write open) x (open | commit) fault (write faults sampled every 7th k); oracle as TestC16_P_WriteOrderAndFaults; every faulted run is non-trivial; distinct by (salt, stage, position class)")
	rapid.Check(t, func(t *rapid.T) {
		salt := rapid.IntRange(0, 9999).Draw(t, "salt")
		es := c02ThresholdPlus(salt, rapid.IntRange(1, 3).Draw(t, "extra"))
		ext := map[cid.Cid]bool{}
		for _, e := range es {
			ext[e.Cid] = true
		}
		entries := pbEntries(es)
		run := func(st *Store) (datamodel.Link, uint64, error) {
			return builder.BuildUnixFSDirectory(entries, st.LinkSystem())
		}
		clean := NewStore()
		link, _, err := run(clean)
		if err != nil || link == nil {
			t.Fatalf("C16 auto-sharded: fault-free build failed: %v", err)
		}
		produced := map[cid.Cid]bool{}
		for c := range clean.Blocks {
			produced[c] = true
		}
		if err := commitOrderOK(clean, produced); err != nil {
			t.Fatalf("C16 auto-sharded: %v", err)
		}
		n := clean.Opens
		if n < 3 {
			t.Fatalf("harness: expected a sharded directory, got %d blocks", n)
		}
		for k := 1; k <= n; k++ {
			for stage := 0; stage < 3; stage++ {
				if stage == 1 && k%7 != 0 {
					continue
				}
				st := NewStore()
				stageName := []string{"open", "write", "commit"}[stage]
				switch stage {
				case 0:
					st.FailOpenAt = k
				case 1:
					st.FailWriteAt = k
				default:
					st.FailCommitAt = k
				}
				var fl datamodel.Link
				var ferr error
				must(t, "auto-sharded build under fault", func() { fl, _, ferr = run(st) })
				if ferr == nil {
					t.Fatalf("C16 auto-sharded directory (%d entries, %d blocks): write #%d failing at %s: build reported success (link %v)", len(es), n, k, stageName, fl)
				}
				if fl != nil {
					t.Fatalf("C16 auto-sharded directory: write #%d failing at %s: link %v returned together with error %q", k, stageName, fl, ferr)
				}
				if err := commitOrderOK(st, produced); err != nil {
					t.Fatalf("C16 auto-sharded directory: write #%d failing at %s: partial store: %v", k, stageName, err)
				}
				pos := "interior"
				if k == n {
					pos = "last(root)"
				}
				ev.Case(fmt.Sprintf("s=%d %s@%s", salt, stageName, pos), true, "fault:"+stageName)
			}
		}
		ev.Sample(map[string]any{"entries": len(es), "write_opens": n})
	})
}

const c16RepointRule = "case = a build (file, symlink, plain / sharded / empty directory, quick builder) run twice through ONE *ipld.LinkSystem whose storage is re-pointed at a fresh store (optionally with a write fault armed) between the two runs; " +
	"oracle = the second run's result obeys the same rules against the second store: a returned link's whole DAG is in THAT store, a fault armed there surfaces as error + nil link, nothing is written to the first store any more; non-trivial = every case; distinct by (kind, size bucket, fault?)"

// TestC16_P_RepointedLinkSystem: builders must write where the link system points now, not where it pointed on an earlier call.
func TestC16_P_RepointedLinkSystem(t *testing.T) {
	ev := newEvid(t, c16RepointRule)
	rapid.Check(t, func(t *rapid.T) {
		kind := rapid.SampledFrom([]string{"file", "emptyfile", "symlink", "plain", "emptydir", "sharded", "quick"}).Draw(t, "kind")
		var es []entrySpec
		ext := map[cid.Cid]bool{}
		if kind == "plain" || kind == "sharded" || kind == "quick" {
			names, _ := genNames(t, nameOpts{Max: 40})
			for _, n := range names {
				e := entryFor(n, 1)
				es = append(es, e)
				ext[e.Cid] = true
			}
		}
		content := lcgBytes(rapid.IntRange(1, 60).Draw(t, "len"), 3, 0)
		fanout := rapid.SampledFrom([]int{8, 16, 256}).Draw(t, "fanout")
		run := func(ls *ipld.LinkSystem) (datamodel.Link, uint64, error) {
			switch kind {
			case "file":
				var l datamodel.Link
				var sz uint64
				var err error
				withWidth(2, func() { l, sz, err = builder.BuildUnixFSFile(bytes.NewReader(content), "size-4", ls) })
				return l, sz, err
			case "emptyfile":
				return builder.BuildUnixFSFile(bytes.NewReader(nil), "", ls)
			case "symlink":
				return builder.BuildUnixFSSymlink("target/of/link", ls)
			case "plain":
				return builder.BuildUnixFSDirectory(pbEntries(es), ls)
			case "emptydir":
				return builder.BuildUnixFSDirectory(nil, ls)
			case "sharded":
				return builder.BuildUnixFSShardedDirectory(fanout, 0x22, pbEntries(es), ls)
			}
			m := map[string]quickbuilder.Node{}
			for _, e := range es {
				m[e.Name] = qbNode{cidLink(e.Cid), int64(e.Tsize)}
			}
			var l datamodel.Link
			var sz int64
			err := quickbuilder.Store(ls, func(b *quickbuilder.Builder) error {
				n := b.NewMapDirectory(m)
				l = n.Link()
				sz, _ = n.Size()
				return nil
			})
			return l, uint64(sz), err
		}
		st1 := NewStore()
		ls := st1.LinkSystem()
		var l1 datamodel.Link
		var err error
		must(t, "first build", func() { l1, _, err = run(ls) })
		if err != nil || l1 == nil {
			t.Fatalf("C16 re-point [%s]: first build failed: %v", kind, err)
		}
		blocks1 := st1.Len()
		st2 := NewStore()
		fault := kind != "quick" && rapid.Bool().Draw(t, "armFault")
		if fault {
			st2.FailCommitAt = 1
		}
		ls.StorageWriteOpener, ls.StorageReadOpener = st2.openWrite, st2.openRead
		var l2 datamodel.Link
		must(t, "second build", func() { l2, _, err = run(ls) })
		if st1.Len() != blocks1 {
			t.Fatalf("C16 re-point [%s]: the second build wrote %d block(s) into the store the link system no longer points at", kind, st1.Len()-blocks1)
		}
		if fault {
			if err == nil || l2 != nil {
				t.Fatalf("C16 re-point [%s]: a commit fault armed on the re-pointed store was ignored: link=%v err=%v", kind, l2, err)
			}
		} else {
			if err != nil || l2 == nil {
				t.Fatalf("C16 re-point [%s]: second build failed: %v", kind, err)
			}
			if cidOf(l2) != cidOf(l1) {
				t.Fatalf("C16 re-point [%s]: second build returned %v, first %v", kind, l2, l1)
			}
			_, dangling := st2.Reachable(cidOf(l2))
			for _, d := range dangling {
				if !ext[d] {
					t.Fatalf("C16 re-point [%s]: the link returned by the second build is not backed by the store the link system points at now (block %s missing, %d blocks there)", kind, d, st2.Len())
				}
			}
		}
		ev.Case(fmt.Sprintf("%s n=%s fault=%v", kind, bucket(len(es)), fault), true, "kind:"+kind, fmt.Sprintf("fault:%v", fault))
		ev.Sample(map[string]any{"kind": kind, "entries": len(es), "fault_on_second_store": fault})
	})
}

// The quick builder panics when a write fails. A caller that recovers inside the Store callback and builds the same
// content again (a retry, or simply a second identical file) must end up with a store without dangling links: whatever
// the builder hands out as stored has been committed.
func TestC16_R_QuickBuilderRetryAfterFailedWrite(t *testing.T) {
	for _, size := range []int{10, 300000} { // one block / root + two leaves
		for _, stage := range []string{"open", "write", "commit"} {
			for k := 1; k <= 3; k++ {
				st := NewStore()
				switch stage {
				case "open":
					st.FailOpenAt = k
				case "write":
					st.FailWriteAt = k
				default:
					st.FailCommitAt = k
				}
				data := lcgBytes(size, 5, 0)
				var dir cid.Cid
				panicked := false
				err := quickbuilder.Store(st.LinkSystem(), func(b *quickbuilder.Builder) error {
					// every step is retried after a recovered panic (the fault hits the k-th write only)
					retry := func(step func()) {
						for attempt := 0; attempt < 4; attempt++ {
							ok := func() (ok bool) {
								defer func() {
									if recover() != nil {
										panicked = true
									}
								}()
								step()
								return true
							}()
							if ok {
								return
							}
						}
						t.Fatalf("C16 quick retry: step keeps panicking")
					}
					var f, d quickbuilder.Node
					retry(func() { b.NewBytesFile(data) })
					retry(func() { f = b.NewBytesFile(data) })
					retry(func() { d = b.NewMapDirectory(map[string]quickbuilder.Node{"f": f}) })
					dir = cidOf(d.Link())
					return nil
				})
				if err != nil {
					t.Fatalf("C16 quick retry (%d bytes, %s #%d): %v", size, stage, k, err)
				}
				if _, dangling := st.Reachable(dir); len(dangling) > 0 {
					t.Fatalf("C16: quick builder, %d-byte file, write #%d failing at %s (panicked=%v, recovered, same content built again): the directory %s was stored but %d block(s) of its DAG never were, e.g. %s", size, k, stage, panicked, dir, len(dangling), dangling[0])
				}
			}
		}
	}
}

const c16SplitRule = "case = a build (file of a drawn shape, or sharded / plain directory) through a link system whose READ side is another store that already holds some or all of the blocks the build produces (an older version of the same content) while its WRITE side is a fresh store; " +
	"oracle = everything reachable from the returned link that the build produces is in the WRITE store (no dangling link), committed children-first; every case non-trivial; distinct by (kind, overlap class)"

// TestC16_P_SplitReadWriteStores: what a link system can READ says nothing about what has been written to where it WRITES.
func TestC16_P_SplitReadWriteStores(t *testing.T) {
	ev := newEvid(t, c16SplitRule)
	rapid.Check(t, func(t *rapid.T) {
		kind := rapid.SampledFrom([]string{"file", "file", "sharded", "plain"}).Draw(t, "kind")
		upstream, target := NewStore(), NewStore()
		ext := map[cid.Cid]bool{}
		var buildInto func(st *Store, ls *ipld.LinkSystem, version int) (datamodel.Link, error)
		if kind == "file" {
			w := rapid.IntRange(2, 4).Draw(t, "w")
			cs := rapid.IntRange(1, 9).Draw(t, "cs")
			n := rapid.IntRange(1, 120).Draw(t, "len")
			content := fillContent(t, n, cs)
			changed := append([]byte(nil), content...)
			if rapid.Bool().Draw(t, "changeTail") {
				changed[len(changed)-1] ^= 0x55
			}
			buildInto = func(st *Store, ls *ipld.LinkSystem, version int) (l datamodel.Link, err error) {
				data := content
				if version == 2 {
					data = changed
				}
				withWidth(w, func() { l, _, err = builder.BuildUnixFSFile(bytes.NewReader(data), fmt.Sprintf("size-%d", cs), ls) })
				return
			}
		} else {
			names, _ := genNames(t, nameOpts{Max: 60})
			fanout := rapid.SampledFrom([]int{8, 16, 256}).Draw(t, "fanout")
			es := make([]entrySpec, len(names))
			for i, n := range names {
				es[i] = entryFor(n, 1)
				ext[es[i].Cid] = true
			}
			extra := append(append([]entrySpec{}, es...), entryFor("one-more-entry", 1))
			ext[extra[len(extra)-1].Cid] = true
			withExtra := rapid.Bool().Draw(t, "addEntry")
			buildInto = func(st *Store, ls *ipld.LinkSystem, version int) (datamodel.Link, error) {
				e := es
				if version == 2 && withExtra {
					e = extra
				}
				var l datamodel.Link
				var err error
				if kind == "sharded" {
					l, _, err = builder.BuildUnixFSShardedDirectory(fanout, 0x22, pbEntries(e), ls)
				} else {
					l, _, err = builder.BuildUnixFSDirectory(pbEntries(e), ls)
				}
				return l, err
			}
		}
		if _, err := buildInto(upstream, upstream.LinkSystem(), 1); err != nil {
			t.Fatalf("harness: %v", err)
		}
		target.Trusted = rapid.Bool().Draw(t, "trustedStorage") // (LinkSystem.TrustedStorage: loads are not re-hashed)
		ls := target.LinkSystem()
		ls.StorageReadOpener = upstream.openRead // reads come from upstream, writes go to target
		var link datamodel.Link
		var err error
		must(t, "build with split stores", func() { link, err = buildInto(target, ls, 2) })
		if err != nil || link == nil {
			t.Fatalf("C16 split stores (%s): build failed: link=%v err=%v", kind, link, err)
		}
		_, dangling := target.Reachable(cidOf(link))
		for _, d := range dangling {
			if !ext[d] {
				_, inUpstream := upstream.Get(d)
				t.Fatalf("C16 (%s): built through a link system that reads from another store (which already held block %s: %v) and writes to a fresh one: the returned link %s has block %s of its DAG missing from the store it was written to", kind, d, inUpstream, link, d)
			}
		}
		produced := map[cid.Cid]bool{}
		for c := range target.Blocks {
			produced[c] = true
		}
		if err := commitOrderOK(target, produced); err != nil {
			t.Fatalf("C16 split stores (%s): %v", kind, err)
		}
		ev.Case(fmt.Sprintf("%s blocks=%s trusted=%v", kind, bucket(target.Len()), target.Trusted), true, "kind:"+kind, fmt.Sprintf("trusted-storage:%v", target.Trusted))
		ev.Sample(map[string]any{"kind": kind, "blocks_written": target.Len(), "blocks_upstream": upstream.Len()})
	})
}

// Every builder run twice through ONE link system value whose storage is swapped in between (the second CAR, the second
// shard of an upload): the link returned by the second run is only good if its whole DAG was committed to the second store,
// whatever the builder remembers from the first run. Contents include a sparse file (whole 256 KiB chunks of zeros with the
// default chunker), repeated chunks, an empty file, directories and symlinks.
func TestC16_R_SecondBuildThroughRepointedLinkSystem(t *testing.T) {
	sparse := make([]byte, 3*262144+77)
	copy(sparse[262144+5:], "not all zeros")
	es := []entrySpec{}
	for i := 0; i < 300; i++ {
		es = append(es, entryFor(fmt.Sprintf("entry-%03d", i), 2))
	}
	ext := map[cid.Cid]bool{}
	for _, e := range es {
		ext[e.Cid] = true
	}
	builds := []struct {
		name string
		run  func(ls *ipld.LinkSystem) (datamodel.Link, error)
	}{
		{"sparse file, default chunker", func(ls *ipld.LinkSystem) (datamodel.Link, error) {
			l, _, err := builder.BuildUnixFSFile(bytes.NewReader(sparse), "", ls)
			return l, err
		}},
		{"file of repeated chunks", func(ls *ipld.LinkSystem) (datamodel.Link, error) {
			l, _, err := builder.BuildUnixFSFile(bytes.NewReader(bytes.Repeat([]byte("0123456789abcdef"), 40)), "size-16", ls)
			return l, err
		}},
		{"empty file", func(ls *ipld.LinkSystem) (datamodel.Link, error) {
			l, _, err := builder.BuildUnixFSFile(bytes.NewReader(nil), "", ls)
			return l, err
		}},
		{"symlink", func(ls *ipld.LinkSystem) (datamodel.Link, error) {
			l, _, err := builder.BuildUnixFSSymlink("../target", ls)
			return l, err
		}},
		{"plain directory", func(ls *ipld.LinkSystem) (datamodel.Link, error) {
			l, _, err := builder.BuildUnixFSDirectory(pbEntries(es[:40]), ls)
			return l, err
		}},
		{"sharded directory", func(ls *ipld.LinkSystem) (datamodel.Link, error) {
			l, _, err := builder.BuildUnixFSShardedDirectory(16, 0x22, pbEntries(es), ls)
			return l, err
		}},
	}
	first, second := NewStore(), NewStore()
	ls := first.LinkSystem()
	for _, b := range builds {
		if _, err := b.run(ls); err != nil {
			t.Fatalf("C16 first build (%s): %v", b.name, err)
		}
	}
	ls.StorageWriteOpener, ls.StorageReadOpener = second.openWrite, second.openRead
	for _, b := range builds {
		l, err := b.run(ls)
		if err != nil || l == nil {
			t.Fatalf("C16 second build (%s): %v", b.name, err)
		}
		_, dangling := second.Reachable(cidOf(l))
		for _, d := range dangling {
			if !ext[d] {
				_, inFirst := first.Get(d)
				t.Fatalf("C16: %s built a second time through the same link system, its storage swapped in between: the returned link %s has block %s of its DAG missing from the store it was written to (the first store holds it: %v)", b.name, l, d, inFirst)
			}
		}
	}
}

// The same with chunks of production size (the default 256 KiB chunker, 64 KiB and 1 MiB chunks): a link system that reads
// from a store which already holds the file and writes to a fresh one - every block of the returned DAG is in the store it
// was written to.
func TestC16_R_SplitStoresWithLargeChunks(t *testing.T) {
	for _, c := range []struct {
		n       int
		chunker string
	}{{1<<20 + 7, ""}, {300000, "size-65536"}, {3 << 20, "size-1048576"}, {5000, "size-128"}} {
		data := lcgBytes(c.n, 3, 0)
		upstream, target := NewStore(), NewStore()
		if _, _, err := buildFile(upstream, data, c.chunker, 174); err != nil {
			t.Fatal(err)
		}
		ls := target.LinkSystem()
		ls.StorageReadOpener = upstream.openRead
		var link datamodel.Link
		var err error
		must(t, "build with split stores", func() { link, _, err = builder.BuildUnixFSFile(bytes.NewReader(data), c.chunker, ls) })
		if err != nil || link == nil {
			t.Fatalf("C16: %d bytes, chunker %q, split stores: link=%v err=%v", c.n, c.chunker, link, err)
		}
		if _, dangling := target.Reachable(cidOf(link)); len(dangling) > 0 {
			t.Fatalf("C16: %d bytes, chunker %q, built through a link system that reads from a store already holding the file and writes to a fresh one: %d blocks of the returned DAG (first %s) are missing from the store it was written to", c.n, c.chunker, len(dangling), dangling[0])
		}
	}
}
