package harness

// On-disk tree generator for the recursive importer (C18, C16): an in-memory description materialised under a
// fresh temporary directory (TMPDIR, outside /repo and /verif) and removed after the case.

import (
	"fmt"
	"os"
	"path/filepath"
	"sort"
	"strings"
	"syscall"

	"pgregory.net/rapid"
)

const (
	fsFile = iota
	fsDir
	fsSymlink
	fsFifo
)

type fsNode struct {
	Kind   int
	Data   []byte
	Target string
	Kids   map[string]*fsNode
}

var fsNamePool = []string{"a", "b", "c d", "é", "00", "A1x", ".hidden", "x.txt", "漢字", "-", "%41", "\xff\xfe", "a\nb", " ", "0A", "FF", "~", "..."}
var fsTargets = []string{"a", "../x", "/abs/olute", "dangling target", "ünï", ".", "..", "a/b/c", "\xff",
	"./x", "x/", "a//b", "a/./b", "a/../b", "./", "../", "//abs", "a/b/", " lead", "trail ", "a\\b", "%2e%2e"}

func genFSNames(t *rapid.T, max int) []string {
	set := map[string]bool{}
	for _, s := range rapid.SliceOfN(rapid.SampledFrom(fsNamePool), 0, max).Draw(t, "names") {
		set[s] = true
	}
	if rapid.IntRange(0, 4).Draw(t, "pairnames") == 0 {
		p := collisions.Pairs[rapid.IntRange(0, len(collisions.Pairs)-1).Draw(t, "pair")]
		set[p[0]], set[p[1]] = true, true
	}
	if rapid.IntRange(0, 6).Draw(t, "longname") == 0 {
		set[strings.Repeat("L", 255)] = true
	}
	out := make([]string, 0, len(set))
	for s := range set {
		out = append(out, s)
	}
	sort.Strings(out)
	return out
}

// genFS draws a tree; fifo=true plants exactly the kinds the importer must reject somewhere below.
func genFS(t *rapid.T, depth int, allowFifo bool) *fsNode {
	k := rapid.IntRange(0, 9).Draw(t, "fskind")
	if depth == 0 && k >= 5 {
		k = 0
	}
	switch {
	case k < 3:
		n := rapid.SampledFrom([]int{0, 1, 2, 64, 700, 2048}).Draw(t, "flen")
		return &fsNode{Kind: fsFile, Data: lcgBytes(n, rapid.Byte().Draw(t, "tag"), 0)}
	case k == 3:
		if rapid.IntRange(0, 3).Draw(t, "rndtarget") == 0 {
			b := rapid.SliceOfN(rapid.SampledFrom([]byte("ab./ \xc3\xa9\xff-~")), 1, 24).Draw(t, "targetbytes")
			return &fsNode{Kind: fsSymlink, Target: string(b)}
		}
		return &fsNode{Kind: fsSymlink, Target: rapid.SampledFrom(fsTargets).Draw(t, "target")}
	case k == 4:
		if allowFifo {
			return &fsNode{Kind: fsFifo}
		}
		return &fsNode{Kind: fsFile, Data: []byte("x")}
	default:
		d := &fsNode{Kind: fsDir, Kids: map[string]*fsNode{}}
		for _, name := range genFSNames(t, 6) {
			d.Kids[name] = genFS(t, depth-1, allowFifo)
		}
		return d
	}
}

func genFSRootDir(t *rapid.T, depth int, allowFifo bool) *fsNode {
	d := &fsNode{Kind: fsDir, Kids: map[string]*fsNode{}}
	for _, name := range genFSNames(t, 7) {
		d.Kids[name] = genFS(t, depth-1, allowFifo)
	}
	return d
}

func (n *fsNode) hasKind(k int) bool {
	if n.Kind == k {
		return true
	}
	for _, c := range n.Kids {
		if c.hasKind(k) {
			return true
		}
	}
	return false
}

func (n *fsNode) count() int {
	c := 1
	for _, k := range n.Kids {
		c += k.count()
	}
	return c
}

func (n *fsNode) depth() int {
	d := 0
	for _, k := range n.Kids {
		if kd := k.depth(); kd > d {
			d = kd
		}
	}
	return d + 1
}

func (n *fsNode) hasEmptyDir() bool {
	if n.Kind == fsDir && len(n.Kids) == 0 {
		return true
	}
	for _, c := range n.Kids {
		if c.hasEmptyDir() {
			return true
		}
	}
	return false
}

// materialise writes the tree at path p.
func (n *fsNode) materialise(p string) error {
	switch n.Kind {
	case fsFile:
		return os.WriteFile(p, n.Data, 0o644)
	case fsSymlink:
		return os.Symlink(n.Target, p)
	case fsFifo:
		// "any other kind of file": a character device (a clone of /dev/null, so that a mutated importer that opens it
		// reads EOF instead of blocking); falls back to a FIFO where mknod is not permitted.
		if err := syscall.Mknod(p, syscall.S_IFCHR|0o644, 1<<8|3); err == nil {
			return nil
		}
		return syscall.Mkfifo(p, 0o644)
	default:
		if err := os.Mkdir(p, 0o755); err != nil {
			return err
		}
		for name, c := range n.Kids {
			if err := c.materialise(filepath.Join(p, name)); err != nil {
				return fmt.Errorf("%q: %w", name, err)
			}
		}
	}
	return nil
}

// withFSTree materialises the tree in a fresh temp dir, calls f with the root path, and removes it.
func withFSTree(n *fsNode, f func(root string)) error {
	dir, err := os.MkdirTemp("", "verif-fs-")
	if err != nil {
		return err
	}
	defer os.RemoveAll(dir)
	root := filepath.Join(dir, "root")
	if err := n.materialise(root); err != nil {
		return err
	}
	f(root)
	return nil
}
