package harness

// On-disk tree generator for the recursive importer (C18, C16): an in-memory description materialised under a
// fresh temporary directory (TMPDIR, outside /repo and /verif) and removed after the case.

import (
	"fmt"
	"os"
	"path/filepath"
	"sort"
	"strings"
	"syscall"

	"pgregory.net/rapid"
)

const (
	fsFile = iota
	fsDir
	fsSymlink
	fsFifo
)

type fsNode struct {
	Kind   int
	Data   []byte
	Target string
	Kids   map[string]*fsNode
	Mode   os.FileMode // extra mode bits (setuid / setgid / sticky) for files and directories
	LinkTo string      // regular file materialised as a hard link to the sibling of that name (same content)
}

var fsNamePool = []string{"a", "b", "c d", "é", "00", "A1x", ".hidden", "x.txt", "漢字", "-", "%41", "\xff\xfe", "a\nb", " ", "0A", "FF", "~", "..."}
var fsTargets = []string{"a", "../x", "/abs/olute", "dangling target", "ünï", ".", "..", "a/b/c", "\xff",
	"./x", "x/", "a//b", "a/./b", "a/../b", "./", "../", "//abs", "a/b/", " lead", "trail ", "a\\b", "%2e%2e"}

func genFSNames(t *rapid.T, max int) []string {
	set := map[string]bool{}
	for _, s := range rapid.SliceOfN(rapid.SampledFrom(fsNamePool), 0, max).Draw(t, "names") {
		set[s] = true
	}
	if rapid.IntRange(0, 4).Draw(t, "pairnames") == 0 {
		p := collisions.Pairs[rapid.IntRange(0, len(collisions.Pairs)-1).Draw(t, "pair")]
		set[p[0]], set[p[1]] = true, true
	}
	if rapid.IntRange(0, 6).Draw(t, "longname") == 0 {
		set[strings.Repeat("L", 255)] = true
	}
	out := make([]string, 0, len(set))
	for s := range set {
		out = append(out, s)
	}
	sort.Strings(out)
	return out
}

// genFS draws a tree; fifo=true plants exactly the kinds the importer must reject somewhere below.
func genFS(t *rapid.T, depth int, allowFifo bool) *fsNode {
	k := rapid.IntRange(0, 9).Draw(t, "fskind")
	if depth == 0 && k >= 5 {
		k = 0
	}
	switch {
	case k < 3:
		n := rapid.SampledFrom([]int{0, 1, 2, 64, 700, 2048}).Draw(t, "flen")
		return &fsNode{Kind: fsFile, Data: lcgBytes(n, rapid.Byte().Draw(t, "tag"), 0)}
	case k == 3:
		if rapid.IntRange(0, 3).Draw(t, "rndtarget") == 0 {
			b := rapid.SliceOfN(rapid.SampledFrom([]byte("ab./ \xc3\xa9\xff-~")), 1, 24).Draw(t, "targetbytes")
			return &fsNode{Kind: fsSymlink, Target: string(b)}
		}
		if rapid.IntRange(0, 7).Draw(t, "longtarget") == 0 {
			// targets up to the file system's limit (PATH_MAX - 1 = 4095 bytes on Linux), around the sizes of common buffers
			n := rapid.SampledFrom([]int{127, 128, 255, 256, 1023, 1024, 1025, 2048, 4000, 4095}).Draw(t, "targetLen")
			return &fsNode{Kind: fsSymlink, Target: strings.Repeat("../d/", n/5) + strings.Repeat("x", n%5)}
		}
		return &fsNode{Kind: fsSymlink, Target: rapid.SampledFrom(fsTargets).Draw(t, "target")}
	case k == 4:
		if allowFifo {
			return &fsNode{Kind: fsFifo}
		}
		return &fsNode{Kind: fsFile, Data: []byte("x")}
	default:
		d := &fsNode{Kind: fsDir, Kids: map[string]*fsNode{}}
		for _, name := range genFSNames(t, 6) {
			d.Kids[name] = genFS(t, depth-1, allowFifo)
		}
		decorateDir(t, d)
		return d
	}
}

// decorateDir adds what a plain tree of fresh files lacks: hard links between siblings and special mode bits.
func decorateDir(t *rapid.T, d *fsNode) {
	if rapid.IntRange(0, 5).Draw(t, "modebits") == 0 {
		d.Mode = rapid.SampledFrom([]os.FileMode{os.ModeSticky, os.ModeSetgid, os.ModeSticky | os.ModeSetgid}).Draw(t, "dirmode")
	}
	var files []string
	for name, k := range d.Kids {
		if k.Kind == fsFile && k.LinkTo == "" {
			files = append(files, name)
		}
	}
	sort.Strings(files)
	if len(files) > 0 && rapid.IntRange(0, 3).Draw(t, "hardlink") == 0 {
		src := files[rapid.IntRange(0, len(files)-1).Draw(t, "linksrc")]
		name := "hardlink-to-" + src
		if len(name) <= 255 {
			d.Kids[name] = &fsNode{Kind: fsFile, Data: d.Kids[src].Data, LinkTo: src}
		}
	}
	if len(files) > 0 && rapid.IntRange(0, 5).Draw(t, "filemode") == 0 {
		f := d.Kids[files[rapid.IntRange(0, len(files)-1).Draw(t, "modefile")]]
		f.Mode = rapid.SampledFrom([]os.FileMode{os.ModeSetuid, os.ModeSetgid, os.ModeSticky}).Draw(t, "fmode")
	}
}

func genFSRootDir(t *rapid.T, depth int, allowFifo bool) *fsNode {
	d := &fsNode{Kind: fsDir, Kids: map[string]*fsNode{}}
	for _, name := range genFSNames(t, 7) {
		d.Kids[name] = genFS(t, depth-1, allowFifo)
	}
	decorateDir(t, d)
	return d
}

func (n *fsNode) hasKind(k int) bool {
	if n.Kind == k {
		return true
	}
	for _, c := range n.Kids {
		if c.hasKind(k) {
			return true
		}
	}
	return false
}

func (n *fsNode) count() int {
	c := 1
	for _, k := range n.Kids {
		c += k.count()
	}
	return c
}

func (n *fsNode) depth() int {
	d := 0
	for _, k := range n.Kids {
		if kd := k.depth(); kd > d {
			d = kd
		}
	}
	return d + 1
}

func (n *fsNode) hasEmptyDir() bool {
	if n.Kind == fsDir && len(n.Kids) == 0 {
		return true
	}
	for _, c := range n.Kids {
		if c.hasEmptyDir() {
			return true
		}
	}
	return false
}

// materialise writes the tree at path p.
func (n *fsNode) materialise(p string) error {
	switch n.Kind {
	case fsFile:
		if n.LinkTo != "" {
			return os.Link(filepath.Join(filepath.Dir(p), n.LinkTo), p)
		}
		if err := os.WriteFile(p, n.Data, 0o644); err != nil {
			return err
		}
		if n.Mode != 0 {
			return os.Chmod(p, 0o755|n.Mode)
		}
		return nil
	case fsSymlink:
		return os.Symlink(n.Target, p)
	case fsFifo:
		// "any other kind of file": a character device (a clone of /dev/null, so that a mutated importer that opens it
		// reads EOF instead of blocking); falls back to a FIFO where mknod is not permitted.
		if err := syscall.Mknod(p, syscall.S_IFCHR|0o644, 1<<8|3); err == nil {
			return nil
		}
		return syscall.Mkfifo(p, 0o644)
	default:
		if err := os.Mkdir(p, 0o755); err != nil {
			return err
		}
		// hard links after their sources
		for pass := 0; pass < 2; pass++ {
			for name, c := range n.Kids {
				if (c.LinkTo != "") != (pass == 1) {
					continue
				}
				if err := c.materialise(filepath.Join(p, name)); err != nil {
					return fmt.Errorf("%q: %w", name, err)
				}
			}
		}
		if n.Mode != 0 {
			if err := os.Chmod(p, 0o755|n.Mode); err != nil {
				return err
			}
		}
	}
	return nil
}

// withFSTree materialises the tree in a fresh temp dir, calls f with the root path, and removes it.
func withFSTree(n *fsNode, f func(root string)) error {
	dir, err := os.MkdirTemp("", "verif-fs-")
	if err != nil {
		return err
	}
	defer os.RemoveAll(dir)
	root := filepath.Join(dir, "root")
	if err := n.materialise(root); err != nil {
		return err
	}
	f(root)
	return nil
}
