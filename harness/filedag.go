package harness

// Generator of stored file DAGs of assorted shapes, shared by the read-side properties (C04, C05, C06, C12, C20).

import (
	"fmt"

	"github.com/ipfs/go-cid"
	"pgregory.net/rapid"
)

type fileCase struct {
	St     *Store
	Root   cid.Cid
	Data   []byte
	Writer string // "own", "ref-balanced-pb", "ref-trickle-raw", ...
	W, CS  int
	Tree   *FileNode
	Desc   string
}

// genFileDAG draws a small file and stores it with one of the writers. minLen..maxLen bounds the content length.
func genFileDAG(t *rapid.T, minLen, maxLen int) *fileCase {
	w := rapid.IntRange(2, 4).Draw(t, "w")
	cs := rapid.IntRange(1, 9).Draw(t, "cs")
	n := rapid.IntRange(minLen, maxLen).Draw(t, "len")
	if rapid.IntRange(0, 3).Draw(t, "lenclass") == 0 {
		// aim at chunk-count boundaries
		c := genChunkCount(t, w, maxLen/cs+1)
		n = c * cs
		if n < minLen {
			n = minLen
		}
		if n > maxLen {
			n = maxLen
		}
	}
	data := fillContent(t, n, cs)
	st := NewStore()
	fc := &fileCase{St: st, Data: data, W: w, CS: cs}
	chunker := fmt.Sprintf("size-%d", cs)
	var err error
	switch rapid.IntRange(0, 5).Draw(t, "writer") {
	case 0, 1, 2:
		fc.Writer = "own"
		fc.Root, _, err = buildFile(st, data, chunker, w)
	case 3:
		fc.Writer = "ref-balanced-pbleaves"
		fc.Root, _, err = refImportFile(st, data, refFileOpts{Chunker: chunker, Width: w, RawLeaves: false, CidV1: rapid.Bool().Draw(t, "v1")})
	case 4:
		fc.Writer = "ref-trickle-raw"
		fc.Root, _, err = refImportFile(st, data, refFileOpts{Chunker: chunker, Width: w, RawLeaves: true, CidV1: true, Trickle: true})
	default:
		fc.Writer = "ref-trickle-pbleaves"
		fc.Root, _, err = refImportFile(st, data, refFileOpts{Chunker: chunker, Width: w, RawLeaves: false, CidV1: false, Trickle: true})
	}
	if err != nil {
		t.Fatalf("harness: writing file DAG: %v", err)
	}
	fc.Tree, err = st.FileTree(fc.Root, 0)
	if err != nil {
		t.Fatalf("harness: model: %v", err)
	}
	if fc.Tree.End != int64(len(data)) {
		t.Fatalf("harness: model length %d != %d", fc.Tree.End, len(data))
	}
	fc.Desc = fmt.Sprintf("%s len=%d cs=%d w=%d depth=%d leaves=%d", fc.Writer, len(data), cs, w, fc.Tree.Depth(), fc.Tree.Leaves())
	return fc
}

// boundaries returns the distinct leaf start offsets of the file.
func (fc *fileCase) boundaries() []int64 {
	var out []int64
	seen := map[int64]bool{}
	for _, n := range fc.Tree.All() {
		if len(n.Kids) == 0 && !seen[n.Start] {
			seen[n.Start] = true
			out = append(out, n.Start)
		}
	}
	return out
}
