package harness

// Generator of stored file DAGs of assorted shapes, shared by the read-side properties (C04, C05, C06, C12, C20).

import (
	"fmt"

	"github.com/ipfs/go-cid"
	"pgregory.net/rapid"
)

type fileCase struct {
	St     *Store
	Root   cid.Cid
	Data   []byte
	Writer string // "own", "ref-balanced-pb", "ref-trickle-raw", ...
	W, CS  int
	Tree   *FileNode
	Desc   string
}

// genFileDAG draws a small file and stores it with one of the writers. minLen..maxLen bounds the content length.
func genFileDAG(t *rapid.T, minLen, maxLen int) *fileCase {
	w := rapid.IntRange(2, 4).Draw(t, "w")
	cs := rapid.IntRange(1, 9).Draw(t, "cs")
	if rapid.IntRange(0, 11).Draw(t, "wide") == 0 {
		// one very wide node (more links than the default width of 174): one-byte chunks
		w = rapid.SampledFrom([]int{175, 200, 255, 256, 257, 300}).Draw(t, "widew")
		cs = 1
		if maxLen < 320 {
			maxLen = 320
		}
		if minLen < 180 {
			minLen = 180
		}
	}
	n := rapid.IntRange(minLen, maxLen).Draw(t, "len")
	if rapid.IntRange(0, 3).Draw(t, "lenclass") == 0 {
		// aim at chunk-count boundaries
		c := genChunkCount(t, w, maxLen/cs+1)
		n = c * cs
		if n < minLen {
			n = minLen
		}
		if n > maxLen {
			n = maxLen
		}
	}
	data := fillContent(t, n, cs)
	st := NewStore()
	fc := &fileCase{St: st, Data: data, W: w, CS: cs}
	chunker := fmt.Sprintf("size-%d", cs)
	var err error
	switch rapid.IntRange(0, 5).Draw(t, "writer") {
	case 0, 1, 2:
		fc.Writer = "own"
		fc.Root, _, err = buildFile(st, data, chunker, w)
	case 3:
		fc.Writer = "ref-balanced-pbleaves"
		fc.Root, _, err = refImportFile(st, data, refFileOpts{Chunker: chunker, Width: w, RawLeaves: false, CidV1: rapid.Bool().Draw(t, "v1")})
	case 4:
		fc.Writer = "ref-trickle-raw"
		fc.Root, _, err = refImportFile(st, data, refFileOpts{Chunker: chunker, Width: w, RawLeaves: true, CidV1: true, Trickle: true})
	default:
		fc.Writer = "ref-trickle-pbleaves"
		fc.Root, _, err = refImportFile(st, data, refFileOpts{Chunker: chunker, Width: w, RawLeaves: false, CidV1: false, Trickle: true})
	}
	if err != nil {
		t.Fatalf("harness: writing file DAG: %v", err)
	}
	fc.Tree, err = st.FileTree(fc.Root, 0)
	if err != nil {
		t.Fatalf("harness: model: %v", err)
	}
	if fc.Tree.End != int64(len(data)) {
		t.Fatalf("harness: model length %d != %d", fc.Tree.End, len(data))
	}
	fc.Desc = fmt.Sprintf("%s len=%d cs=%d w=%d depth=%d leaves=%d", fc.Writer, len(data), cs, w, fc.Tree.Depth(), fc.Tree.Leaves())
	return fc
}

// boundaries returns the distinct leaf start offsets of the file.
func (fc *fileCase) boundaries() []int64 {
	var out []int64
	seen := map[int64]bool{}
	for _, n := range fc.Tree.All() {
		if len(n.Kids) == 0 && !seen[n.Start] {
			seen[n.Start] = true
			out = append(out, n.Start)
		}
	}
	return out
}

// genHandFile hand-assembles a well-formed file DAG in mutable form (see genHandFileDAG).
func genHandFile(t *rapid.T, allowOldStyle bool) (root *mnode, data []byte, writer, desc string) {
	return genHandFileOpt(t, handOpts{OldStyle: allowOldStyle, SpareBlockSize: true})
}

type handOpts struct {
	OldStyle bool // allow interior nodes without BlockSizes / FileSize
	NoEmpty  bool // no zero-length chunks (checks about which blocks a byte range needs)
	MinChunk int
	// SpareBlockSize: BlockSizes may hold one entry more than there are links (FileSize stays the sum of the real ones)
	SpareBlockSize bool
	// BigChunks: one file in six has chunks of 9000 .. 70000 bytes (tens to hundreds of KiB in all) instead of 1 .. 5
	BigChunks bool
	// NoFileSizeOK: interior nodes may omit FileSize (it is optional) while keeping their BlockSizes
	NoFileSizeOK bool
	// RawOldStyle: nodes whose children are all raw leaves may omit BlockSizes - the link's Tsize is the size of a raw leaf,
	// so nothing has to be opened to learn it (unlike old-style nodes over dag-pb children)
	RawOldStyle bool
	// NoMixedKids: never put leaves and a subtree side by side under the root
	NoMixedKids bool
	// LyingFileSize: one file in four records a root FileSize that is not the sum of its BlockSizes (a few bytes more). Only
	// for checks whose oracle does not involve the recorded length (request order; concurrent = alone)
	LyingFileSize bool
}

func genHandFileOpt(t *rapid.T, o handOpts) (root *mnode, data []byte, writer, desc string) {
	allowOldStyle := o.OldStyle
	minChunks := 1
	if o.MinChunk > 0 {
		minChunks = o.MinChunk
	}
	n := rapid.IntRange(minChunks, 7).Draw(t, "nchunks")
	// UnixFS type Raw (0) is a file type too: readers (this one and the reference one) treat File and Raw nodes alike,
	// with or without links. which: 0 = all File, 1 = root Raw, 2 = interior nodes Raw, 3 = dag-pb leaves Raw, 4 = all Raw
	rawTyped := rapid.SampledFrom([]int{0, 0, 0, 1, 2, 3, 4}).Draw(t, "rawTyped")
	typeOf := func(role int) uint64 { // role 1 root, 2 interior, 3 leaf
		if rawTyped == 4 || rawTyped == role {
			return 0
		}
		return 2
	}
	pbLeaves := rapid.Bool().Draw(t, "pbLeaves")
	// old-style files: dag-pb leaves and no BlockSizes in the interior nodes (the reader then has to open a child to learn its size)
	// (malformed per the UnixFS spec but tolerated by the reader: only generated where correctness of the bytes is the subject,
	// not request order or laziness)
	noBlockSizes := allowOldStyle && pbLeaves && rapid.IntRange(0, 2).Draw(t, "noBlockSizes") == 0
	noFileSize := (allowOldStyle || o.NoFileSizeOK) && rapid.IntRange(0, 2).Draw(t, "noFileSize") == 0 // FileSize is optional: the length then comes from the links
	tsizeStyle := rapid.SampledFrom([]int{0, 0, 1, 2, 3}).Draw(t, "tsizeStyle")
	spareBlockSize := o.SpareBlockSize && rapid.IntRange(0, 3).Draw(t, "spareBlockSize") == 0
	oldStyleMixed := false
	rawNoBlockSizes := o.RawOldStyle && !pbLeaves && rapid.IntRange(0, 1).Draw(t, "rawNoBlockSizes") == 0
	var chunks [][]byte
	pattern := ""
	big := o.BigChunks && rapid.IntRange(0, 5).Draw(t, "bigChunks") == 0
	if big {
		pattern = "big:"
	}
	for i := 0; i < n; i++ {
		var c []byte
		if !o.NoEmpty && rapid.IntRange(0, 2).Draw(t, "empty") == 0 {
			pattern += "0"
		} else if allowOldStyle && i > 0 && rapid.IntRange(0, 4).Draw(t, "repeat") == 0 {
			// the same chunk as an earlier one (a repeated record, a run of zeros): the same block linked again
			c = append([]byte{}, chunks[rapid.IntRange(0, i-1).Draw(t, "repeatOf")]...)
			pattern += "r"
		} else {
			if big {
				c = lcgBytes(rapid.SampledFrom([]int{9000, 16384, 20000, 32768, 65536, 70000}).Draw(t, "bigClen"), byte(i+1), 0)
			} else {
				c = lcgBytes(rapid.IntRange(1, 5).Draw(t, "clen"), byte(i+1), 0)
			}
			pattern += "x"
		}
		chunks = append(chunks, c)
		data = append(data, c...)
	}
	leaf := func(c []byte) (*mnode, uint64) {
		if pbLeaves {
			return &mnode{HasData: true, UFS: &ufsFields{Type: typeOf(3), HasData: true, Data: c, FileSize: u64p(uint64(len(c)))}}, uint64(len(c))
		}
		return &mnode{IsRaw: true, Raw: c}, uint64(len(c))
	}
	// mixed: each interior node decides for itself which of the optional sizes it records (a root without any over children
	// that have them, or the other way round - DAGs touched by more than one writer)
	mixed := allowOldStyle && pbLeaves && rapid.IntRange(0, 3).Draw(t, "mixedSizes") == 0
	interior := func(kids []*mnode, sizes []uint64, role int) (*mnode, uint64) {
		m := &mnode{HasData: true, UFS: &ufsFields{Type: typeOf(role)}}
		noBlockSizes, noFileSize := noBlockSizes, noFileSize
		if mixed {
			noBlockSizes, noFileSize = rapid.Bool().Draw(t, "nodeNoBlockSizes"), rapid.Bool().Draw(t, "nodeNoFileSize")
			oldStyleMixed = oldStyleMixed || noBlockSizes
		}
		if rawNoBlockSizes {
			allRaw := true
			for _, k := range kids {
				allRaw = allRaw && k.IsRaw
			}
			noBlockSizes = noBlockSizes || allRaw
		}
		tot := uint64(0)
		for i, k := range kids {
			// Tsize only has to be right for raw leaves (the reader trusts it there); for dag-pb children it is a hint that
			// writers fill in differently: the content size, the cumulative size, the size of the linked block alone, nothing
			ts := i64p(int64(sizes[i]))
			if !k.IsRaw {
				switch tsizeStyle {
				case 1:
					ts = i64p(int64(sizes[i]) + 50 + int64(len(k.Links))*45)
				case 2:
					ts = i64p(1 + int64(len(k.Links)))
				case 3:
					ts = nil
				}
			}
			m.Links = append(m.Links, mlink{Tsize: ts, Child: k})
			if !noBlockSizes {
				m.UFS.BlockSizes = append(m.UFS.BlockSizes, sizes[i])
			}
			tot += sizes[i]
		}
		if !noFileSize {
			m.UFS.FileSize = u64p(tot)
		}
		if spareBlockSize && !noBlockSizes {
			// one entry more than there are links (a spare trailing size some writer left behind)
			m.UFS.BlockSizes = append(m.UFS.BlockSizes, 0)
		}
		return m, tot
	}
	var kids []*mnode
	var sizes []uint64
	for _, c := range chunks {
		k, s := leaf(c)
		kids, sizes = append(kids, k), append(sizes, s)
	}
	levels := 2
	if n >= 3 && rapid.Bool().Draw(t, "threeLevels") {
		levels = 3
		if !o.NoMixedKids && rapid.IntRange(0, 2).Draw(t, "mixedKids") == 0 {
			// leaves and a subtree side by side under the root: [leaf .. leaf, subtree, leaf .. leaf] (no importer at hand lays
			// files out like this - trickle DAGs come closest - but every reader takes it)
			lo := rapid.IntRange(1, n-2).Draw(t, "subLo")
			hi := rapid.IntRange(lo+1, n-1).Draw(t, "subHi")
			sub, ss := interior(kids[lo:hi], sizes[lo:hi], 2)
			kids = append(append(append([]*mnode{}, kids[:lo]...), sub), kids[hi:]...)
			sizes = append(append(append([]uint64{}, sizes[:lo]...), ss), sizes[hi:]...)
			pattern += "+mixedKids"
		} else {
			cut := rapid.IntRange(1, n-1).Draw(t, "cut")
			a, as := interior(kids[:cut], sizes[:cut], 2)
			b, bs := interior(kids[cut:], sizes[cut:], 2)
			kids, sizes = []*mnode{a, b}, []uint64{as, bs}
		}
	}
	root, _ = interior(kids, sizes, 1)
	if o.LyingFileSize && root.UFS != nil && root.UFS.FileSize != nil && rapid.IntRange(0, 3).Draw(t, "lyingFileSize") == 0 {
		root.UFS.FileSize = u64p(*root.UFS.FileSize + uint64(rapid.IntRange(1, 9).Draw(t, "fileSizeOff")))
		pattern += "+lyingFileSize"
	}
	if mixed {
		noBlockSizes = oldStyleMixed // (for the labels below: "some node lacks BlockSizes")
	}
	noBlockSizes = noBlockSizes || rawNoBlockSizes
	writer = fmt.Sprintf("hand-%s-pb=%v-l%d-bs=%v-fs=%v-raw=%d-ts=%d-spare=%v-mixed=%v", pattern, pbLeaves, levels, !noBlockSizes, !noFileSize, rawTyped, tsizeStyle, spareBlockSize, mixed)
	desc = fmt.Sprintf("hand-made file chunks=%s (0 = empty, r = repeats an earlier chunk) pbLeaves=%v levels=%d blocksizes=%v filesize=%v rawTyped=%d (0 none, 1 root, 2 interior, 3 leaves, 4 all) tsizeStyle=%d (0 content, 1 cumulative, 2 block-local, 3 absent) spareBlockSize=%v len=%d", pattern, pbLeaves, levels, !noBlockSizes, !noFileSize, rawTyped, tsizeStyle, spareBlockSize, len(data))
	return
}

// genHandFileDAG hand-assembles a well-formed file DAG (correct FileSize / BlockSizes / Tsize where present) whose chunks may
// be empty at leading, middle or trailing positions - shapes no chunker emits but any writer may store. Leaves are raw
// blocks or dag-pb File nodes; with three levels the chunks are grouped under intermediate nodes; old-style variants omit
// BlockSizes (and FileSize).
func genHandFileDAG(t *rapid.T, allowOldStyle bool) *fileCase {
	return genHandFileDAGOpt(t, handOpts{OldStyle: allowOldStyle, SpareBlockSize: true})
}

func genHandFileDAGOpt(t *rapid.T, o handOpts) *fileCase {
	root, data, writer, desc := genHandFileOpt(t, o)
	st := NewStore()
	c, err := root.store(st, st.LinkSystem())
	if err != nil {
		t.Fatalf("harness: storing hand-made file: %v", err)
	}
	fc := &fileCase{St: st, Root: c, Data: data, Writer: writer, W: 7, CS: 1, Desc: desc}
	fc.Tree, err = st.FileTree(c, 0)
	if err != nil {
		t.Fatalf("harness: model: %v", err)
	}
	if fc.Tree.End != int64(len(data)) {
		t.Fatalf("harness: model length %d != %d", fc.Tree.End, len(data))
	}
	return fc
}
