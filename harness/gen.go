package harness

// Shared rapid generators (DESIGN.md section 3.3). All randomness comes from rapid.

import (
	_ "embed"
	"encoding/json"
	"fmt"
	"math/bits"
	"sort"
	"strings"

	"github.com/ipfs/go-cid"
	"github.com/ipfs/go-unixfsnode/data/builder"
	dagpb "github.com/ipld/go-codec-dagpb"
	cidlink "github.com/ipld/go-ipld-prime/linking/cid"
	mh "github.com/multiformats/go-multihash"
	"github.com/spaolacci/murmur3"
	"pgregory.net/rapid"
)

//go:embed testdata/collisions.json
var collisionsJSON []byte

type collisionTable struct {
	Pairs    [][]string `json:"pairs"`
	PairBits []int      `json:"pair_bits"`
	Clusters [][]string `json:"clusters"`
	Big      [][]string `json:"big"`
}

var collisions = func() *collisionTable {
	var c collisionTable
	if err := json.Unmarshal(collisionsJSON, &c); err != nil {
		panic(err)
	}
	return &c
}()

// ---------------------------------------------------------------- width

// withWidth runs f with builder.DefaultLinksPerBlock (a package global) set to w.
func withWidth(w int, f func()) {
	old := builder.DefaultLinksPerBlock
	builder.DefaultLinksPerBlock = w
	defer func() { builder.DefaultLinksPerBlock = old }()
	f()
}

func genWidth(t *rapid.T) int {
	switch rapid.IntRange(0, 19).Draw(t, "wclass") {
	case 17:
		// wider than the default: DefaultLinksPerBlock is a setting, and other writers use other widths
		return rapid.SampledFrom([]int{175, 200, 256, 257, 300, 1000}).Draw(t, "widew")
	case 18:
		return rapid.IntRange(7, 16).Draw(t, "w")
	case 19:
		return 174
	default:
		return rapid.IntRange(2, 6).Draw(t, "w")
	}
}

// ---------------------------------------------------------------- chunkers and content

type chunkerSpec struct {
	Name  string
	CS    int    // nominal chunk size for size-K chunkers, 0 for content-defined ones
	Class string // evidence label
}

func genChunker(t *rapid.T) chunkerSpec {
	switch rapid.IntRange(0, 11).Draw(t, "chk") {
	case 0:
		return chunkerSpec{"rabin-16-32-64", 0, "rabin-mma"}
	case 1:
		return chunkerSpec{"rabin-20-40-100", 0, "rabin-mma"}
	case 2:
		if rapid.Bool().Draw(t, "rabintight") {
			// narrow min/avg/max windows: chunk sizes vary by a few bytes only, in changing arrangements
			mn := rapid.IntRange(16, 40).Draw(t, "rmin")
			av := mn + rapid.IntRange(1, 4).Draw(t, "ravg")
			mx := av + rapid.IntRange(1, 6).Draw(t, "rmax")
			return chunkerSpec{fmt.Sprintf("rabin-%d-%d-%d", mn, av, mx), 0, "rabin-tight"}
		}
		k := rapid.IntRange(32, 200).Draw(t, "rabinavg")
		return chunkerSpec{fmt.Sprintf("rabin-%d", k), 0, "rabin-avg"}
	case 3:
		k := rapid.SampledFrom([]int{256, 1024}).Draw(t, "csbig")
		return chunkerSpec{fmt.Sprintf("size-%d", k), k, "size-big"}
	default:
		k := rapid.IntRange(1, 64).Draw(t, "cs")
		return chunkerSpec{fmt.Sprintf("size-%d", k), k, "size-small"}
	}
}

func ipow(b, e int) int {
	r := 1
	for ; e > 0; e-- {
		r *= b
	}
	return r
}

// genChunkCount targets the balanced-tree shape boundaries for width w, capped at max.
func genChunkCount(t *rapid.T, w, max int) int {
	var c int
	switch rapid.IntRange(0, 7).Draw(t, "ccclass") {
	case 0:
		c = rapid.IntRange(0, 2).Draw(t, "cc")
	case 1:
		c = w + rapid.IntRange(-1, 1).Draw(t, "d")
	case 2:
		c = ipow(w, 2) + rapid.IntRange(-1, 1).Draw(t, "d")
	case 3:
		c = ipow(w, 3) + rapid.IntRange(-1, 1).Draw(t, "d")
	case 4:
		c = rapid.IntRange(1, 3*w*w).Draw(t, "k")*w + 1
	case 5:
		c = ipow(w, rapid.IntRange(1, 3).Draw(t, "e"))*rapid.IntRange(1, w).Draw(t, "m") + rapid.IntRange(-1, 1).Draw(t, "d")
	default:
		c = rapid.IntRange(0, 3*ipow(w, 3)).Draw(t, "cc")
	}
	if c < 0 {
		c = 0
	}
	if c > max {
		c = max
	}
	return c
}

// genContent draws (length, fill) and returns the bytes. With a size-K chunker the length targets chunk-count
// boundaries for width w.
func genContent(t *rapid.T, ck chunkerSpec, w, maxLen int) []byte {
	var n int
	if ck.CS > 0 {
		maxChunks := maxLen / ck.CS
		if maxChunks < 1 {
			maxChunks = 1
		}
		c := genChunkCount(t, w, maxChunks)
		n = c*ck.CS + rapid.SampledFrom([]int{0, 0, 0, -1, 1}).Draw(t, "lenadj")
		if rapid.IntRange(0, 5).Draw(t, "lenuni") == 0 {
			n = rapid.IntRange(0, maxLen).Draw(t, "len")
		}
	} else {
		n = rapid.IntRange(0, maxLen).Draw(t, "len")
	}
	if n < 0 {
		n = 0
	}
	if n > maxLen {
		n = maxLen
	}
	return fillContent(t, n, ck.CS)
}

// fillContent produces n bytes from an LCG, optionally periodic so that repeated chunks occur.
func fillContent(t *rapid.T, n, cs int) []byte {
	seed := rapid.Byte().Draw(t, "fill")
	periods := []int{0, 0, 0, 1, 3, 16, 64}
	if cs > 0 {
		periods = append(periods, cs, 2*cs)
	}
	period := rapid.SampledFrom(periods).Draw(t, "period")
	return lcgBytes(n, seed, period)
}

func lcgBytes(n int, seed byte, period int) []byte {
	out := make([]byte, n)
	x := uint32(seed)*2654435761 + 12345
	for i := range out {
		if period > 0 && i >= period {
			out[i] = out[i-period]
			continue
		}
		x = x*1664525 + 1013904223
		out[i] = byte(x >> 24)
	}
	return out
}

// ---------------------------------------------------------------- names

var specialNames = []string{"7", "007", "-1", "2024", "9223372036854775807", ".", "..", "%41", "c d", " ", "00", "0A", "FFx", "0", "A", "a", "Links", "Data", "00a", "é", "漢字", "\xff\xfe", "x.txt", "-", "~", "\x00", "a\nb"}

var asciiNameGen = rapid.StringMatching(`[a-cA-F0-9 %._-]{1,6}`)

type nameOpts struct {
	NoSlash bool // exclude names containing '/'
	FSSafe  bool // additionally exclude NUL and names the filesystem cannot hold
	Max     int
	Fanout  int // when set, the names only have to be separable at this fanout (else at every fanout: within 60 digest bits)
}

func nameOK(s string, o nameOpts) bool {
	if s == "" {
		return false
	}
	for i := 0; i < len(s); i++ {
		if (o.NoSlash || o.FSSafe) && s[i] == '/' {
			return false
		}
		if o.FSSafe && s[i] == 0 {
			return false
		}
	}
	if o.FSSafe && (s == "." || s == ".." || len(s) > 255) {
		return false
	}
	return true
}

// genNames draws a set of distinct non-empty names, mixing plain names with hash-collision groups.
// It returns the names (sorted for determinism) and class labels describing what went in.
func genNames(t *rapid.T, o nameOpts) ([]string, []string) {
	set := map[string]bool{}
	classes := map[string]bool{}
	add := func(s string) {
		if nameOK(s, o) && len(set) < o.Max {
			set[s] = true
		}
	}
	usable := 60
	sharedChoices := []int{1, 7, 8, 9, 15, 16, 24, 31, 32, 33, 40, 47, 48, 50, 54, 55, 56, 57, 58, 59}
	if o.Fanout != 0 {
		usable = usableBits(o.Fanout)
		lvl := bits.Len(uint(o.Fanout)) - 1
		// the deepest levels this fanout can address: names that only differ in the last whole level, or in its last bit
		for _, v := range []int{usable - 1, usable - 2, usable - lvl, usable - lvl - 1} {
			if v > 59 {
				sharedChoices = append(sharedChoices, v, v)
			}
		}
	}
	ngroups := rapid.IntRange(0, 12).Draw(t, "ngroups")
	for g := 0; g < ngroups && len(set) < o.Max; g++ {
		switch rapid.IntRange(0, 11).Draw(t, "gkind") {
		case 10, 11:
			// hash-targeted 16-byte names sharing a drawn number of leading digest bits (<= 59: separable at every fanout)
			shared := rapid.SampledFrom(sharedChoices).Draw(t, "sharedbits")
			base := rapid.Uint64().Draw(t, "hashbase")
			k := rapid.IntRange(2, 6).Draw(t, "craftk")
			for _, s := range craftGroupU(base, shared, k, uint64(rapid.IntRange(0, 1000).Draw(t, "craftsalt")), usable) {
				add(s)
			}
			classes["crafted"] = true
			if shared >= 48 {
				classes["crafted>=48bits"] = true
			}
			if shared >= 60 {
				classes["crafted>=60bits"] = true
			}
		case 0:
			if rapid.Bool().Draw(t, "longnames") {
				// names around and beyond 255 bytes (a filesystem's limit, not a UnixFS one)
				tag := rapid.StringMatching(`[a-z]{3}`).Draw(t, "longtag")
				for _, n := range rapid.SliceOfNDistinct(rapid.SampledFrom([]int{200, 254, 255, 256, 257, 258, 300, 511, 512, 1000, 4096, 8191, 8192, 8193, 9000, 20000}), 1, 4, rapid.ID[int]).Draw(t, "longlens") {
					add(tag + strings.Repeat("n", n-3))
				}
				classes["long(>=200)"] = true
				break
			}
			fallthrough
		case 1:
			for _, s := range rapid.SliceOfN(asciiNameGen, 1, 8).Draw(t, "ascii") {
				add(s)
			}
			classes["ascii"] = true
		case 2:
			for _, s := range rapid.SliceOfN(rapid.SampledFrom(specialNames), 1, 5).Draw(t, "special") {
				add(s)
			}
			classes["special"] = true
		case 3:
			add(rapid.StringN(1, 6, 16).Draw(t, "unicode"))
			classes["unicode"] = true
		case 4:
			add(string(rapid.SliceOfN(rapid.Byte(), 1, 8).Draw(t, "bytes")))
			classes["bytes"] = true
		case 5, 6:
			i := rapid.IntRange(0, len(collisions.Pairs)-1).Draw(t, "pair")
			add(collisions.Pairs[i][0])
			add(collisions.Pairs[i][1])
			classes["pair"] = true
		case 7:
			c := collisions.Clusters[rapid.IntRange(0, len(collisions.Clusters)-1).Draw(t, "cluster")]
			k := rapid.IntRange(2, len(c)).Draw(t, "ck")
			for _, s := range c[:k] {
				add(s)
			}
			classes["cluster"] = true
		case 8:
			c := collisions.Big[rapid.IntRange(0, len(collisions.Big)-1).Draw(t, "big")]
			k := rapid.IntRange(2, len(c)).Draw(t, "bk")
			for _, s := range c[:k] {
				add(s)
			}
			classes["bigcluster"] = true
		case 9:
			salt := rapid.IntRange(0, 999).Draw(t, "salt")
			k := rapid.IntRange(1, o.Max).Draw(t, "bulk")
			if rapid.IntRange(0, 3).Draw(t, "bulksmall") > 0 && k > 40 {
				k = k%40 + 1
			}
			for i := 0; i < k; i++ {
				add(fmt.Sprintf("e%d-%d", salt, i))
			}
			classes["bulk"] = true
		}
	}
	// keep the set buildable: names must pairwise differ within the digest bits the fanout can consume in whole levels
	// (60 = the fewest bits any fanout 8..1024 can consume, used when the fanout is not known here)
	byPrefix := map[uint64]string{}
	for s := range set {
		k := murmur3.Sum64([]byte(s))
		if usable < 64 {
			k >>= uint(64 - usable)
		}
		if prev, ok := byPrefix[k]; !ok || s < prev {
			byPrefix[k] = s
		}
	}
	names := make([]string, 0, len(byPrefix))
	for _, s := range byPrefix {
		names = append(names, s)
	}
	sort.Strings(names)
	var cl []string
	for c := range classes {
		cl = append(cl, c)
	}
	sort.Strings(cl)
	return names, cl
}

func genFanout(t *rapid.T) int { return 8 << rapid.IntRange(0, 7).Draw(t, "fanlg") }

// genNamesFanout draws the fanout first so that the name groups can reach the deepest level that fanout can address.
func genNamesFanout(t *rapid.T, o nameOpts) ([]string, []string, int) {
	o.Fanout = genFanout(t)
	names, classes := genNames(t, o)
	return names, classes, o.Fanout
}

// ---------------------------------------------------------------- directory entries

type cidT = cid.Cid

type entrySpec struct {
	Name  string
	Cid   cid.Cid
	Tsize uint64
}

// entryFor derives a (cid, tsize) for a name; salt varies the sizes between cases. Link targets are of mixed kinds
// (CIDv1 raw 36 bytes, CIDv0 dag-pb 34 bytes, CIDv1 identity-hash of variable length) chosen by a hash of the name, so
// that size estimates cannot assume one link length.
func entryFor(name string, salt int) entrySpec {
	h := 0
	for i := 0; i < len(name); i++ {
		h = h*31 + int(name[i])
	}
	if h < 0 {
		h = -h
	}
	kind := 0
	switch h % 8 {
	case 1, 2:
		kind = 1
	case 3:
		kind = 2
	}
	return entryForKind(name, salt, kind)
}

func entryForKind(name string, salt, kind int) entrySpec {
	h := 0
	for i := 0; i < len(name); i++ {
		h = h*31 + int(name[i])
	}
	if h < 0 {
		h = -h
	}
	c := sumRaw([]byte("entry:" + name))
	switch kind {
	case 1:
		c = cid.NewCidV0(c.Hash())
	case 2:
		id := name
		if len(id) > 12 {
			// (distinct names must get distinct links: the size model is keyed by link)
			id = c.Hash().B58String()[:12]
		}
		mhash, err := mh.Sum([]byte("id:"+id), mh.IDENTITY, -1)
		if err != nil {
			panic(err)
		}
		c = cid.NewCidV1(codecRaw, mhash)
	}
	return entrySpec{Name: name, Cid: c, Tsize: uint64((h + salt*7919) % 100000)}
}

func pbEntries(es []entrySpec) []dagpb.PBLink {
	out := make([]dagpb.PBLink, len(es))
	for i, e := range es {
		l, err := builder.BuildUnixFSDirectoryEntry(e.Name, int64(e.Tsize), cidlink.Link{Cid: e.Cid})
		if err != nil {
			panic(err)
		}
		out[i] = l
	}
	return out
}

func bucket(n int) string {
	switch {
	case n == 0:
		return "0"
	case n == 1:
		return "1"
	case n <= 4:
		return "2-4"
	case n <= 16:
		return "5-16"
	case n <= 64:
		return "17-64"
	case n <= 256:
		return "65-256"
	case n <= 1024:
		return "257-1024"
	default:
		return ">1024"
	}
}
