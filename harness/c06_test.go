package harness

// C06 - preload / entity access fetches the whole entity, nothing beyond it, or fails.
// Generation over trees and targets; exhaustive enumeration of every single missing entity block per case.

import (
	"bytes"
	"context"
	"fmt"
	"github.com/ipfs/go-unixfsnode/file"
	"io"
	"io/fs"
	"testing"

	"github.com/ipfs/go-cid"
	"github.com/ipfs/go-unixfsnode"
	"github.com/ipld/go-ipld-prime"
	"github.com/ipld/go-ipld-prime/datamodel"
	cidlink "github.com/ipld/go-ipld-prime/linking/cid"
	"github.com/ipld/go-ipld-prime/traversal"
	"github.com/ipld/go-ipld-prime/traversal/selector"
	"pgregory.net/rapid"
)

const c06Rule = "case = (tree whose entries are real stored DAGs, a target entity reached by a generated path, access in {unixfs-preload reifier on the loaded root, path selector + MatchUnixFSPreloadSelector, path selector + MatchUnixFSEntitySelector + BytesConsumingMatcher}); " +
	"oracle = independent model: requested blocks minus the path blocks must equal the entity's block set (file: every block; sharded dir: root + every shard; plain dir: root) and contain no block of any entry; then EVERY entity block is made unavailable in turn (both error kinds) and the access must return an error; " +
	"non-trivial = entity with >= 3 blocks on >= 2 levels, and every fault run; distinct by (entity kind, block count bucket, access, fault position class)"

// c06Access performs the access and returns the requested blocks (excluding harness loads) and the error.
// c06Ctx is the context the accesses run under (Background unless a case installs one to cancel).
var c06Ctx = context.Background()

func c06Access(st *Store, root *tnode, target *tnode, path string, access string) (log []cid.Cid, err error, p any) {
	ls := st.LinkSystem()
	p, _ = safe(func() {
		if access == "NewUnixFSFileWithPreload(reified)" {
			// the preloading constructor handed a node that is already (lazily) reified
			rn, e := loadReified(ls, target.Root, "unixfs")
			if e != nil {
				err = fmt.Errorf("harness reify of entity root: %w", e)
				return
			}
			st.ResetLogs()
			_, err = file.NewUnixFSFileWithPreload(c06Ctx, rn, ls)
			log = st.ReadLog()
			return
		}
		if access == "entity-selector+AsBytes-consumer" {
			// the entity walk with a consumer that takes the matched file as one value
			sel, e := selector.CompileSelector(unixfsnode.UnixFSPathSelectorBuilder("", unixfsnode.MatchUnixFSEntitySelector, false))
			if e != nil {
				err = e
				return
			}
			pn, e := loadPlain(ls, target.Root)
			if e != nil {
				err = e
				return
			}
			st.ResetLogs()
			prog := traversal.Progress{Cfg: &traversal.Config{Ctx: c06Ctx, LinkSystem: *ls, LinkTargetNodePrototypeChooser: protoChooser}}
			err = prog.WalkMatching(pn, sel, func(p traversal.Progress, n datamodel.Node) error {
				if n.Kind() != datamodel.Kind_Bytes {
					return nil
				}
				_, e := n.AsBytes()
				return e
			})
			log = st.ReadLog()
			return
		}
		if access == "entity-selector+seeking-consumer" {
			// the entity walk with a consumer that first asks for the size, rewinds and then copies (what http.ServeContent does)
			sel, e := selector.CompileSelector(unixfsnode.UnixFSPathSelectorBuilder("", unixfsnode.MatchUnixFSEntitySelector, false))
			if e != nil {
				err = e
				return
			}
			pn, e := loadPlain(ls, target.Root)
			if e != nil {
				err = e
				return
			}
			st.ResetLogs()
			prog := traversal.Progress{Cfg: &traversal.Config{Ctx: c06Ctx, LinkSystem: *ls, LinkTargetNodePrototypeChooser: protoChooser}}
			err = prog.WalkMatching(pn, sel, func(p traversal.Progress, n datamodel.Node) error {
				lb, ok := n.(datamodel.LargeBytesNode)
				if !ok {
					return nil
				}
				rs, e := lb.AsLargeBytes()
				if e != nil {
					return e
				}
				if _, e := rs.Seek(0, io.SeekEnd); e != nil {
					return e
				}
				if _, e := rs.Seek(0, io.SeekStart); e != nil {
					return e
				}
				_, e = io.Copy(io.Discard, rs)
				return e
			})
			log = st.ReadLog()
			return
		}
		if access == "reifier-via-reifying-ls" {
			// the preload reifier on a link system that itself reifies every node it loads (NodeReifier = Reify): inner file
			// nodes reach the readers already reified
			pn, e := loadPlain(ls, target.Root)
			if e != nil {
				err = fmt.Errorf("harness load of entity root: %w", e)
				return
			}
			ls2 := *ls
			ls2.NodeReifier = unixfsnode.Reify
			st.ResetLogs()
			_, err = ls2.KnownReifiers["unixfs-preload"](ipld.LinkContext{Ctx: c06Ctx}, pn, &ls2)
			log = st.ReadLog()
			return
		}
		if access == "entity-walk-of-probed-node" {
			// the root is reified lazily, its size is probed (Seek to the end on a reader), then the entity walk starts from
			// that already reified node: it still has to touch every block
			rn, e := loadReified(ls, target.Root, "unixfs")
			if e != nil {
				err = fmt.Errorf("harness reify of entity root: %w", e)
				return
			}
			if lb, ok := rn.(datamodel.LargeBytesNode); ok {
				if rs, e := lb.AsLargeBytes(); e == nil {
					_, _ = rs.Seek(0, io.SeekEnd)
				}
			}
			sel, e := selector.CompileSelector(unixfsnode.UnixFSPathSelectorBuilder("", unixfsnode.MatchUnixFSEntitySelector, false))
			if e != nil {
				err = e
				return
			}
			st.ResetLogs()
			prog := traversal.Progress{Cfg: &traversal.Config{Ctx: c06Ctx, LinkSystem: *ls, LinkTargetNodePrototypeChooser: protoChooser}}
			err = prog.WalkMatching(rn, sel, unixfsnode.BytesConsumingMatcher)
			log = st.ReadLog()
			return
		}
		if access == "reifier" {
			pn, e := loadPlain(ls, target.Root)
			if e != nil {
				err = fmt.Errorf("harness load of entity root: %w", e)
				return
			}
			st.ResetLogs()
			_, err = ls.KnownReifiers["unixfs-preload"](ipld.LinkContext{Ctx: c06Ctx}, pn, ls)
			log = st.ReadLog()
			return
		}
		tsel := unixfsnode.MatchUnixFSPreloadSelector
		if access == "entity-selector" {
			tsel = unixfsnode.MatchUnixFSEntitySelector
		}
		sel, e := selector.CompileSelector(unixfsnode.UnixFSPathSelectorBuilder(path, tsel, false))
		if e != nil {
			err = e
			return
		}
		pn, e := loadPlain(ls, root.Root)
		if e != nil {
			err = fmt.Errorf("harness load of tree root: %w", e)
			return
		}
		st.ResetLogs()
		prog := traversal.Progress{Cfg: &traversal.Config{Ctx: c06Ctx, LinkSystem: *ls, LinkTargetNodePrototypeChooser: protoChooser}}
		err = prog.WalkMatching(pn, sel, unixfsnode.BytesConsumingMatcher)
		log = st.ReadLog()
	})
	return
}

// c06Cancelled repeats the access under a context that is cancelled when the k-th block of the access is requested,
// while storage keeps serving: the access may fail (it was told to stop) but if it reports success the whole entity
// must have been requested. Returns an error describing a violation.
func c06Cancelled(st *Store, root, target *tnode, path, access string, k int, mustFetch []cid.Cid) error {
	ctx, cancel := context.WithCancel(context.Background())
	defer cancel()
	c06Ctx = ctx
	st.CancelAt, st.Cancel = k, cancel
	log, err, p := c06Access(st, root, target, path, access)
	st.CancelAt, st.Cancel = 0, nil
	c06Ctx = context.Background()
	if p != nil {
		return fmt.Errorf("context cancelled at load #%d: panic %v", k, p)
	}
	if err != nil {
		return nil
	}
	got := cidSet(log)
	for i, c := range mustFetch {
		if !got[c] {
			return fmt.Errorf("context cancelled when load #%d was requested (storage kept serving): the access reported success although block #%d of %d of the entity (%s) was never requested", k, i+1, len(mustFetch), c)
		}
	}
	return nil
}

func TestC06_P_EntityFetch(t *testing.T) {
	ev := newEvid(t, c06Rule)
	rapid.Check(t, func(t *rapid.T) {
		root := genTree(t, 3, scale(8, 14))
		st := NewStore()
		if err := root.build(st); err != nil {
			t.Fatalf("build tree: %v", err)
		}
		segs, nodes := genWalk(t, root)
		target := nodes[len(nodes)-1]
		access := rapid.SampledFrom([]string{"reifier", "preload-selector", "entity-selector"}).Draw(t, "access")
		path, _ := renderPath(t, segs)
		pblocks, err := pathBlocks(st, nodes, segs)
		if err != nil {
			t.Fatal(err)
		}
		allowed := cidSet(target.Entity)
		onPath := cidSet(pblocks)
		kind := "file"
		if target.Dir {
			kind = "plain-dir"
			if target.Sharded {
				kind = "sharded-dir"
			}
		}
		desc := fmt.Sprintf("%s with %d blocks via %s at path %q", kind, len(target.Entity), access, path)

		log, err, p := c06Access(st, root, target, path, access)
		if p != nil {
			t.Fatalf("C06 [%s]: panic %v", desc, p)
		}
		if err != nil {
			t.Fatalf("C06 [%s]: fault-free access failed: %v", desc, err)
		}
		got := cidSet(log)
		for _, c := range log {
			if !allowed[c] && !(access != "reifier" && onPath[c]) {
				where := "unrelated"
				for name, k := range target.Kids {
					kb := map[cid.Cid]bool{}
					k.allBlocks(kb)
					if kb[c] {
						where = fmt.Sprintf("a block of entry %q", name)
					}
				}
				t.Fatalf("C06 [%s]: over-fetch: requested %s (%s)", desc, c, where)
			}
		}
		rootInHand := access == "reifier" || len(segs) == 0 // loaded by the harness, not by the access
		for i, c := range target.Entity {
			if i == 0 && rootInHand {
				continue
			}
			if !got[c] {
				t.Fatalf("C06 [%s]: entity block #%d %s was not requested: the entity is only partially loaded", desc, i, c)
			}
		}
		levels := 1
		if !target.Dir {
			ft, _ := st.FileTree(target.Root, 0)
			levels = ft.Depth()
		} else if target.Sharded {
			tr, _ := st.ShardTree(target.Root)
			levels = tr.Depth()
		}
		nt := len(target.Entity) >= 3 && levels >= 2
		ev.Case(fmt.Sprintf("%s b=%s %s", kind, bucket(len(target.Entity)), access), nt, "entity:"+kind, "access:"+access, fmt.Sprintf("levels:%d", levels), "blocks:"+bucket(len(target.Entity)))

		// the request's context is cancelled while some block of the access is being requested and storage keeps serving:
		// success must still mean the whole entity
		if len(log) > 0 {
			var mustFetch []cid.Cid
			for i, c := range target.Entity {
				if !(i == 0 && rootInHand) {
					mustFetch = append(mustFetch, c)
				}
			}
			k := rapid.IntRange(1, len(log)).Draw(t, "cancelAt")
			if cerr := c06Cancelled(st, root, target, path, access, k, mustFetch); cerr != nil {
				t.Fatalf("C06 [%s]: %v", desc, cerr)
			}
		}
		// fault enumeration: every entity block (the root too when reached through a path)
		nfault := 0
		for i, c := range target.Entity {
			if i == 0 && rootInHand {
				continue
			}
			if onPath[c] && i != 0 {
				continue // shared with the path: the traversal needs it anyway
			}
			for _, io_ := range []bool{false, true} {
				st.Missing = map[cid.Cid]bool{c: true}
				st.MissingIO = io_
				_, ferr, p := c06Access(st, root, target, path, access)
				st.Missing = map[cid.Cid]bool{}
				if p != nil {
					t.Fatalf("C06 [%s] block #%d missing: panic %v", desc, i, p)
				}
				if ferr == nil {
					t.Fatalf("C06 [%s]: entity block #%d %s unavailable (io=%v) but the access reported success (partially loaded entity)", desc, i, c, io_)
				}
				pos := "interior"
				if i == 0 {
					pos = "entity-root"
				} else if i == len(target.Entity)-1 {
					pos = "last"
				} else if i == 1 {
					pos = "first"
				}
				nfault++
				ev.Case(fmt.Sprintf("%s b=%s %s fault@%s io=%v", kind, bucket(len(target.Entity)), access, pos, io_), true, "fault:"+pos)
			}
			if i > 0 {
				// ... and with a bare well-known error value, one per block in rotation: io.EOF, fs.ErrNotExist, context.Canceled
				// ..., and values that mean something when go-ipld-prime or this library produce them themselves
				// (traversal.SkipMe: "leave this link out"; ErrNoSuchField; ErrIteratorOverread). Out of storage, for a block
				// the entity's own code asked for, they are failures. (The entity root is left out: the traversal loads it
				// itself, and go-ipld-prime documents SkipMe from the loader as a request to skip.)
				st.Missing = map[cid.Cid]bool{c: true}
				st.MissingBare = bareFaults[(i+len(target.Entity))%len(bareFaults)]
				_, ferr, p := c06Access(st, root, target, path, access)
				bare := st.MissingBare
				st.Missing, st.MissingBare = map[cid.Cid]bool{}, nil
				if p != nil {
					t.Fatalf("C06 [%s] block #%d failing with bare %v: panic %v", desc, i, bare, p)
				}
				if ferr == nil {
					t.Fatalf("C06 [%s]: the load of entity block #%d %s failed with the bare error value %T (%v) but the access reported success (partially loaded entity)", desc, i, c, bare, bare)
				}
				ev.Count("bare-fault", 1)
			}
		}
		ev.Sample(map[string]any{"entity": kind, "entity_blocks": len(target.Entity), "levels": levels, "access": access, "path": path, "requested": len(log), "fault_runs": nfault, "store_blocks": st.Len()})
	})
}

const c06HandRule = "case = hand-assembled well-formed file DAG with 1..7 chunks any of which may be EMPTY (leading / middle / trailing), raw or dag-pb leaves, 2 or 3 levels, accessed by the preload reifier, the preload selector and the entity selector + BytesConsumingMatcher; " +
	"oracle = every block of the file must be requested (set equality with the independent model) and, with any single block unavailable, the access must fail; non-trivial = a DAG with at least one empty chunk; distinct by (chunk pattern, leaf kind, levels, access)"

// TestC06_P_HandmadeFiles: "every block of the file" includes blocks that hold no bytes.
func TestC06_P_HandmadeFiles(t *testing.T) {
	ev := newEvid(t, c06HandRule)
	rapid.Check(t, func(t *rapid.T) {
		fc := genHandFileDAGOpt(t, handOpts{OldStyle: true, SpareBlockSize: true, BigChunks: true})
		access := rapid.SampledFrom([]string{"reifier", "preload-selector", "entity-selector", "entity-walk-of-probed-node", "reifier-via-reifying-ls", "NewUnixFSFileWithPreload(reified)", "entity-selector+seeking-consumer", "entity-selector+AsBytes-consumer"}).Draw(t, "access")
		target := &tnode{Root: fc.Root, Data: fc.Data, Entity: fc.Tree.PreOrder()}
		log, err, p := c06Access(fc.St, target, target, "", access)
		if p != nil {
			t.Fatalf("C06 [%s via %s]: panic %v", fc.Desc, access, p)
		}
		if err != nil {
			t.Fatalf("C06 [%s via %s]: fault-free access failed: %v", fc.Desc, access, err)
		}
		got := cidSet(log)
		allowed := cidSet(target.Entity)
		for _, c := range log {
			if !allowed[c] {
				t.Fatalf("C06 [%s via %s]: requested %s which is not a block of the file", fc.Desc, access, c)
			}
		}
		for i, c := range target.Entity[1:] {
			if !got[c] {
				t.Fatalf("C06 [%s via %s]: block #%d %s of the file was never requested (%d of %d blocks requested)", fc.Desc, access, i+1, c, len(got), len(target.Entity)-1)
			}
		}
		hasEmpty := false
		for _, n := range fc.Tree.All() {
			if len(n.Kids) == 0 && n.Start == n.End {
				hasEmpty = true
			}
		}
		if len(target.Entity) > 1 {
			k := rapid.IntRange(1, len(target.Entity)).Draw(t, "cancelAt")
			if cerr := c06Cancelled(fc.St, target, target, "", access, k, target.Entity[1:]); cerr != nil {
				t.Fatalf("C06 [%s via %s]: %v", fc.Desc, access, cerr)
			}
		}
		ev.Case(fc.Writer+" "+access, hasEmpty, "access:"+access, fmt.Sprintf("hasEmptyChunk:%v", hasEmpty))
		for i, c := range target.Entity[1:] {
			fc.St.Missing = map[cid.Cid]bool{c: true}
			// (the store reports the missing block in its own way, or as one of the bare well-known values)
			fc.St.MissingBare = []error{nil, nil, io.EOF, io.ErrUnexpectedEOF, fs.ErrNotExist}[i%5]
			_, ferr, p := c06Access(fc.St, target, target, "", access)
			fc.St.Missing, fc.St.MissingBare = map[cid.Cid]bool{}, nil
			if p != nil {
				t.Fatalf("C06 [%s via %s] block #%d missing: panic %v", fc.Desc, access, i+1, p)
			}
			if ferr == nil {
				t.Fatalf("C06 [%s via %s]: block #%d %s unavailable (store error: %v) but the access reported success", fc.Desc, access, i+1, c, []error{nil, nil, io.EOF, io.ErrUnexpectedEOF, fs.ErrNotExist}[i%5])
			}
			ev.Case(fmt.Sprintf("%s %s fault%d", fc.Writer, access, i), true, "fault")
		}
		ev.Sample(map[string]any{"file": fc.Desc, "access": access, "blocks": len(target.Entity)})
	})
}

// F12 (fixed): a leading empty chunk is a block of the file too.
func TestC06_R_F12_LeadingEmptyChunk(t *testing.T) {
	for _, leaves := range [][]string{{""}, {"", "ab", "cd"}, {"", "", "x"}, {"ab", "", "cd"}, {"ab", "cd", ""}} {
		m := &mnode{HasData: true, UFS: &ufsFields{Type: 2}}
		tot := uint64(0)
		for _, l := range leaves {
			m.Links = append(m.Links, mlink{Tsize: i64p(int64(len(l))), Child: &mnode{IsRaw: true, Raw: []byte(l)}})
			m.UFS.BlockSizes = append(m.UFS.BlockSizes, uint64(len(l)))
			tot += uint64(len(l))
		}
		m.UFS.FileSize = &tot
		st := NewStore()
		ls := st.LinkSystem()
		root, err := m.store(st, ls)
		if err != nil {
			t.Fatal(err)
		}
		ft, _ := st.FileTree(root, 0)
		pn, _ := loadPlain(ls, root)
		st.ResetLogs()
		if _, err := ls.KnownReifiers["unixfs-preload"](lc0, pn, ls); err != nil {
			t.Fatalf("C06 F12 %q: %v", leaves, err)
		}
		got := cidSet(st.ReadLog())
		for _, c := range ft.PreOrder()[1:] {
			if !got[c] {
				t.Fatalf("C06 F12: file with chunks %q: preload never requested block %s", leaves, c)
			}
		}
		st.Missing = map[cid.Cid]bool{sumRaw(nil): true}
		if _, err := ls.KnownReifiers["unixfs-preload"](lc0, pn, ls); err == nil {
			t.Fatalf("C06 F12: file with chunks %q: preload succeeded although the empty chunk's block is unavailable", leaves)
		}
	}
}

// F13: a dag-pb node of UnixFS type Raw that has links is read as a multi-block file; the preload view must preload it.
func TestC06_R_F13_RawTypedFileWithLinks(t *testing.T) {
	for _, rootType := range []uint64{0, 2} {
		for _, midType := range []uint64{0, 2} {
			leaf := func(s string) *mnode { return &mnode{IsRaw: true, Raw: []byte(s)} }
			mid := &mnode{HasData: true, UFS: &ufsFields{Type: midType, BlockSizes: []uint64{2, 2}, FileSize: u64p(4)},
				Links: []mlink{{Tsize: i64p(2), Child: leaf("ab")}, {Tsize: i64p(2), Child: leaf("cd")}}}
			m := &mnode{HasData: true, UFS: &ufsFields{Type: rootType, BlockSizes: []uint64{4, 2}, FileSize: u64p(6)},
				Links: []mlink{{Tsize: i64p(4), Child: mid}, {Tsize: i64p(2), Child: leaf("ef")}}}
			st := NewStore()
			ls := st.LinkSystem()
			root, err := m.store(st, ls)
			if err != nil {
				t.Fatal(err)
			}
			ft, _ := st.FileTree(root, 0)
			pn, _ := loadPlain(ls, root)
			st.ResetLogs()
			rn, err := ls.KnownReifiers["unixfs-preload"](lc0, pn, ls)
			if err != nil {
				t.Fatalf("C06 F13 types %d/%d: %v", rootType, midType, err)
			}
			got := cidSet(st.ReadLog())
			for _, c := range ft.PreOrder()[1:] {
				if !got[c] {
					t.Fatalf("C06 F13: file with root type %d, interior type %d: preload never requested block %s", rootType, midType, c)
				}
			}
			if b, err := rn.AsBytes(); err != nil || string(b) != "abcdef" {
				t.Fatalf("C06 F13: content %q err %v", b, err)
			}
			for _, c := range ft.PreOrder()[1:] {
				st.Missing = map[cid.Cid]bool{c: true}
				if _, err := ls.KnownReifiers["unixfs-preload"](lc0, pn, ls); err == nil {
					t.Fatalf("C06 F13: file with root type %d, interior type %d: preload succeeded although block %s is unavailable", rootType, midType, c)
				}
			}
		}
	}
}

// Link systems set up independently must stay independent: what the owner of one does to its own KnownReifiers table
// must not change how another one preloads.
func TestC06_R_LinkSystemsAreIndependent(t *testing.T) {
	st := NewStore()
	root, _, err := buildFile(st, lcgBytes(40, 1, 0), "size-4", 2)
	if err != nil {
		t.Fatal(err)
	}
	ft, _ := st.FileTree(root, 0)
	mk := func() *ipld.LinkSystem {
		ls := cidlink.DefaultLinkSystem()
		ls.StorageReadOpener = st.openRead
		unixfsnode.AddUnixFSReificationToLinkSystem(&ls)
		return &ls
	}
	a := mk()
	b := mk()
	// the owner of a customises its own table (e.g. no preloading wanted there)
	a.KnownReifiers["unixfs-preload"] = unixfsnode.Reify
	delete(a.KnownReifiers, "unixfs")
	c := mk()
	for name, ls := range map[string]*ipld.LinkSystem{"created before the edit": b, "created after the edit": c} {
		pn, err := loadPlain(ls, root)
		if err != nil {
			t.Fatal(err)
		}
		st.ResetLogs()
		r, ok := ls.KnownReifiers["unixfs-preload"]
		if !ok || ls.KnownReifiers["unixfs"] == nil {
			t.Fatalf("C06: link system %s lost a reifier after another link system's table was edited", name)
		}
		if _, err := r(lc0, pn, ls); err != nil {
			t.Fatal(err)
		}
		got := cidSet(st.ReadLog())
		for _, blk := range ft.PreOrder()[1:] {
			if !got[blk] {
				t.Fatalf("C06: link system %s no longer preloads (block %s not requested) after ANOTHER link system's KnownReifiers was edited", name, blk)
			}
		}
	}
}

// Files of several MiB (and one beyond 64 MiB) that end in empty chunks, hand-assembled with consistent sizes, flat and
// with an intermediate level: every access kind has to request every block, the trailing empty ones included, and has to
// fail when any one of them is unavailable - a reader that stops as soon as it has FileSize bytes never gets to them.
func TestC06_R_MultiMiBFilesWithTrailingEmptyChunks(t *testing.T) {
	accesses := []string{"reifier", "preload-selector", "entity-selector", "entity-walk-of-probed-node", "reifier-via-reifying-ls", "NewUnixFSFileWithPreload(reified)", "entity-selector+seeking-consumer", "entity-selector+AsBytes-consumer"}
	for _, c := range []struct {
		leaves, leafLen int
		threeLevels     bool
	}{{5, 1 << 20, false}, {6, 1 << 20, true}, {66, 1 << 20, false}} {
		interior := func(kids []*mnode, sizes []uint64) (*mnode, uint64) {
			m := &mnode{HasData: true, UFS: &ufsFields{Type: 2}}
			tot := uint64(0)
			for i, k := range kids {
				m.Links = append(m.Links, mlink{Tsize: i64p(int64(sizes[i])), Child: k})
				m.UFS.BlockSizes = append(m.UFS.BlockSizes, sizes[i])
				tot += sizes[i]
			}
			m.UFS.FileSize = u64p(tot)
			return m, tot
		}
		var kids []*mnode
		var sizes []uint64
		for i := 0; i < c.leaves; i++ {
			kids = append(kids, &mnode{IsRaw: true, Raw: lcgBytes(c.leafLen, byte(i+1), 0)})
			sizes = append(sizes, uint64(c.leafLen))
		}
		// two trailing empty chunks: an empty raw block and an empty dag-pb file leaf
		kids = append(kids, &mnode{IsRaw: true, Raw: nil}, &mnode{HasData: true, UFS: &ufsFields{Type: 2, FileSize: u64p(0)}})
		sizes = append(sizes, 0, 0)
		var root *mnode
		if c.threeLevels {
			a, as := interior(kids[:3], sizes[:3])
			b, bs := interior(kids[3:], sizes[3:])
			root, _ = interior([]*mnode{a, b}, []uint64{as, bs})
		} else {
			root, _ = interior(kids, sizes)
		}
		st := NewStore()
		rc, err := root.store(st, st.LinkSystem())
		if err != nil {
			t.Fatal(err)
		}
		ft, err := st.FileTree(rc, 0)
		if err != nil {
			t.Fatal(err)
		}
		entity := ft.PreOrder()
		target := &tnode{Root: rc, Entity: entity}
		desc := fmt.Sprintf("%d x %d bytes + 2 empty chunks, three levels: %v", c.leaves, c.leafLen, c.threeLevels)
		acc := accesses
		if c.leaves > 10 {
			acc = []string{"reifier", "entity-selector+AsBytes-consumer"} // (the 66 MiB file: two routes, one streaming and one taking the whole value)
		}
		for _, access := range acc {
			if access == "reifier-via-reifying-ls" || access == "NewUnixFSFileWithPreload(reified)" {
				continue // (these two routes re-read a whole sub-file per Read call - tens of seconds at this size; they are exercised on the generated files, up to hundreds of KiB)
			}
			log, err, p := c06Access(st, target, target, "", access)
			if p != nil || err != nil {
				t.Fatalf("C06 [%s via %s]: fault-free access failed: %v %v", desc, access, err, p)
			}
			got := cidSet(log)
			for i, b := range entity[1:] {
				if !got[b] {
					t.Fatalf("C06 [%s via %s]: block #%d of %d (%s) was never requested", desc, access, i+1, len(entity)-1, b)
				}
			}
			// the trailing (empty) blocks and one content block unavailable, in turn
			for _, i := range []int{len(entity) - 1, len(entity) - 2, len(entity) - 3} {
				st.Missing = map[cid.Cid]bool{entity[i]: true}
				_, ferr, p := c06Access(st, target, target, "", access)
				st.Missing = map[cid.Cid]bool{}
				if p != nil {
					t.Fatalf("C06 [%s via %s] block #%d missing: panic %v", desc, access, i, p)
				}
				if ferr == nil {
					t.Fatalf("C06 [%s via %s]: block #%d of %d (%s) unavailable but the access reported success", desc, access, i, len(entity)-1, entity[i])
				}
			}
		}
	}
}

// A shard block written by a careless writer: two of its child-shard links carry the same slot label (the reader finds
// children by position, the label only tells values from shards). Both children are shard blocks of the directory being
// interpreted: preload and the entity walk fetch both, and report an error if either cannot be loaded.
func TestC06_R_ShardWithRepeatedSlotLabel(t *testing.T) {
	for _, fanout := range []int{8, 256} {
		st := NewStore()
		var es []entrySpec
		for i := 0; i < 40*fanout/8; i++ {
			es = append(es, entryFor(fmt.Sprintf("entry-%04d", i), 0))
		}
		orig, _, err := buildSharded(st, es, fanout)
		if err != nil {
			t.Fatal(err)
		}
		bi, err := st.Decode(orig)
		if err != nil {
			t.Fatal(err)
		}
		pad := padWidth(fanout)
		var kids []int
		for i, l := range bi.Links {
			if l.Name != nil && len(*l.Name) == pad {
				kids = append(kids, i)
			}
		}
		if len(kids) < 2 {
			t.Fatalf("harness: root shard has %d child shards", len(kids))
		}
		links := append([]LinkInfo{}, bi.Links...)
		links[kids[1]].Name = strp(*links[kids[0]].Name)
		raw := encodePBRaw(links, bi.Data, true)
		root, err := pbProto.Prefix.Sum(raw)
		if err != nil {
			t.Fatal(err)
		}
		st.Put(root, raw)
		var shardBlocks []cid.Cid
		var walk func(c cid.Cid)
		walk = func(c cid.Cid) {
			shardBlocks = append(shardBlocks, c)
			b, err := st.Decode(c)
			if err != nil {
				t.Fatal(err)
			}
			for _, l := range b.Links {
				if l.Name != nil && len(*l.Name) == pad {
					walk(l.Cid)
				}
			}
		}
		walk(root)
		for _, access := range []string{"unixfs-preload", "preload-selector", "entity-selector"} {
			run := func() error {
				ls := st.LinkSystem()
				pn, err := loadPlain(ls, root)
				if err != nil {
					return err
				}
				st.ResetLogs()
				if access == "unixfs-preload" {
					_, err = ls.KnownReifiers["unixfs-preload"](lcS, pn, ls)
					return err
				}
				target := unixfsnode.MatchUnixFSPreloadSelector
				if access == "entity-selector" {
					target = unixfsnode.MatchUnixFSEntitySelector
				}
				sel, err := selector.CompileSelector(unixfsnode.UnixFSPathSelectorBuilder("", target, false))
				if err != nil {
					return err
				}
				prog := traversal.Progress{Cfg: &traversal.Config{Ctx: sessionCtx, LinkSystem: *ls, LinkTargetNodePrototypeChooser: protoChooser}}
				return prog.WalkMatching(pn, sel, func(p traversal.Progress, n datamodel.Node) error { return nil })
			}
			var err error
			must(t, access, func() { err = run() })
			if err != nil {
				t.Fatalf("C06: fanout %d, root shard with a repeated slot label, %s on a complete store: %v", fanout, access, err)
			}
			got := cidSet(st.ReadLog())
			for i, c := range shardBlocks[1:] {
				if !got[c] {
					t.Fatalf("C06: fanout %d, root shard with a repeated slot label, %s: shard block #%d of %d (%s) was never requested (requested %d blocks)", fanout, access, i+2, len(shardBlocks), c, len(got))
				}
			}
			for i, c := range shardBlocks[1:] {
				st.Missing = map[cid.Cid]bool{c: true}
				must(t, access, func() { err = run() })
				st.Missing = map[cid.Cid]bool{}
				if err == nil {
					t.Fatalf("C06: fanout %d, root shard with a repeated slot label, %s with shard block #%d of %d unavailable reported no error", fanout, access, i+2, len(shardBlocks))
				}
			}
		}
	}
}

// File DAGs far deeper than any importer nests them (a ladder: every level holds one chunk and the next level): 513 .. 3000
// levels are preloaded and walked completely - every block is requested, the bytes are complete, and the walk fails when
// the deepest block is unavailable.
func TestC06_R_VeryDeepFileDAGs(t *testing.T) {
	for _, levels := range []int{511, 512, 513, 700, 3000} {
		var want []byte
		leaves := make([][]byte, levels+1)
		for i := range leaves {
			leaves[i] = []byte{byte(i), byte(i >> 8), byte(levels), 'x'}
			want = append(want, leaves[i]...)
		}
		node := &mnode{IsRaw: true, Raw: leaves[levels]}
		size := uint64(len(leaves[levels]))
		for i := levels - 1; i >= 0; i-- {
			m := &mnode{HasData: true, UFS: &ufsFields{Type: 2, BlockSizes: []uint64{uint64(len(leaves[i])), size}, FileSize: u64p(uint64(len(leaves[i])) + size)}}
			m.Links = []mlink{{Tsize: i64p(int64(len(leaves[i]))), Child: &mnode{IsRaw: true, Raw: leaves[i]}}, {Tsize: i64p(int64(size) + 50), Child: node}}
			node, size = m, size+uint64(len(leaves[i]))
		}
		st := NewStore()
		ls := st.LinkSystem()
		root, err := node.store(st, ls)
		if err != nil {
			t.Fatal(err)
		}
		ft, _ := st.FileTree(root, 0)
		all := ft.PreOrder()
		if len(all) != 2*levels+1 {
			t.Fatalf("HARNESS: %d blocks for %d levels", len(all), levels)
		}
		pn, _ := loadPlain(ls, root)
		for _, how := range []string{"unixfs-preload", "entity"} {
			st.Missing = nil
			st.ResetLogs()
			var got []byte
			var err error
			must(t, how, func() { got, err = c06DeepWalk(st, ls, pn, root, how) })
			if err != nil {
				t.Fatalf("C06: file DAG %d levels deep, %s: %v", levels, how, err)
			}
			seen := cidSet(st.ReadLog())
			for i, c := range all[1:] {
				if !seen[c] {
					t.Fatalf("C06: file DAG %d levels deep, %s: block #%d of %d (%s) was never requested", levels, how, i+1, len(all), c)
				}
			}
			if !bytes.Equal(got, want) {
				t.Fatalf("C06: file DAG %d levels deep, %s: %d bytes delivered, %d expected", levels, how, len(got), len(want))
			}
			for _, c := range []cid.Cid{all[len(all)-1], all[len(all)-2], all[len(all)/2]} {
				st.Missing = map[cid.Cid]bool{c: true}
				must(t, how, func() { _, err = c06DeepWalk(st, ls, pn, root, how) })
				if err == nil {
					t.Fatalf("C06: file DAG %d levels deep, %s: succeeded although block %s is unavailable", levels, how, c)
				}
			}
		}
	}
}

func c06DeepWalk(st *Store, ls *ipld.LinkSystem, pn datamodel.Node, root cid.Cid, how string) ([]byte, error) {
	if how == "unixfs-preload" {
		rn, err := ls.KnownReifiers["unixfs-preload"](lc0, pn, ls)
		if err != nil {
			return nil, err
		}
		return rn.AsBytes()
	}
	sel, err := selector.CompileSelector(unixfsnode.MatchUnixFSEntitySelector.Node())
	if err != nil {
		return nil, err
	}
	var out []byte
	prog := traversal.Progress{Cfg: &traversal.Config{LinkSystem: *ls, LinkTargetNodePrototypeChooser: protoChooser}}
	err = prog.WalkMatching(pn, sel, func(p traversal.Progress, n datamodel.Node) error {
		b, err := n.AsBytes()
		out = b
		return err
	})
	return out, err
}

// One reified file node that has served positioned reads before: a later whole-file use of that same node (a second
// reader, AsBytes, the entity walk over it) still asks for every block - nothing an earlier reader opened stands in for a
// block of the DAG.
func TestC06_R_WholeUseAfterPositionedReadsOnOneNode(t *testing.T) {
	rapid.Check(t, func(t *rapid.T) {
		st := NewStore()
		w := rapid.IntRange(2, 4).Draw(t, "width")
		n := rapid.IntRange(w*w*4+1, w*w*w*4+40).Draw(t, "len")
		content := make([]byte, n)
		for i := range content {
			content[i] = byte(i*7 + i>>8)
		}
		root, _, err := buildFile(st, content, "size-4", w)
		if err != nil {
			t.Fatal(err)
		}
		ls := st.LinkSystem()
		ft, _ := st.FileTree(root, 0)
		all := ft.PreOrder()
		rn, err := loadReified(ls, root, "unixfs")
		if err != nil {
			t.Fatal(err)
		}
		lb := rn.(datamodel.LargeBytesNode)
		for k := rapid.IntRange(1, 4).Draw(t, "positionedReads"); k > 0; k-- {
			rs, err := lb.AsLargeBytes()
			if err != nil {
				t.Fatal(err)
			}
			off := rapid.IntRange(0, n-1).Draw(t, "off")
			if _, err := rs.Seek(int64(off), io.SeekStart); err != nil {
				t.Fatal(err)
			}
			buf := make([]byte, rapid.IntRange(1, 9).Draw(t, "count"))
			k, _ := io.ReadFull(rs, buf)
			if !bytes.Equal(buf[:k], content[off:off+k]) {
				t.Fatalf("C06: positioned read at %d: %x, expected %x", off, buf[:k], content[off:off+k])
			}
		}
		victim := all[rapid.IntRange(1, len(all)-1).Draw(t, "victim")]
		how := rapid.SampledFrom([]string{"AsBytes", "reader", "entity-walk"}).Draw(t, "how")
		run := func() ([]byte, error) {
			switch how {
			case "AsBytes":
				return rn.AsBytes()
			case "reader":
				rs, err := lb.AsLargeBytes()
				if err != nil {
					return nil, err
				}
				return io.ReadAll(rs)
			}
			sel, err := selector.CompileSelector(unixfsnode.MatchUnixFSEntitySelector.Node())
			if err != nil {
				return nil, err
			}
			var out []byte
			prog := traversal.Progress{Cfg: &traversal.Config{LinkSystem: *ls, LinkTargetNodePrototypeChooser: protoChooser}}
			err = prog.WalkMatching(rn, sel, func(p traversal.Progress, n datamodel.Node) error {
				b, err := n.AsBytes()
				out = b
				return err
			})
			return out, err
		}
		st.ResetLogs()
		var got []byte
		must(t, how, func() { got, err = run() })
		if err != nil || !bytes.Equal(got, content) {
			t.Fatalf("C06: %s on a node that served positioned reads: %d bytes, err %v", how, len(got), err)
		}
		seen := cidSet(st.ReadLog())
		for i, c := range all[1:] {
			if !seen[c] {
				t.Fatalf("C06: %s on a node that served positioned reads (%d bytes, width %d): block #%d (%s) was not requested", how, n, w, i+1, c)
			}
		}
		st.Missing = map[cid.Cid]bool{victim: true}
		must(t, how, func() { _, err = run() })
		if err == nil {
			t.Fatalf("C06: %s on a node that served positioned reads (%d bytes, width %d) succeeded although block %s is unavailable", how, n, w, victim)
		}
	})
}
