package harness

// Helpers that call the builders under test.

import (
	"bytes"
	"fmt"
	"io"

	"github.com/ipfs/go-cid"
	"github.com/ipfs/go-unixfsnode/data/builder"
	"github.com/ipld/go-ipld-prime"
	"github.com/ipld/go-ipld-prime/datamodel"
	mh "github.com/multiformats/go-multihash"
)

func linkCid(l datamodel.Link) cid.Cid {
	if l == nil {
		return cid.Undef
	}
	return cidOf(l)
}

// buildFileR builds a file from r with the builder under test at link width w.
func buildFileR(ls *ipld.LinkSystem, r io.Reader, chunker string, w int) (c cid.Cid, size uint64, err error) {
	withWidth(w, func() {
		var l datamodel.Link
		l, size, err = builder.BuildUnixFSFile(r, chunker, ls)
		c = linkCid(l)
	})
	return
}

func buildFile(st *Store, data []byte, chunker string, w int) (cid.Cid, uint64, error) {
	return buildFileR(st.LinkSystem(), bytes.NewReader(data), chunker, w)
}

func buildSharded(st *Store, es []entrySpec, fanout int) (cid.Cid, uint64, error) {
	l, sz, err := builder.BuildUnixFSShardedDirectory(fanout, mh.MURMUR3X64_64, pbEntries(es), st.LinkSystem())
	return linkCid(l), sz, err
}

func buildDir(st *Store, es []entrySpec) (cid.Cid, uint64, error) {
	l, sz, err := builder.BuildUnixFSDirectory(pbEntries(es), st.LinkSystem())
	return linkCid(l), sz, err
}

// buildShardedHasher builds with an explicit multihash code for the name hash (the API allows any registered hasher).
func buildShardedHasher(st *Store, es []entrySpec, fanout int, hasher uint64) (cid.Cid, uint64, error) {
	l, sz, err := builder.BuildUnixFSShardedDirectory(fanout, hasher, pbEntries(es), st.LinkSystem())
	return linkCid(l), sz, err
}

// otherBuilds runs a few builds with rarely used options (another name-hash function, other fanouts) - used as an
// intervening history: later builds must not be affected.
func otherBuilds(salt int) {
	var es []entrySpec
	for i := 0; i < 60+salt%40; i++ {
		es = append(es, entryFor(fmt.Sprintf("other-%d-%d", salt, i), salt))
	}
	for _, f := range []int{8, 256} {
		_, _, _ = buildShardedHasher(NewStore(), es, f, mh.SHA2_256)
	}
}
