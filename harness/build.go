package harness

// Helpers that call the builders under test.

import (
	"bytes"
	"fmt"
	"io"

	"github.com/ipfs/go-cid"
	"github.com/ipfs/go-unixfsnode/data/builder"
	"github.com/ipld/go-ipld-prime"
	"github.com/ipld/go-ipld-prime/datamodel"
	mh "github.com/multiformats/go-multihash"
	"pgregory.net/rapid"
)

func linkCid(l datamodel.Link) cid.Cid {
	if l == nil {
		return cid.Undef
	}
	return cidOf(l)
}

// buildFileR builds a file from r with the builder under test at link width w.
func buildFileR(ls *ipld.LinkSystem, r io.Reader, chunker string, w int) (c cid.Cid, size uint64, err error) {
	withWidth(w, func() {
		var l datamodel.Link
		l, size, err = builder.BuildUnixFSFile(r, chunker, ls)
		c = linkCid(l)
	})
	return
}

func buildFile(st *Store, data []byte, chunker string, w int) (cid.Cid, uint64, error) {
	return buildFileR(st.LinkSystem(), bytes.NewReader(data), chunker, w)
}

func buildSharded(st *Store, es []entrySpec, fanout int) (cid.Cid, uint64, error) {
	l, sz, err := builder.BuildUnixFSShardedDirectory(fanout, mh.MURMUR3X64_64, pbEntries(es), st.LinkSystem())
	return linkCid(l), sz, err
}

func buildDir(st *Store, es []entrySpec) (cid.Cid, uint64, error) {
	l, sz, err := builder.BuildUnixFSDirectory(pbEntries(es), st.LinkSystem())
	return linkCid(l), sz, err
}

// buildShardedHasher builds with an explicit multihash code for the name hash (the API allows any registered hasher).
func buildShardedHasher(st *Store, es []entrySpec, fanout int, hasher uint64) (cid.Cid, uint64, error) {
	l, sz, err := builder.BuildUnixFSShardedDirectory(fanout, hasher, pbEntries(es), st.LinkSystem())
	return linkCid(l), sz, err
}

// readerNoise uses an UNRELATED sharded directory through the less travelled accessors (typed Lookup and Iterator, failed
// lookups, an abandoned iteration) - an earlier history in the same process that later reads must not depend on.
func readerNoise(salt int) {
	st := NewStore()
	var es []entrySpec
	for i := 0; i < 50+salt%30; i++ {
		es = append(es, entryFor(fmt.Sprintf("noise-%d-%d", salt, i), salt))
	}
	root, _, err := buildSharded(st, es, []int{8, 16, 256, 1024}[salt%4])
	if err != nil {
		return
	}
	rn, err := loadReified(st.LinkSystem(), root, "unixfs")
	if err != nil {
		return
	}
	nd, ok := rn.(nativeDir)
	if !ok {
		return
	}
	_, _ = rn.LookupByString("absent")
	it := nd.Iterator()
	for i := 0; i < 5 && !it.Done(); i++ {
		it.Next()
	}
	mi := rn.MapIterator()
	for i := 0; i < 3 && !mi.Done(); i++ {
		_, _, _ = mi.Next()
	}
	// which call comes last matters (whatever it leaves behind is what the next user of the package finds)
	switch salt % 3 {
	case 0:
		nd.Lookup(pbString(es[salt%len(es)].Name))
	case 1:
		nd.Lookup(pbString("absent-name"))
	default:
		_, _ = rn.LookupBySegment(datamodel.PathSegmentOfString(es[salt%len(es)].Name))
	}
}

// failedBuilds runs a few builds that FAIL part-way (a write that is refused at open, while writing - optionally after
// accepting part of the bytes - or at commit; error values from the fault palette) - used as an intervening history: a
// build that failed must leave nothing behind that changes what later builds return.
func failedBuilds(t *rapid.T) string {
	desc := ""
	n := rapid.IntRange(1, 3).Draw(t, "failedBuilds")
	for i := 0; i < n; i++ {
		bad := NewStore()
		k := rapid.IntRange(1, 4).Draw(t, "failAt")
		bad.FaultKind = genWriteFaultKind(t)
		stage := rapid.SampledFrom([]string{"open", "write", "write-partial", "write-partial", "commit"}).Draw(t, "failStage")
		switch stage {
		case "open":
			bad.FailOpenAt = k
		case "write":
			bad.FailWriteAt = k
		case "write-partial":
			bad.FailWriteAt = k
			bad.PartialWrite = true
		default:
			bad.FailCommitAt = k
		}
		what := rapid.SampledFrom([]string{"file", "sharded", "dir", "symlink"}).Draw(t, "failedWhat")
		switch what {
		case "file":
			_, _, _ = buildFile(bad, lcgBytes(rapid.IntRange(1, 200).Draw(t, "failedLen"), 3, 0), "size-16", 3)
		case "sharded":
			var es []entrySpec
			for j := 0; j < 40; j++ {
				es = append(es, entryFor(fmt.Sprintf("failed-%d", j), 1))
			}
			_, _, _ = buildSharded(bad, es, 8)
		case "dir":
			_, _, _ = buildDir(bad, []entrySpec{entryFor("a", 1), entryFor("b", 2)})
		default:
			_, _, _ = builder.BuildUnixFSSymlink("some/target", bad.LinkSystem())
		}
		desc += fmt.Sprintf("%s@%s#%d ", what, stage, k)
	}
	return desc
}

// otherBuilds runs a few builds with rarely used options (another name-hash function, other fanouts) - used as an
// intervening history: later builds must not be affected.
func otherBuilds(salt int) {
	var es []entrySpec
	for i := 0; i < 60+salt%40; i++ {
		es = append(es, entryFor(fmt.Sprintf("other-%d-%d", salt, i), salt))
	}
	for _, f := range []int{8, 256} {
		_, _, _ = buildShardedHasher(NewStore(), es, f, mh.SHA2_256)
	}
}
