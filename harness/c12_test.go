package harness

// C12 - unavailable blocks surface as errors, never truncated / wrong / not-found results.
// Generation over DAG shapes, exhaustive enumeration over single-block faults of each generated DAG.

import (
	"bytes"
	"fmt"
	"github.com/ipld/go-ipld-prime/traversal"
	"github.com/ipld/go-ipld-prime/traversal/selector"
	"io"
	"sort"
	"testing"

	"github.com/ipfs/go-cid"
	"github.com/ipfs/go-unixfsnode"
	"github.com/ipld/go-ipld-prime"
	"github.com/ipld/go-ipld-prime/datamodel"
	cidlink "github.com/ipld/go-ipld-prime/linking/cid"
	"github.com/ipld/go-ipld-prime/node/basicnode"
	"pgregory.net/rapid"
)

// readAllStream reads rs to the end with a small buffer, returning what was delivered and the terminating error.
func readAllStream(rs io.Reader, bufSize int) ([]byte, error) {
	var out []byte
	buf := make([]byte, bufSize)
	zero := 0
	for {
		n, err := rs.Read(buf)
		out = append(out, buf[:n]...)
		if err != nil {
			return out, err
		}
		if n == 0 {
			zero++
			if zero > 1000 {
				return out, fmt.Errorf("no progress")
			}
		} else {
			zero = 0
		}
	}
}

// c12ReadFaulty reads the whole file with the store's current fault plan; returns bytes delivered and the error.
func c12ReadFaulty(fc *fileCase, mode string) (got []byte, err error, perr any) {
	perr, _ = safe(func() {
		ls := fc.St.LinkSystem()
		var rn datamodel.Node
		rn, err = loadReified(ls, fc.Root, "unixfs")
		if err != nil {
			return
		}
		if mode == "AsBytes" {
			got, err = rn.AsBytes()
			return
		}
		if mode == "matcher" {
			// the library's own consumer: a walk that matches the (reified) file and hands it to BytesConsumingMatcher
			sel, e := selector.CompileSelector(unixfsnode.UnixFSPathSelectorBuilder("", unixfsnode.MatchUnixFSEntitySelector, false))
			if e != nil {
				err = e
				return
			}
			pn, e := loadPlain(ls, fc.Root)
			if e != nil {
				err = e
				return
			}
			prog := traversal.Progress{Cfg: &traversal.Config{Ctx: sessionCtx, LinkSystem: *ls, LinkTargetNodePrototypeChooser: protoChooser}}
			err = prog.WalkMatching(pn, sel, unixfsnode.BytesConsumingMatcher)
			if err == nil {
				err = io.EOF // (a walk that ends without error consumed the file to its end: the caller's check treats EOF as "swallowed")
			}
			return
		}
		var rs io.ReadSeeker
		rs, err = rn.(datamodel.LargeBytesNode).AsLargeBytes()
		if err != nil {
			return
		}
		got, err = readAllStream(rs, 5)
	})
	return
}

// c12SeekReadFaulty opens the file lazily, seeks to off and reads to the end (readAllStream); a failing Seek counts as the
// operation's error.
func c12SeekReadFaulty(fc *fileCase, off int64) (got []byte, err error, perr any) {
	perr, _ = safe(func() {
		var rn datamodel.Node
		rn, err = loadReified(fc.St.LinkSystem(), fc.Root, "unixfs")
		if err != nil {
			return
		}
		var rs io.ReadSeeker
		rs, err = rn.(datamodel.LargeBytesNode).AsLargeBytes()
		if err != nil {
			return
		}
		if _, err = rs.Seek(off, io.SeekStart); err != nil {
			return
		}
		got, err = readAllStream(rs, 5)
	})
	return
}

const c12FileRule = "case = generated multi-block file DAG; for that DAG EVERY single non-root block is made unavailable in turn (not-found and i/o error kinds), plus drawn subsets of 2..5 blocks, plus 'the k-th load fails' for every k of the fault-free run; " +
	"oracle = independent span model: a sequential read must deliver exactly content[:start of the first missing span] and then a non-EOF error that carries the injected fault; preload reification must fail; " +
	"non-trivial = the missing block is an interior node or a leaf that is neither first nor last; distinct by (writer, depth, leaves, fault kind, position class)"

func TestC12_P_FileFaults(t *testing.T) {
	ev := newEvid(t, c12FileRule)
	rapid.Check(t, func(t *rapid.T) {
		var fc *fileCase
		if rapid.IntRange(0, 5).Draw(t, "handmade") == 0 {
			fc = genHandFileDAG(t, false) // chunks may be empty: a missing empty block still has to surface as an error
		} else {
			fc = genFileDAG(t, 2, 120)
		}
		all := fc.Tree.All()
		if len(all) < 2 {
			ev.Case("single-block", false, "single-block")
			return
		}
		mode := rapid.SampledFrom([]string{"AsBytes", "stream", "matcher"}).Draw(t, "mode")
		// first span start per block, in file order
		firstStart := map[cid.Cid]int64{}
		for _, n := range all {
			if _, ok := firstStart[n.Cid]; !ok {
				firstStart[n.Cid] = n.Start
			}
		}
		check := func(desc string, wantPrefix int64, class string, nt bool) {
			got, err, p := c12ReadFaulty(fc, mode)
			if p != nil {
				t.Fatalf("C12 [%s] %s: panic %v", fc.Desc, desc, p)
			}
			if err == nil || err == io.EOF {
				t.Fatalf("C12 [%s] %s via %s: read ended with err=%v after %d bytes (file has %d): missing block was swallowed", fc.Desc, desc, mode, err, len(got), len(fc.Data))
			}
			if fc.St.MissingBare == nil && !isInjected(err) {
				t.Fatalf("C12 [%s] %s via %s: error %q does not carry the injected load error", fc.Desc, desc, mode, err)
			}
			if mode != "matcher" && !bytes.Equal(got, fc.Data[:wantPrefix]) {
				t.Fatalf("C12 [%s] %s via %s: delivered %d bytes before the error, want exactly the %d bytes preceding the missing span", fc.Desc, desc, mode, len(got), wantPrefix)
			}
			ls := fc.St.LinkSystem()
			if _, perr := loadReified(ls, fc.Root, "unixfs-preload"); perr == nil {
				t.Fatalf("C12 [%s] %s: unixfs-preload succeeded with a block unavailable", fc.Desc, desc)
			}
			if len(all) <= 40 {
				// the same through a link system whose NodeReifier is set (children then arrive reified already)
				if pn, e := loadPlain(ls, fc.Root); e == nil {
					rls := *ls
					rls.NodeReifier = unixfsnode.Reify
					var perr error
					must(t, "preload through a reifying link system", func() { _, perr = rls.KnownReifiers["unixfs-preload"](lcS, pn, &rls) })
					if perr == nil {
						t.Fatalf("C12 [%s] %s: unixfs-preload through a link system with NodeReifier set succeeded with a block unavailable", fc.Desc, desc)
					}
				}
			}
			ev.Case(fmt.Sprintf("%s d=%d l=%s %s", fc.Writer, fc.Tree.Depth(), bucket(fc.Tree.Leaves()), class), nt, "fault:"+class, "mode:"+mode)
		}
		// (1) every single non-root block, both error kinds
		blocks := fc.Tree.PreOrder()[1:]
		for i, c := range blocks {
			for _, io_ := range []bool{false, true} {
				fc.St.Missing = map[cid.Cid]bool{c: true}
				fc.St.MissingIO = io_
				fc.St.FaultKind = i % len(faultKinds) // (the i/o fault's value: plain, or wrapping io.EOF, fs.ErrNotExist, ...)
				var node *FileNode
				for _, n := range all {
					if n.Cid == c {
						node = n
						break
					}
				}
				pos := "interior-node"
				if len(node.Kids) == 0 {
					switch {
					case node.Start == 0:
						pos = "first-leaf"
					case node.End == int64(len(fc.Data)):
						pos = "last-leaf"
					default:
						pos = "middle-leaf"
					}
				}
				kind := "notfound"
				if io_ {
					kind = "ioerr"
				}
				check(fmt.Sprintf("block #%d (%s) unavailable (%s)", i+1, pos, kind), firstStart[c], pos+"/"+kind, pos == "interior-node" || pos == "middle-leaf")
				// ... and a read positioned INSIDE the missing block's span (the reader then reaches the block by seeking into
				// it, not by reading up to it): nothing can be delivered, and the load error has to come back - for every
				// error value, the bare ones included
				if node.End-node.Start >= 2 {
					for _, bare := range []error{nil, bareFaults[(i+1)%len(bareFaults)], io.EOF} {
						if bare != nil && !io_ {
							continue
						}
						fc.St.MissingBare = bare
						off := node.Start + 1 + int64(i)%(node.End-node.Start-1)
						got, err, p := c12SeekReadFaulty(fc, off)
						fc.St.MissingBare = nil
						if p != nil {
							t.Fatalf("C12 [%s] block #%d (%s) unavailable, read positioned at %d inside it: panic %v", fc.Desc, i+1, pos, off, p)
						}
						if err == nil || err == io.EOF || len(got) != 0 {
							t.Fatalf("C12 [%s] block #%d (%s, span %d..%d) unavailable (%s, bare value %v): a read positioned at %d, inside the span, delivered %d bytes and ended with err=%v; want no bytes and the load error", fc.Desc, i+1, pos, node.Start, node.End, kind, bare, off, len(got), err)
						}
						ev.Count("positioned-read-into-missing-span", 1)
					}
				}
				if io_ {
					// ... and with a bare well-known error value, as a thin storage adapter passes it through (io.EOF above all:
					// to a reader that is the regular end of a stream)
					fc.St.MissingBare = bareFaults[(i+len(blocks))%len(bareFaults)]
					check(fmt.Sprintf("block #%d (%s) unavailable (bare %v)", i+1, pos, fc.St.MissingBare), firstStart[c], pos+"/bare", pos == "interior-node" || pos == "middle-leaf")
					fc.St.MissingBare = nil
				}
			}
		}
		// (2) a drawn subset of 2..5 blocks
		if len(blocks) >= 2 {
			k := rapid.IntRange(2, min(5, len(blocks))).Draw(t, "subset")
			sub := rapid.SliceOfNDistinct(rapid.IntRange(0, len(blocks)-1), k, k, rapid.ID[int]).Draw(t, "which")
			fc.St.Missing = map[cid.Cid]bool{}
			fc.St.MissingIO = false
			want := int64(len(fc.Data))
			for _, i := range sub {
				fc.St.Missing[blocks[i]] = true
				if s := firstStart[blocks[i]]; s < want {
					want = s
				}
			}
			check(fmt.Sprintf("blocks %v unavailable", sub), want, "subset", true)
		}
		fc.St.Missing = map[cid.Cid]bool{}
		// (3) transient: the k-th load fails, for every k of the fault-free sequential read
		nloads := len(all) - 1
		for k := 1; k <= nloads; k++ {
			fc.St.ResetLogs()
			fc.St.FailReadAt = k + 1 // +1: the root load by the harness is read #1
			got, err, p := c12ReadFaulty(fc, mode)
			fc.St.FailReadAt = 0
			if p != nil {
				t.Fatalf("C12 [%s] load #%d failing: panic %v", fc.Desc, k, p)
			}
			if err == nil || err == io.EOF || !isInjected(err) {
				t.Fatalf("C12 [%s] load #%d failing via %s: read ended with err=%v after %d of %d bytes", fc.Desc, k, mode, err, len(got), len(fc.Data))
			}
			if want := all[k].Start; mode != "matcher" && !bytes.Equal(got, fc.Data[:want]) {
				t.Fatalf("C12 [%s] load #%d failing via %s: delivered %d bytes, want %d", fc.Desc, k, mode, len(got), want)
			}
			ev.Case(fmt.Sprintf("%s d=%d l=%s transient", fc.Writer, fc.Tree.Depth(), bucket(fc.Tree.Leaves())), true, "fault:transient-kth-load", "mode:"+mode)
		}
		ev.Sample(map[string]any{"file": fc.Desc, "single_block_faults": 2 * len(blocks), "transient_faults": nloads, "mode": mode})
	})
}

const c12HamtRule = "case = generated sharded directory (collision names -> deep); for that directory EVERY single child shard is made unavailable in turn (both error kinds), plus a drawn subset of 2..5 shards, plus 'the k-th load fails' during iteration for every k; " +
	"oracle = independent hash-path / reachability model: lookups (ByString/ByNode/BySegment) whose hash path crosses a missing shard return the injected error (never not-found), other names resolve as without faults; iteration terminates, yields exactly the entries reachable without the missing shards once each, and reports exactly one error per missing shard met; " +
	"non-trivial = directory with >= 2 levels of child shards or >= 2 missing shards; distinct by (fanout, depth, shards bucket, fault class)"

func TestC12_P_HamtFaults(t *testing.T) {
	ev := newEvid(t, c12HamtRule)
	maxN := scale(150, 600)
	rapid.Check(t, func(t *rapid.T) {
		names, _, fanout := genNamesFanout(t, nameOpts{Max: maxN})
		es := make([]entrySpec, len(names))
		member := map[string]cid.Cid{}
		for i, n := range names {
			es[i] = entryFor(n, 0)
			member[n] = es[i].Cid
		}
		st := NewStore()
		root, _, err := buildSharded(st, es, fanout)
		if err != nil {
			t.Fatalf("build: %v", err)
		}
		tree, err := st.ShardTree(root)
		if err != nil {
			t.Fatal(err)
		}
		shards := tree.ShardsPreOrder()
		if len(shards) == 0 {
			ev.Case("no-child-shards", false, "no-child-shards")
			return
		}
		nlinks := 0
		for _, c := range tree.AllShards() {
			bi, _ := st.Decode(c)
			nlinks += len(bi.Links)
		}
		probes := append([]string{}, genNonMembers(t, names, fanout)[:5]...)
		for i := 0; i < 8 && i < len(names); i++ {
			probes = append(probes, names[rapid.IntRange(0, len(names)-1).Draw(t, "member")])
		}
		// names below each shard, so that every missing shard is probed by a lookup that crosses it
		checkFault := func(desc, class string, missing map[cid.Cid]bool, extraProbes []string) {
			ls := st.LinkSystem()
			rn, err := loadReified(ls, root, "unixfs")
			if err != nil {
				t.Fatalf("reify: %v", err)
			}
			for _, name := range append(extraProbes, probes...) {
				crosses := false
				for _, c := range tree.HashPath(name) {
					if missing[c] {
						crosses = true
						break
					}
				}
				for ep := 0; ep < 4; ep++ {
					var v datamodel.Node
					var lerr error
					must(t, "lookup under fault", func() {
						switch ep {
						case 0:
							v, lerr = rn.LookupByString(name)
						case 1:
							v, lerr = rn.LookupByNode(basicnode.NewString(name))
						case 3:
							// a key of the type the directory's own iterators hand out
							v, lerr = rn.LookupByNode(pbString(name))
						default:
							v, lerr = rn.LookupBySegment(datamodel.PathSegmentOfString(name))
						}
					})
					switch {
					case crosses:
						if lerr == nil || isNoSuchField(lerr) || !isInjected(lerr) {
							t.Fatalf("C12 hamt [%s] lookup(%d) %q crosses a missing shard but returned (%v, %v); want the load error", desc, ep, name, v, lerr)
						}
					case member[name] != cid.Undef:
						if c, e := linkOf(v); lerr != nil || e != nil || c != member[name] {
							t.Fatalf("C12 hamt [%s] lookup(%d) %q avoids the missing shards but returned (%v, %v)", desc, ep, name, v, lerr)
						}
					default:
						if !isNoSuchField(lerr) {
							t.Fatalf("C12 hamt [%s] lookup(%d) of non-member %q returned (%v, %v); want not-found", desc, ep, name, v, lerr)
						}
					}
				}
			}
			// iteration on a fresh node (cold cache)
			rn, _ = loadReified(ls, root, "unixfs")
			wantEnts, wantErrs := tree.ReachableWithout(missing)
			gotNames := map[string]bool{}
			nerr, steps := 0, 0
			must(t, "iteration under fault", func() {
				for it := rn.MapIterator(); !it.Done(); {
					steps++
					if steps > 2*nlinks+10 {
						t.Fatalf("C12 hamt [%s] iteration does not terminate (%d steps, %d links)", desc, steps, nlinks)
					}
					k, v, err := it.Next()
					if err != nil {
						if !isInjected(err) {
							t.Fatalf("C12 hamt [%s] iteration error %q is not the load error", desc, err)
						}
						nerr++
						continue
					}
					ks, _ := k.AsString()
					if gotNames[ks] {
						t.Fatalf("C12 hamt [%s] iteration yielded %q twice", desc, ks)
					}
					gotNames[ks] = true
					if c, e := linkOf(v); e != nil || c != member[ks] {
						t.Fatalf("C12 hamt [%s] iteration yielded %q -> %v", desc, ks, c)
					}
				}
			})
			if len(gotNames) != len(wantEnts) {
				var miss []string
				for _, e := range wantEnts {
					if !gotNames[e.Name] {
						miss = append(miss, e.Name)
					}
				}
				sort.Strings(miss)
				t.Fatalf("C12 hamt [%s] iteration yielded %d entries, %d are reachable without the missing shards (not yielded: %.5q)", desc, len(gotNames), len(wantEnts), miss)
			}
			for _, e := range wantEnts {
				if !gotNames[e.Name] {
					t.Fatalf("C12 hamt [%s] reachable entry %q not yielded", desc, e.Name)
				}
			}
			if nerr != wantErrs {
				t.Fatalf("C12 hamt [%s] iteration reported %d errors, want one per missing shard met = %d", desc, nerr, wantErrs)
			}
			// the typed iterator has no error result: a step that could not be made yields (nil, nil) - that is its one signal
			// per missing shard, and the entries reachable without the missing shards still come exactly once
			if nd, ok := func() (nativeDir, bool) {
				n, _ := loadReified(ls, root, "unixfs")
				d, ok := n.(nativeDir)
				return d, ok
			}(); ok {
				tnames := map[string]bool{}
				nils, tsteps := 0, 0
				must(t, "typed iteration under fault", func() {
					for it := nd.Iterator(); !it.Done(); {
						tsteps++
						if tsteps > 2*nlinks+10 {
							t.Fatalf("C12 hamt [%s] typed iteration does not terminate (%d steps, %d links)", desc, tsteps, nlinks)
						}
						k, v := it.Next()
						if k == nil || v == nil {
							nils++
							continue
						}
						if tnames[k.String()] {
							t.Fatalf("C12 hamt [%s] typed iteration yielded %q twice", desc, k.String())
						}
						tnames[k.String()] = true
						if c := v.Link().(cidlink.Link).Cid; c != member[k.String()] {
							t.Fatalf("C12 hamt [%s] typed iteration yielded %q -> %v", desc, k.String(), c)
						}
					}
				})
				if len(tnames) != len(wantEnts) || nils != wantErrs {
					t.Fatalf("C12 hamt [%s] typed iteration yielded %d entries and %d failed steps; %d entries are reachable without the missing shards and %d missing shards are met", desc, len(tnames), nils, len(wantEnts), wantErrs)
				}
			}
			// the node that lived through the faults: Length() has no error channel, so what it returns while a shard is
			// missing is not judged - but once storage is healthy again the same node must report the whole directory
			saved := st.Missing
			must(t, "length under fault, then healed", func() {
				_ = rn.Length()
				st.Missing = map[cid.Cid]bool{}
				for round := 0; round < 2; round++ {
					if l := rn.Length(); l != int64(len(names)) {
						t.Fatalf("C12 hamt [%s] after the shards came back, Length() #%d on the node that met the fault = %d, the directory has %d entries", desc, round+1, l, len(names))
					}
				}
				n := 0
				for it := rn.MapIterator(); !it.Done() && n <= len(names); {
					if _, _, err := it.Next(); err != nil {
						t.Fatalf("C12 hamt [%s] after the shards came back, iteration on the node that met the fault: %v", desc, err)
					}
					n++
				}
				if n != len(names) {
					t.Fatalf("C12 hamt [%s] after the shards came back, iteration on the node that met the fault yields %d of %d entries", desc, n, len(names))
				}
			})
			st.Missing = saved
			// an operation that needs every shard (preload reification) must report the load error as well
			var perr error
			must(t, "preload under fault", func() { _, perr = loadReified(ls, root, "unixfs-preload") })
			if perr == nil {
				t.Fatalf("C12 hamt [%s] unixfs-preload reification succeeded although a shard cannot be loaded", desc)
			}
			ev.Case(fmt.Sprintf("f=%d d=%d s=%s %s", fanout, tree.Depth(), bucket(len(shards)), class), tree.Depth() >= 3 || len(missing) >= 2, "fault:"+class, fmt.Sprintf("depth:%s", bucket(tree.Depth())))
		}
		// an entry below each shard (first value link found under it)
		below := map[cid.Cid]string{}
		var walk func(s *ShardNode, under []cid.Cid)
		walk = func(s *ShardNode, under []cid.Cid) {
			for _, l := range s.Links {
				if l.Child != nil {
					walk(l.Child, append(append([]cid.Cid{}, under...), l.Cid))
				} else {
					for _, u := range under {
						if _, ok := below[u]; !ok {
							below[u] = l.Name[s.Pad:]
						}
					}
				}
			}
		}
		walk(tree, nil)
		for i, c := range shards {
			for _, io_ := range []bool{false, true} {
				st.Missing = map[cid.Cid]bool{c: true}
				st.MissingIO = io_
				kind := "notfound"
				if io_ {
					kind = "ioerr"
				}
				var extra []string
				if n, ok := below[c]; ok {
					extra = []string{n}
				}
				checkFault(fmt.Sprintf("fanout=%d n=%d shard #%d missing (%s)", fanout, len(names), i+1, kind), "single/"+kind, st.Missing, extra)
			}
		}
		if len(shards) >= 2 {
			k := rapid.IntRange(2, min(5, len(shards))).Draw(t, "subset")
			sub := rapid.SliceOfNDistinct(rapid.IntRange(0, len(shards)-1), k, k, rapid.ID[int]).Draw(t, "which")
			st.Missing = map[cid.Cid]bool{}
			st.MissingIO = false
			var extra []string
			for _, i := range sub {
				st.Missing[shards[i]] = true
				if n, ok := below[shards[i]]; ok {
					extra = append(extra, n)
				}
			}
			checkFault(fmt.Sprintf("fanout=%d n=%d shards %v missing", fanout, len(names), sub), "subset", st.Missing, extra)
		}
		st.Missing = map[cid.Cid]bool{}
		// transient: the k-th load during a full iteration fails
		for k := 1; k <= len(shards); k++ {
			ls := st.LinkSystem()
			rn, err := loadReified(ls, root, "unixfs")
			if err != nil {
				t.Fatal(err)
			}
			st.ResetLogs()
			st.FailReadAt = k
			got, nerr, steps := 0, 0, 0
			must(t, "iteration under transient fault", func() {
				for it := rn.MapIterator(); !it.Done(); {
					steps++
					if steps > 2*nlinks+10 {
						t.Fatalf("C12 hamt transient #%d: iteration does not terminate", k)
					}
					if _, _, err := it.Next(); err != nil {
						nerr++
					} else {
						got++
					}
				}
			})
			st.FailReadAt = 0
			if l := rn.Length(); l != int64(len(names)) {
				t.Fatalf("C12 hamt fanout=%d n=%d: load #%d failed once during an iteration; afterwards Length() on that node = %d, the directory has %d entries", fanout, len(names), k, l, len(names))
			}
			wantEnts, _ := tree.ReachableWithout(map[cid.Cid]bool{shards[k-1]: true})
			if nerr != 1 || got != len(wantEnts) {
				t.Fatalf("C12 hamt fanout=%d n=%d: load #%d failing: iteration yielded %d entries and %d errors, want %d and 1", fanout, len(names), k, got, nerr, len(wantEnts))
			}
			ev.Case(fmt.Sprintf("f=%d d=%d s=%s transient", fanout, tree.Depth(), bucket(len(shards))), true, "fault:transient-kth-load")
		}
		ev.Sample(map[string]any{"fanout": fanout, "entries": len(names), "depth": tree.Depth(), "child_shards": len(shards), "fault_runs": 3*len(shards) + 1})
	})
}

const c12HistRule = "case = file DAG + one reader + a history of 2..5 (Seek via a drawn whence, ReadFull) steps forwards and backwards; the fault-free run gives the number N of block loads; then the history is replayed on a fresh node once per k in 1..N with the k-th load failing (transient), and once per non-root block with that block unavailable; " +
	"oracle = every step either returns exactly the bytes of the model range (and Seek the model offset) or fails with the injected load error after delivering a prefix of them; never wrong bytes, never silent truncation; the history stops at the first error; " +
	"non-trivial = >= 3 steps on a multi-level file; every faulted replay counts; distinct by (writer, depth, steps, fault class)"

// TestC12_P_HistoryFaults: load failures must surface also when they hit in the middle of a Seek/Read history on a used reader
// (for example during a forward seek that skips by reading).
func TestC12_P_HistoryFaults(t *testing.T) {
	ev := newEvid(t, c12HistRule)
	rapid.Check(t, func(t *rapid.T) {
		fc := genFileDAG(t, 8, 200)
		if len(fc.Tree.All()) < 3 {
			ev.Case("tiny", false, "tiny")
			return
		}
		type step struct {
			a, b   int64
			whence int
		}
		var steps []step
		for i := rapid.IntRange(2, 5).Draw(t, "steps"); i > 0; i-- {
			a, b := genRange(t, fc)
			if b-a > 30 {
				b = a + int64(rapid.IntRange(1, 30).Draw(t, "shorten"))
			}
			steps = append(steps, step{a, b, rapid.IntRange(0, 2).Draw(t, "whence")})
		}
		n := int64(len(fc.Data))
		// replay returns the number of loads and a description of the first deviation, if any
		retryAfterFault := false // transient faults only: the step that met the fault is continued (the rest of its bytes is read) and the history goes on
		replay := func() (string, error) {
			ls := fc.St.LinkSystem()
			rn, err := loadReified(ls, fc.Root, "unixfs")
			if err != nil {
				return "", fmt.Errorf("harness: %w", err)
			}
			rs, err := rn.(datamodel.LargeBytesNode).AsLargeBytes()
			if err != nil {
				return "", err
			}
			pos := int64(0)
			for i, sp := range steps {
				off := sp.a
				switch sp.whence {
				case io.SeekCurrent:
					off = sp.a - pos
				case io.SeekEnd:
					off = sp.a - n
				}
				got, err := rs.Seek(off, sp.whence)
				if err != nil {
					if isInjected(err) {
						return "", nil // the fault surfaced: fine, stop
					}
					return fmt.Sprintf("step %d: Seek(%d,%d) failed with %v", i, off, sp.whence, err), nil
				}
				if got != sp.a {
					return fmt.Sprintf("step %d: Seek(%d,%d) = %d, want %d", i, off, sp.whence, got, sp.a), nil
				}
				buf := make([]byte, sp.b-sp.a)
				k, err := io.ReadFull(rs, buf)
				if !bytes.Equal(buf[:k], fc.Data[sp.a:sp.a+int64(k)]) {
					return fmt.Sprintf("step %d: read at %d returned %d WRONG bytes %x (want %x), err=%v", i, sp.a, k, buf[:k], fc.Data[sp.a:sp.a+int64(k)], err), nil
				}
				if err != nil && isInjected(err) && retryAfterFault {
					k2, err2 := io.ReadFull(rs, buf[k:])
					if err2 != nil || !bytes.Equal(buf, fc.Data[sp.a:sp.b]) {
						return fmt.Sprintf("step %d: read [%d,%d) met the transient fault after %d bytes; the retry on the same reader delivered %d more bytes, err=%v, giving %x (want %x)", i, sp.a, sp.b, k, k2, err2, buf[:k+k2], fc.Data[sp.a:sp.b]), nil
					}
					err = nil
				}
				if err != nil {
					if isInjected(err) {
						return "", nil
					}
					return fmt.Sprintf("step %d: read [%d,%d) delivered %d bytes then %v (no load error reported)", i, sp.a, sp.b, k, err), nil
				}
				pos = sp.b
			}
			return "", nil
		}
		fc.St.ResetLogs()
		if dev, err := replay(); err != nil || dev != "" {
			t.Fatalf("C12 [%s] fault-free history: %v %s", fc.Desc, err, dev)
		}
		loads := len(fc.St.ReadLog())
		for k := 2; k <= loads; k++ { // load #1 is the harness' own root load
			fc.St.ResetLogs()
			fc.St.FailReadAt = k
			var dev string
			var err error
			must(t, "history under transient fault", func() { dev, err = replay() })
			fc.St.FailReadAt = 0
			if err != nil {
				t.Fatal(err)
			}
			if dev != "" {
				t.Fatalf("C12 [%s] history %v with load #%d of %d failing: %s", fc.Desc, steps, k, loads, dev)
			}
			// the same, but the caller retries the read that failed and carries on with the history
			fc.St.ResetLogs()
			fc.St.FailReadAt = k
			retryAfterFault = true
			must(t, "history under transient fault, with retry", func() { dev, err = replay() })
			retryAfterFault = false
			fc.St.FailReadAt = 0
			if err != nil {
				t.Fatal(err)
			}
			if dev != "" {
				t.Fatalf("C12 [%s] history %v with load #%d of %d failing once and the failed read retried: %s", fc.Desc, steps, k, loads, dev)
			}
			ev.Case(fmt.Sprintf("%s d=%d steps=%d transient", fc.Writer, fc.Tree.Depth(), len(steps)), true, "fault:transient")
		}
		for _, c := range fc.Tree.PreOrder()[1:] {
			fc.St.Missing = map[cid.Cid]bool{c: true}
			var dev string
			var err error
			must(t, "history with a missing block", func() { dev, err = replay() })
			fc.St.Missing = map[cid.Cid]bool{}
			if err != nil {
				t.Fatal(err)
			}
			if dev != "" {
				t.Fatalf("C12 [%s] history %v with block %s unavailable: %s", fc.Desc, steps, c, dev)
			}
			ev.Case(fmt.Sprintf("%s d=%d steps=%d missing", fc.Writer, fc.Tree.Depth(), len(steps)), true, "fault:missing-block")
		}
		ev.Sample(map[string]any{"file": fc.Desc, "steps": len(steps), "loads": loads})
	})
}

const c12HealRule = "case = file DAG opened lazily (Reify, or LinkSystem.Load with NodeReifier = Reify so that children are reified on load) x one unavailable non-root block x streamed reads with a drawn buffer size (aligned or not to the chunk size); " +
	"the read runs to the first error, the reader is asked where it is, the block becomes available again and reading continues to the end, retrying reads a few times; " +
	"oracle = the first error is the injected one after exactly the bytes preceding the missing span (C12), Seek(0,Current) equals the bytes delivered, and everything delivered before and after healing concatenates to exactly the file (no duplicated, skipped or truncated bytes, no early EOF); every case non-trivial; distinct by (writer, depth, route, buffer class)"

// TestC12_P_FailHealContinue: an error must leave the reader where it says it is.
func TestC12_P_FailHealContinue(t *testing.T) {
	ev := newEvid(t, c12HealRule)
	rapid.Check(t, func(t *rapid.T) {
		fc := genFileDAG(t, 4, 160)
		all := fc.Tree.All()
		if len(all) < 3 {
			ev.Case("tiny", false, "tiny")
			return
		}
		route := rapid.SampledFrom([]string{"Reify", "Reify", "Load+NodeReifier"}).Draw(t, "route")
		blocks := fc.Tree.PreOrder()[1:]
		missing := blocks[rapid.IntRange(0, len(blocks)-1).Draw(t, "missing")]
		bufSize := rapid.SampledFrom([]int{1, 2, 3, 5, 7, fc.CS, fc.CS + 1, 16, 100}).Draw(t, "buf")
		firstStart := int64(-1)
		for _, n := range all {
			if n.Cid == missing {
				firstStart = n.Start
				break
			}
		}
		ls := fc.St.LinkSystem()
		var node datamodel.Node
		var err error
		if route == "Reify" {
			node, err = loadReified(ls, fc.Root, "unixfs")
		} else {
			ls.NodeReifier = unixfsnode.Reify
			node, err = ls.Load(ipld.LinkContext{}, cidLink(fc.Root), protoForCid(fc.Root))
		}
		if err != nil {
			t.Fatalf("open: %v", err)
		}
		rs, err := node.(datamodel.LargeBytesNode).AsLargeBytes()
		if err != nil {
			t.Fatal(err)
		}
		fc.St.Missing = map[cid.Cid]bool{missing: true}
		defer func() { fc.St.Missing = map[cid.Cid]bool{} }()
		var delivered []byte
		buf := make([]byte, bufSize)
		var ferr error
		must(t, "read to the first error", func() {
			for i := 0; i < 100000; i++ {
				k, e := rs.Read(buf)
				delivered = append(delivered, buf[:k]...)
				if e != nil {
					ferr = e
					return
				}
			}
		})
		if ferr == nil || ferr == io.EOF || !isInjected(ferr) {
			t.Fatalf("C12 [%s] %s buf=%d: block at span start %d missing, read ended with err=%v after %d bytes", fc.Desc, route, bufSize, firstStart, ferr, len(delivered))
		}
		if route == "Reify" && !bytes.Equal(delivered, fc.Data[:firstStart]) {
			t.Fatalf("C12 [%s] buf=%d: %d bytes delivered before the error, want exactly the %d preceding the missing span", fc.Desc, bufSize, len(delivered), firstStart)
		}
		if !bytes.Equal(delivered, fc.Data[:len(delivered)]) {
			t.Fatalf("C12 [%s] %s buf=%d: bytes delivered before the error are not a prefix of the file", fc.Desc, route, bufSize)
		}
		// asking again while the block is still unavailable: the error must be reported again (never bytes beyond the missing
		// span, never end-of-file)
		again := rapid.IntRange(0, 2).Draw(t, "readsWhileStillMissing")
		for i := 0; i < again; i++ {
			var k int
			var e error
			must(t, "read again while the block is missing", func() { k, e = rs.Read(buf) })
			delivered = append(delivered, buf[:k]...)
			if int64(len(delivered)) > firstStart || !bytes.Equal(delivered, fc.Data[:len(delivered)]) {
				t.Fatalf("C12 [%s] %s buf=%d: read #%d after the error delivered %d more bytes (now %d, the missing span starts at %d)", fc.Desc, route, bufSize, i+1, k, len(delivered), firstStart)
			}
			if e == nil || e == io.EOF || !isInjected(e) {
				t.Fatalf("C12 [%s] %s buf=%d: read #%d after the error, block still missing: err=%v after %d bytes", fc.Desc, route, bufSize, i+1, e, len(delivered))
			}
		}
		// (asking for the position rebuilds the reader's internals, so it is only done in some cases)
		if rapid.Bool().Draw(t, "tell") {
			var pos int64
			must(t, "tell", func() { pos, err = rs.Seek(0, io.SeekCurrent) })
			if err != nil || pos != int64(len(delivered)) {
				t.Fatalf("C12 [%s] %s buf=%d: after the failed read the reader reports position %d (err %v) but %d bytes were delivered", fc.Desc, route, bufSize, pos, err, len(delivered))
			}
		}
		// a Seek to a position strictly inside the missing block's span while the block is still unavailable: it may report
		// the load error (the position is then set again after healing) or succeed; either way the bytes read after the
		// block is back are those AT that position
		expected := fc.Data
		if missEnd := func() int64 {
			for _, n := range all {
				if n.Cid == missing {
					return n.End
				}
			}
			return -1
		}(); route == "Reify" && missEnd-firstStart >= 2 && int64(len(delivered)) == firstStart && rapid.Bool().Draw(t, "seekIntoMissingSpan") {
			target := firstStart + 1 + int64(rapid.IntRange(0, int(missEnd-firstStart-2)).Draw(t, "seekInside"))
			var pos int64
			var serr error
			must(t, "seek into the missing span", func() { pos, serr = rs.Seek(target, io.SeekStart) })
			if serr == nil && pos != target {
				t.Fatalf("C12 [%s] buf=%d: Seek(%d) into the span of the unavailable block returned position %d", fc.Desc, bufSize, target, pos)
			}
			if serr != nil && !isInjected(serr) {
				t.Fatalf("C12 [%s] buf=%d: Seek(%d) into the span of the unavailable block: %v (not the load error)", fc.Desc, bufSize, target, serr)
			}
			fc.St.Missing = map[cid.Cid]bool{}
			if serr != nil {
				must(t, "seek again after healing", func() { pos, serr = rs.Seek(target, io.SeekStart) })
				if serr != nil || pos != target {
					t.Fatalf("C12 [%s] buf=%d: Seek(%d) after the block came back = (%d, %v)", fc.Desc, bufSize, target, pos, serr)
				}
			}
			expected = append(append([]byte{}, fc.Data[:firstStart]...), fc.Data[target:]...)
			ev.Count("seek-into-missing-span", 1)
		}
		// heal and continue, tolerating repeated errors for a few retries
		fc.St.Missing = map[cid.Cid]bool{}
		retries := 0
		must(t, "continue after healing", func() {
			for i := 0; i < 100000; i++ {
				k, e := rs.Read(buf)
				delivered = append(delivered, buf[:k]...)
				if e == io.EOF {
					return
				}
				if e != nil {
					retries++
					if retries > 3 {
						ferr = e
						return
					}
				}
			}
		})
		if !bytes.Equal(delivered, expected) {
			t.Fatalf("C12 [%s] %s buf=%d (missing span start %d): bytes delivered before the error plus bytes read after the block came back (from the position the reader was then at) = %d bytes, first difference at %d, expected %d (retries %d, last err %v)", fc.Desc, route, bufSize, firstStart, len(delivered), firstDiff(delivered, expected), len(expected), retries, ferr)
		}
		ev.Case(fmt.Sprintf("%s d=%d %s buf=%s", fc.Writer, fc.Tree.Depth(), route, bucket(bufSize)), true, "route:"+route, "buf:"+bucket(bufSize))
		ev.Sample(map[string]any{"file": fc.Desc, "route": route, "buf": bufSize, "missing_span_start": firstStart})
	})
}

// ---------------------------------------------------------------- positioned reads on very wide nodes

const c12WideRule = "case = file written with a link width of 257..3000 (so that one node holds hundreds to more than a thousand links) x a position strictly inside or at the start of a chunk x the k-th block load after the Seek failing once (k = 1..3, drawn fault kind) or the chunk at the position being unavailable; Seek, ReadFull of a few bytes, the failed read retried on the same reader, then the rest of the file; " +
	"oracle = every read returns bytes of the file at the reader's position - a prefix of the request followed by the injected error, or all of it; after a transient fault the retried read and the rest of the stream are exactly the file from the position on; never wrong bytes, never a silent short read; every case non-trivial; distinct by (width, levels, position class, fault)"

func TestC12_P_WideNodesPositionedFaults(t *testing.T) {
	ev := newEvid(t, c12WideRule)
	rapid.Check(t, func(t *rapid.T) {
		w := rapid.SampledFrom([]int{257, 258, 300, 512, 700, 1025, 1500, 2049, 3000}).Draw(t, "width")
		cs := rapid.IntRange(2, 5).Draw(t, "chunkSize")
		nchunks := w
		switch rapid.IntRange(0, 2).Draw(t, "levels") {
		case 1:
			nchunks = w + rapid.IntRange(1, w).Draw(t, "more") // two nodes below the root, the first one full
		case 2:
			nchunks = rapid.IntRange(257, w).Draw(t, "fewer")
		}
		data := lcgBytes(nchunks*cs-rapid.IntRange(0, cs-1).Draw(t, "shortTail"), byte(w), 0)
		st := NewStore()
		root, _, err := buildFile(st, data, fmt.Sprintf("size-%d", cs), w)
		if err != nil {
			t.Fatalf("build: %v", err)
		}
		ci := rapid.IntRange(0, nchunks-1).Draw(t, "chunk")
		in := rapid.IntRange(0, cs-1).Draw(t, "within")
		off := int64(ci*cs + in)
		if off >= int64(len(data)) {
			off = int64(len(data)) - 1
		}
		want := rapid.IntRange(1, 12).Draw(t, "readLen")
		if off+int64(want) > int64(len(data)) {
			want = int(int64(len(data)) - off)
		}
		persistent := rapid.IntRange(0, 3).Draw(t, "persistent") == 0
		k := rapid.IntRange(1, 3).Draw(t, "kthLoad")
		ls := st.LinkSystem()
		rn, err := loadReified(ls, root, "unixfs")
		if err != nil {
			t.Fatal(err)
		}
		rs, err := rn.(datamodel.LargeBytesNode).AsLargeBytes()
		if err != nil {
			t.Fatal(err)
		}
		if rapid.Bool().Draw(t, "usedBefore") {
			// the reader has delivered the first bytes already: the Seek below repositions a reader in use
			head := make([]byte, 3)
			if _, err := io.ReadFull(rs, head); err != nil || !bytes.Equal(head, data[:3]) {
				t.Fatalf("C12 wide node (width %d): first bytes: %x %v", w, head, err)
			}
		}
		st.ResetLogs()
		if persistent {
			tr, _ := st.FileTree(root, 0)
			for _, n := range tr.All() {
				if len(n.Kids) == 0 && n.Start <= off && off < n.End {
					st.Missing = map[cid.Cid]bool{n.Cid: true}
				}
			}
		} else {
			st.FaultKind = genFaultKind(t)
			st.FailReadAt = k
		}
		fault := fmt.Sprintf("transient#%d", k)
		if persistent {
			fault = "unavailable"
		}
		desc := fmt.Sprintf("width %d, %d chunks of %d bytes, reader moved to %d (chunk %d + %d), %s", w, nchunks, cs, off, ci, in, fault)
		var dev string
		must(t, "positioned read on a wide node", func() {
			pos, err := rs.Seek(off, io.SeekStart)
			if err != nil {
				if !isInjected(err) {
					dev = fmt.Sprintf("Seek failed with %v", err)
				}
				// a Seek that failed leaves the position undefined: start over
				st.FailReadAt, st.Missing = 0, map[cid.Cid]bool{}
				if pos, err = rs.Seek(off, io.SeekStart); err != nil || pos != off {
					dev = fmt.Sprintf("Seek after the fault was gone = %d, %v", pos, err)
					return
				}
			} else if pos != off {
				dev = fmt.Sprintf("Seek = %d", pos)
				return
			}
			buf := make([]byte, want)
			n, err := io.ReadFull(rs, buf)
			if !bytes.Equal(buf[:n], data[off:off+int64(n)]) {
				dev = fmt.Sprintf("read of %d bytes returned %d WRONG bytes %x (the file has %x there), err=%v", want, n, buf[:n], data[off:off+int64(n)], err)
				return
			}
			if err != nil && !isInjected(err) {
				dev = fmt.Sprintf("read of %d bytes delivered %d bytes and then %v: not the load error", want, n, err)
				return
			}
			st.FailReadAt, st.Missing = 0, map[cid.Cid]bool{}
			if err != nil {
				if persistent {
					return // what a reader does after a persistent fault is the subject of the heal check
				}
				n2, err2 := io.ReadFull(rs, buf[n:])
				if err2 != nil || !bytes.Equal(buf, data[off:off+int64(want)]) {
					dev = fmt.Sprintf("read met the transient fault after %d bytes; retried on the same reader: %d more bytes, err=%v, giving %x (the file has %x)", n, n2, err2, buf[:n+n2], data[off:off+int64(want)])
					return
				}
			}
			rest, err := io.ReadAll(rs)
			if err != nil && isInjected(err) && !persistent {
				// the k-th load came only now
				more, err2 := io.ReadAll(rs)
				rest, err = append(rest, more...), err2
			}
			if err != nil || !bytes.Equal(rest, data[off+int64(want):]) {
				dev = fmt.Sprintf("rest of the file after the positioned read: %d bytes, err=%v, want %d; first difference at +%d", len(rest), err, int64(len(data))-off-int64(want), firstDiff(rest, data[off+int64(want):]))
			}
		})
		st.FailReadAt, st.Missing = 0, map[cid.Cid]bool{}
		if dev != "" {
			t.Fatalf("C12 [%s]: %s", desc, dev)
		}
		posClass := "inside"
		if in == 0 {
			posClass = "chunk-start"
		}
		ev.Case(fmt.Sprintf("w%d n%s %s %s", w, bucket(nchunks), posClass, fault), true, fmt.Sprintf("width:%d", w), "position:"+posClass, "fault:"+fault)
		ev.Sample(map[string]any{"case": desc, "read": want})
	})
}

// Files whose nodes record no BlockSizes over dag-pb children (a child's size is learnt by opening it): with one child
// unavailable, a read positioned anywhere - before, inside or behind the missing child's span - returns bytes of the file at
// that position or the load error, never bytes from somewhere else.
func TestC12_R_PositionedReadsAroundMissingUnsizedChild(t *testing.T) {
	for _, nested := range []bool{false, true} {
		var leaves []*mnode
		var data []byte
		for i := 0; i < 12; i++ {
			c := lcgBytes(3+i%3, byte(i+1), 0)
			data = append(data, c...)
			leaves = append(leaves, &mnode{HasData: true, UFS: &ufsFields{Type: 2, HasData: true, Data: c, FileSize: u64p(uint64(len(c)))}})
		}
		// (Tsize: the cumulative size of what the link points to, as writers record it: a little more than the content)
		cum := map[*mnode]int64{}
		for _, l := range leaves {
			cum[l] = int64(len(l.UFS.Data)) + 10
		}
		wrap := func(kids []*mnode) *mnode {
			m := &mnode{HasData: true, UFS: &ufsFields{Type: 2}}
			tot := int64(8)
			for _, k := range kids {
				m.Links = append(m.Links, mlink{Tsize: i64p(cum[k]), Child: k})
				tot += cum[k] + 44
			}
			cum[m] = tot
			return m
		}
		root := wrap(leaves)
		if nested {
			root = wrap([]*mnode{wrap(leaves[:4]), wrap(leaves[4:8]), wrap(leaves[8:])})
		}
		st := NewStore()
		ls := st.LinkSystem()
		rc, err := root.store(st, ls)
		if err != nil {
			t.Fatal(err)
		}
		tree, err := st.FileTree(rc, 0)
		if err != nil || tree.End != int64(len(data)) {
			t.Fatalf("harness: model %v", err)
		}
		for _, nd := range tree.All()[1:] {
			for _, bare := range []error{nil, io.EOF} {
				for off := int64(0); off < int64(len(data)); off++ {
					st.Missing, st.MissingBare = map[cid.Cid]bool{nd.Cid: true}, bare
					rn, err := loadReified(ls, rc, "unixfs")
					if err != nil {
						t.Fatal(err)
					}
					var got []byte
					var rerr error
					must(t, "positioned read", func() {
						rs, e := rn.(datamodel.LargeBytesNode).AsLargeBytes()
						if e != nil {
							rerr = e
							return
						}
						if _, e := rs.Seek(off, io.SeekStart); e != nil {
							rerr = e
							return
						}
						buf := make([]byte, 4)
						var k int
						k, rerr = io.ReadFull(rs, buf)
						got = buf[:k]
					})
					st.Missing, st.MissingBare = map[cid.Cid]bool{}, nil
					wantLen := min(4, len(data)-int(off))
					if !bytes.Equal(got, data[off:off+int64(len(got))]) {
						t.Fatalf("C12: file without BlockSizes (nested=%v), block at span [%d,%d) unavailable: read at %d returned %x, the file has %x there (err %v)", nested, nd.Start, nd.End, off, got, data[off:off+int64(wantLen)], rerr)
					}
					if len(got) < wantLen && (rerr == nil || rerr == io.EOF || (rerr == io.ErrUnexpectedEOF && bare == nil)) {
						t.Fatalf("C12: file without BlockSizes (nested=%v), block at span [%d,%d) unavailable: read at %d returned %d of %d bytes and err=%v: the load error was swallowed", nested, nd.Start, nd.End, off, len(got), wantLen, rerr)
					}
				}
			}
		}
	}
}
