package harness

// C11 - sizes recorded and returned by builders are the true cumulative / content sizes.

import (
	"bytes"
	"fmt"
	"io"
	"testing"
	"testing/iotest"

	pb "github.com/ipfs/boxo/ipld/unixfs/pb"
	"github.com/ipfs/go-cid"
	"github.com/ipfs/go-unixfsnode/data/builder"
	"github.com/ipld/go-ipld-prime/datamodel"
	"pgregory.net/rapid"
)

// verifySizes walks every builder-written block below root and checks each link's Tsize against the independently
// recomputed cumulative size of its target (ext supplies the caller-provided sizes of targets outside the store),
// and for file nodes FileSize / BlockSizes against the content bytes actually stored below.
func verifySizes(st *Store, root cid.Cid, ext map[cid.Cid]uint64) (blocks int, err error) {
	seen := map[cid.Cid]bool{}
	memo := map[cid.Cid]uint64{}
	var cum func(c cid.Cid) (uint64, error)
	cum = func(c cid.Cid) (uint64, error) {
		if v, ok := memo[c]; ok {
			return v, nil
		}
		v, err := st.CumulativeSize(c, ext)
		if err == nil {
			memo[c] = v
		}
		return v, err
	}
	var walk func(c cid.Cid) error
	walk = func(c cid.Cid) error {
		if seen[c] {
			return nil
		}
		seen[c] = true
		if _, ok := st.Get(c); !ok {
			return nil // external entry
		}
		blocks++
		bi, err := st.Decode(c)
		if err != nil {
			return err
		}
		if !bi.IsPB {
			return nil
		}
		for i, l := range bi.Links {
			want, err := cum(l.Cid)
			if err != nil {
				return err
			}
			if l.Tsize == nil {
				return fmt.Errorf("block %s link %d has no Tsize (target size %d)", c, i, want)
			}
			if *l.Tsize != want {
				return fmt.Errorf("block %s link %d (%v): Tsize %d, true cumulative size of the target is %d", c, i, l.Name, *l.Tsize, want)
			}
		}
		if bi.UFS != nil && (bi.UFS.GetType() == pb.Data_File || bi.UFS.GetType() == pb.Data_Raw) && len(bi.Links) > 0 {
			ft, err := st.FileTree(c, 0)
			if err != nil {
				return err
			}
			if bi.UFS.Filesize == nil || bi.UFS.GetFilesize() != uint64(ft.End) {
				return fmt.Errorf("file node %s declares FileSize %v, %d content bytes are stored below it", c, bi.UFS.Filesize, ft.End)
			}
			if len(bi.UFS.Blocksizes) != len(ft.Kids) {
				return fmt.Errorf("file node %s has %d BlockSizes for %d children", c, len(bi.UFS.Blocksizes), len(ft.Kids))
			}
			for i, k := range ft.Kids {
				if bi.UFS.Blocksizes[i] != uint64(k.End-k.Start) {
					return fmt.Errorf("file node %s BlockSizes[%d] = %d, child holds %d content bytes", c, i, bi.UFS.Blocksizes[i], k.End-k.Start)
				}
			}
		}
		for _, l := range bi.Links {
			if err := walk(l.Cid); err != nil {
				return err
			}
		}
		return nil
	}
	err = walk(root)
	return
}

const c11Rule = "case = file (content incl. periodic contents that repeat chunks, chunker, width) or directory of externally sized entries (plain / sharded / quick builder, fanout) or a whole generated tree built bottom-up or an on-disk tree (with files of more than 256 KiB) imported recursively; " +
	"oracle = independent recomputation from the stored blocks: returned size = encoded length of the root + sizes of everything it links to (tree sum); every written link's Tsize = cumulative size of its target (or the caller-supplied size for external targets); every interior file node's FileSize / BlockSizes = content bytes below it / below each child; " +
	"non-trivial = DAG with >= 2 levels; distinct by (kind, shape, dedup?)"

func TestC11_P_Sizes(t *testing.T) {
	ev := newEvid(t, c11Rule)
	maxLen := scale(4096, 65536)
	maxN := scale(300, 3000)
	rapid.Check(t, func(t *rapid.T) {
		kind := rapid.SampledFrom([]string{"file", "file", "sharded", "plain", "quick", "tree", "symlink", "twice", "recursive"}).Draw(t, "kind")
		st := NewStore()
		if rapid.IntRange(0, 4).Draw(t, "pieceWrites") == 0 {
			st.PieceWrites = rapid.SampledFrom([]int{1, 7, 64, 512}).Draw(t, "pieceSize")
		}
		if (kind == "file" || kind == "twice") && rapid.IntRange(0, 4).Draw(t, "rawEnvelope") == 0 {
			// a link system whose raw codec frames the leaf blocks: sizes are about encoded lengths, not content lengths;
			// the framing may be of fixed length, depend on the content's length (a uvarint length prefix) or on the content itself
			// (byte stuffing)
			st.RawEnvelope = rapid.SampledFrom([]int{1, 8, 100, RawEnvelopeUvarint, RawEnvelopeUvarint, RawEnvelopeStuffed, RawEnvelopeStuffed}).Draw(t, "envelopeLen")
			ev.Count("raw-envelope", 1)
		}
		var root cid.Cid
		var size uint64
		var err error
		ext := map[cid.Cid]uint64{}
		fp, nt := "", false
		// history: a failed or abandoned build earlier in the process must not change what the next build reports
		switch rapid.IntRange(0, 6).Draw(t, "prelude") {
		case 6:
			// builds refused at open / while writing (also after part of the bytes was accepted) / at commit, any error value
			must(t, "failed builds", func() { failedBuilds(t) })
			ev.Count("prelude:failed-builds", 1)
		case 0:
			bad := NewStore()
			bad.FailWriteAt = rapid.IntRange(1, 3).Draw(t, "failWriteAt")
			bad.PartialWrite = rapid.Bool().Draw(t, "partialWrite")
			_, _, _ = buildFile(bad, lcgBytes(40, 1, 0), "size-8", 2)
			ev.Count("prelude:failed-write", 1)
		case 1:
			bad := NewStore()
			bad.FailCommitAt = rapid.IntRange(1, 3).Draw(t, "failCommitAt")
			_, _, _ = buildSharded(bad, []entrySpec{entryFor("a", 1), entryFor("b", 1)}, 8)
			ev.Count("prelude:failed-commit", 1)
		case 2:
			// source reader fails half way through
			r := io.MultiReader(bytes.NewReader(lcgBytes(30, 2, 0)), iotest.ErrReader(fmt.Errorf("source failed")))
			_, _, _ = buildFileR(NewStore().LinkSystem(), r, "size-8", 2)
			ev.Count("prelude:aborted-build", 1)
		}
		var sample map[string]any
		switch kind {
		case "file":
			w := genWidth(t)
			ck := genChunker(t)
			content := genContent(t, ck, w, maxLen)
			must(t, "BuildUnixFSFile", func() { root, size, err = buildFile(st, content, ck.Name, w) })
			if err != nil {
				t.Fatalf("C11 build: %v", err)
			}
			ft, merr := st.FileTree(root, 0)
			if merr != nil {
				t.Fatal(merr)
			}
			dedup := st.Len() < len(ft.All())
			nt = ft.Depth() >= 2
			fp = fmt.Sprintf("file %s w=%d d=%d l=%s dedup=%v", ck.Class, w, ft.Depth(), bucket(ft.Leaves()), dedup)
			sample = map[string]any{"kind": kind, "len": len(content), "chunker": ck.Name, "w": w, "depth": ft.Depth(), "tree_nodes": len(ft.All()), "stored_blocks": st.Len(), "returned_size": 0}
			if dedup {
				ev.Count("dedup", 1)
			}
		case "symlink":
			// target lengths around the one- / two-byte length-prefix boundaries of the encodings involved
			n := rapid.OneOf(rapid.SampledFrom([]int{0, 1, 117, 118, 119, 120, 121, 122, 123, 124, 125, 126, 127, 128, 129, 130, 250, 255, 256, 16376, 16384}), rapid.IntRange(0, 400)).Draw(t, "targetLen")
			target := string(lcgBytes(n, 7, 0))
			var l datamodel.Link
			must(t, "BuildUnixFSSymlink", func() { l, size, err = builder.BuildUnixFSSymlink(target, st.LinkSystem()) })
			if err != nil {
				t.Fatalf("C11 build symlink: %v", err)
			}
			root = cidOf(l)
			nt = n >= 120
			fp = fmt.Sprintf("symlink len=%d", n)
			sample = map[string]any{"kind": kind, "target_len": n}
		case "twice":
			// the same content built twice into ONE store (every block of the second build already exists there)
			w := genWidth(t)
			ck := genChunker(t)
			content := genContent(t, ck, w, 2048)
			var r1 cid.Cid
			var s1 uint64
			must(t, "BuildUnixFSFile", func() { r1, s1, err = buildFile(st, content, ck.Name, w) })
			if err != nil {
				t.Fatalf("C11 build: %v", err)
			}
			must(t, "BuildUnixFSFile again", func() { root, size, err = buildFile(st, content, ck.Name, w) })
			if err != nil {
				t.Fatalf("C11 second build: %v", err)
			}
			if r1 != root || s1 != size {
				t.Fatalf("C11: second build of the same file into the same store returned %s/%d, first %s/%d", root, size, r1, s1)
			}
			es := []entrySpec{{Name: "a", Cid: root, Tsize: size}, {Name: "b", Cid: root, Tsize: size}}
			must(t, "directory of two copies", func() { root, size, err = buildDir(st, es) })
			if err != nil {
				t.Fatalf("C11 dir build: %v", err)
			}
			nt = st.Len() >= 3
			fp = fmt.Sprintf("twice %s w=%d blocks=%s", ck.Class, w, bucket(st.Len()))
			sample = map[string]any{"kind": kind, "len": len(content), "chunker": ck.Name, "w": w, "stored_blocks": st.Len()}
		case "recursive":
			// an on-disk tree imported by BuildUnixFSRecursive; the importer's chunker is the 256 KiB default, so files need
			// more than 256 KiB to get interior nodes
			fsroot := genFSRootDir(t, 2, false)
			nbig := rapid.IntRange(0, 2).Draw(t, "bigFiles")
			for i := 0; i < nbig; i++ {
				sz := rapid.SampledFrom([]int{262144, 262145, 300000, 524289, 786433}).Draw(t, "bigSize")
				fsroot.Kids[fmt.Sprintf("big-%d.bin", i)] = &fsNode{Kind: fsFile, Data: lcgBytes(sz, byte(i+1), 0)}
				if rapid.Bool().Draw(t, "hardLinked") {
					// the same multi-chunk file under a second name (a hard link): both links carry the cumulative size
					fsroot.Kids[fmt.Sprintf("big-%d-again.bin", i)] = &fsNode{Kind: fsFile, Data: lcgBytes(sz, byte(i+1), 0), LinkTo: fmt.Sprintf("big-%d.bin", i)}
				}
			}
			var l datamodel.Link
			if werr := withFSTree(fsroot, func(p string) {
				must(t, "BuildUnixFSRecursive", func() { l, size, err = builder.BuildUnixFSRecursive(p, st.LinkSystem()) })
			}); werr != nil {
				t.Fatalf("harness: %v", werr)
			}
			if err != nil {
				t.Fatalf("C11 recursive import: %v", err)
			}
			root = cidOf(l)
			nt = nbig > 0
			fp = fmt.Sprintf("recursive n=%s big=%d", bucket(fsroot.count()), nbig)
			sample = map[string]any{"kind": kind, "entities": fsroot.count(), "multi_chunk_files": nbig, "stored_blocks": st.Len()}
		case "tree":
			tr := genBuilderTree(t, 3, scale(8, 14))
			must(t, "tree build", func() { err = tr.build(st) })
			if err != nil {
				t.Fatalf("C11 build tree: %v", err)
			}
			root, size = tr.Root, tr.Size
			nt = tr.count() >= 3
			fp = fmt.Sprintf("tree n=%s", bucket(tr.count()))
			sample = map[string]any{"kind": kind, "entities": tr.count(), "stored_blocks": st.Len()}
		default:
			names, _ := genNames(t, nameOpts{Max: maxN})
			fanout := genFanout(t)
			salt := rapid.IntRange(0, 50).Draw(t, "salt")
			es := make([]entrySpec, len(names))
			for i, n := range names {
				es[i] = entryFor(n, salt)
				ext[es[i].Cid] = es[i].Tsize
			}
			must(t, "directory build", func() { root, size, err = c02Build(st, es, kind, fanout) })
			if err != nil {
				t.Fatalf("C11 build %s: %v", kind, err)
			}
			nt = st.Len() >= 2
			fp = fmt.Sprintf("%s f=%d n=%s blocks=%s", kind, fanout, bucket(len(es)), bucket(st.Len()))
			sample = map[string]any{"kind": kind, "entries": len(es), "fanout": fanout, "stored_blocks": st.Len()}
		}
		want, err := st.CumulativeSize(root, ext)
		if err != nil {
			t.Fatalf("model: %v", err)
		}
		if size != want {
			t.Fatalf("C11 %s: builder returned size %d, the DAG's true cumulative size is %d (%s)", kind, size, want, fp)
		}
		nb, err := verifySizes(st, root, ext)
		if err != nil {
			t.Fatalf("C11 %s (%s): %v", kind, fp, err)
		}
		sample["returned_size"] = size
		sample["blocks_checked"] = nb
		ev.Case(fp, nt, "kind:"+kind, "blocks:"+bucket(nb))
		ev.Sample(sample)
	})
}

func TestC11_R_Basics(t *testing.T) {
	// empty file: size 0 bytes of content; the statement's formula gives the encoded length of the root (0 for an empty raw block)
	st := NewStore()
	root, size, err := buildFile(st, nil, "size-4", 3)
	if err != nil {
		t.Fatal(err)
	}
	want, _ := st.CumulativeSize(root, nil)
	if size != want {
		t.Fatalf("C11 empty file: returned %d, want %d", size, want)
	}
	// repeated chunks: 40 identical 1-byte chunks at width 2 (heavily de-duplicated store, tree sum still counts each use)
	st = NewStore()
	data := make([]byte, 40)
	root, size, err = buildFile(st, data, "size-1", 2)
	if err != nil {
		t.Fatal(err)
	}
	want, _ = st.CumulativeSize(root, nil)
	if size != want {
		t.Fatalf("C11 dedup file: returned %d, want %d", size, want)
	}
	if _, err := verifySizes(st, root, nil); err != nil {
		t.Fatalf("C11 dedup file: %v", err)
	}
	// production width
	st = NewStore()
	root, size, err = buildFile(st, lcgBytes(174*2+5, 1, 0), "size-1", 174)
	if err != nil {
		t.Fatal(err)
	}
	want, _ = st.CumulativeSize(root, nil)
	if size != want {
		t.Fatalf("C11 width 174: returned %d, want %d", size, want)
	}
	if _, err := verifySizes(st, root, nil); err != nil {
		t.Fatalf("C11 width 174: %v", err)
	}
}

// F22 (fixed): the empty file's leaf was written with a plain Store and its size returned as a literal 0; with a raw codec
// that frames its blocks the stored block is not empty.
func TestC11_R_F22_EmptyFileThroughFramingRawCodec(t *testing.T) {
	for _, env := range []int{0, 1, 8} {
		st := NewStore()
		st.RawEnvelope = env
		root, size, err := buildFile(st, nil, "size-16", 3)
		if err != nil {
			t.Fatal(err)
		}
		want, err := st.CumulativeSize(root, nil)
		if err != nil {
			t.Fatal(err)
		}
		if size != want {
			t.Fatalf("C11 F22: empty file through a link system whose raw codec adds %d bytes of framing: builder returned size %d, the stored DAG has %d bytes", env, size, want)
		}
	}
}

// The largest chunk the size chunker accepts (1 MiB) through raw codecs that frame their blocks: the stored leaf is then
// larger than a MiB; the build succeeds and every recorded size is the stored one.
func TestC11_R_LargestChunksThroughFramingRawCodecs(t *testing.T) {
	for _, env := range []int{1, 8, RawEnvelopeUvarint, RawEnvelopeStuffed} {
		for _, chunker := range []string{"size-1048576", "size-1048575"} {
			st := NewStore()
			st.RawEnvelope = env
			root, size, err := buildFile(st, lcgBytes(2<<20+12345, 5, 0), chunker, 174)
			if err != nil {
				t.Fatalf("C11: file of 2 MiB + 12345 bytes, chunker %s, raw codec with envelope %d (-1 uvarint prefix, -2 byte stuffing): %v", chunker, env, err)
			}
			want, err := st.CumulativeSize(root, nil)
			if err != nil || want != size {
				t.Fatalf("C11: chunker %s, envelope %d: returned size %d, true cumulative size %d (%v)", chunker, env, size, want, err)
			}
			if _, err := verifySizes(st, root, nil); err != nil {
				t.Fatalf("C11: chunker %s, envelope %d: %v", chunker, env, err)
			}
		}
	}
}

// Directories whose size estimate reaches the auto-sharding threshold exactly at an entry that is not the last one: the
// returned size is the true cumulative size whichever form the directory takes.
func TestC11_R_DirectoriesRunningOntoTheShardingThreshold(t *testing.T) {
	for _, more := range []int{0, 1, 10, 900} {
		var es []entrySpec
		ext := map[cid.Cid]uint64{}
		for i := 0; i < 4096+more; i++ {
			e := entryForKind(fmt.Sprintf("entry-%022d", i), 3, 0) // 28-byte names + 36-byte CIDv1 links = 64 bytes each
			e.Tsize = uint64(1000 + i)
			if len(e.Name)+e.Cid.ByteLen() != 64 {
				t.Fatalf("harness: entry weighs %d", len(e.Name)+e.Cid.ByteLen())
			}
			es = append(es, e)
			ext[e.Cid] = e.Tsize
		}
		st := NewStore()
		root, size, err := buildDir(st, es)
		if err != nil {
			t.Fatal(err)
		}
		want, err := st.CumulativeSize(root, ext)
		if err != nil || want != size {
			t.Fatalf("C11: directory of 4096 entries of 64 bytes each (estimate 262144 = the threshold) + %d more: returned size %d, true cumulative size %d (%v)", more, size, want, err)
		}
		if _, err := verifySizes(st, root, ext); err != nil {
			t.Fatalf("C11: directory of 4096+%d entries: %v", more, err)
		}
	}
}
