package harness

// C20 - blocks are requested in deterministic depth-first link order.

import (
	"fmt"
	"io"
	"slices"
	"strings"
	"testing"
	"time"

	"github.com/ipfs/go-cid"
	"github.com/ipfs/go-unixfsnode"
	"github.com/ipld/go-ipld-prime/datamodel"
	"github.com/ipld/go-ipld-prime/traversal"
	"github.com/ipld/go-ipld-prime/traversal/selector"
	"pgregory.net/rapid"
)

const c20FileRule = "case = (file DAG of any shape, operation in {AsBytes, io.Copy from AsLargeBytes, unixfs-preload reification, entity selector + BytesConsumingMatcher}), each on a freshly loaded node and repeated 3 times; " +
	"oracle = independent pre-order (parent first, children in link order) walk of the stored blocks: the first-occurrence request log must equal it and all repetitions must be identical; non-trivial = >= 2 interior levels; distinct by (writer, depth, leaves, op)"

// c20Run runs op on a fresh load of root and returns the first-occurrence read log (root excluded).
func c20Run(st *Store, root cid.Cid, op func(pn datamodel.Node) error) ([]cid.Cid, error) {
	ls := st.LinkSystem()
	pn, err := loadPlain(ls, root)
	if err != nil {
		return nil, err
	}
	st.ResetLogs()
	if err := op(pn); err != nil {
		return nil, err
	}
	return firstOccurrences(st.ReadLog()), nil
}

func TestC20_P_FileOrder(t *testing.T) {
	ev := newEvid(t, c20FileRule)
	rapid.Check(t, func(t *rapid.T) {
		fc := genFileDAG(t, 0, 300)
		opName := rapid.SampledFrom([]string{"AsBytes", "io.Copy", "unixfs-preload", "entity+BytesConsumingMatcher"}).Draw(t, "op")
		ls := fc.St.LinkSystem()
		op := func(pn datamodel.Node) error {
			switch opName {
			case "AsBytes":
				rn, err := ls.KnownReifiers["unixfs"](lc0, pn, ls)
				if err != nil {
					return err
				}
				_, err = rn.AsBytes()
				return err
			case "io.Copy":
				rn, err := ls.KnownReifiers["unixfs"](lc0, pn, ls)
				if err != nil {
					return err
				}
				rs, err := rn.(datamodel.LargeBytesNode).AsLargeBytes()
				if err != nil {
					return err
				}
				_, err = io.CopyBuffer(struct{ io.Writer }{io.Discard}, plainReader{rs}, make([]byte, 7))
				return err
			case "unixfs-preload":
				_, err := ls.KnownReifiers["unixfs-preload"](lc0, pn, ls)
				return err
			default:
				sel, err := selector.CompileSelector(unixfsnode.UnixFSPathSelectorBuilder("", unixfsnode.MatchUnixFSEntitySelector, false))
				if err != nil {
					return err
				}
				prog := traversal.Progress{Cfg: &traversal.Config{LinkSystem: *ls, LinkTargetNodePrototypeChooser: protoChooser}}
				return prog.WalkMatching(pn, sel, unixfsnode.BytesConsumingMatcher)
			}
		}
		want := fc.Tree.PreOrder()[1:] // the root is already in hand
		var first []cid.Cid
		for rep := 0; rep < 3; rep++ {
			var got []cid.Cid
			var err error
			must(t, opName, func() { got, err = c20Run(fc.St, fc.Root, op) })
			if err != nil {
				t.Fatalf("C20 [%s] %s: %v", fc.Desc, opName, err)
			}
			if fmt.Sprint(got) != fmt.Sprint(want) {
				t.Fatalf("C20 [%s] %s: request order %v, depth-first link order is %v", fc.Desc, opName, shortCids(got), shortCids(want))
			}
			if rep == 0 {
				first = got
			} else if fmt.Sprint(got) != fmt.Sprint(first) {
				t.Fatalf("C20 [%s] %s: run %d order differs from run 0", fc.Desc, opName, rep)
			}
		}
		// Used reader: read a few bytes, seek back to 0, then read sequentially. Whatever is newly requested after the seek
		// must come in depth-first link order (a reader may keep what it already loaded, it may not reorder the rest).
		if len(fc.Data) > 0 && rapid.Bool().Draw(t, "usedReader") {
			k := rapid.IntRange(1, len(fc.Data)).Draw(t, "prefix")
			pn, err := loadPlain(ls, fc.Root)
			if err != nil {
				t.Fatal(err)
			}
			rn, err := ls.KnownReifiers["unixfs"](lc0, pn, ls)
			if err != nil {
				t.Fatal(err)
			}
			rs, err := rn.(datamodel.LargeBytesNode).AsLargeBytes()
			if err != nil {
				t.Fatal(err)
			}
			fc.St.ResetLogs()
			if _, err := io.ReadFull(rs, make([]byte, k)); err != nil {
				t.Fatalf("C20 [%s] prefix read: %v", fc.Desc, err)
			}
			before := cidSet(fc.St.ReadLog())
			fc.St.ResetLogs()
			if _, err := rs.Seek(0, io.SeekStart); err != nil {
				t.Fatal(err)
			}
			if _, err := io.Copy(io.Discard, plainReader{rs}); err != nil {
				t.Fatalf("C20 [%s] read after seek: %v", fc.Desc, err)
			}
			var wantNew, gotNew []cid.Cid
			for _, c := range want {
				if !before[c] {
					wantNew = append(wantNew, c)
				}
			}
			for _, c := range firstOccurrences(fc.St.ReadLog()) {
				if !before[c] {
					gotNew = append(gotNew, c)
				}
			}
			if fmt.Sprint(gotNew) != fmt.Sprint(wantNew) {
				t.Fatalf("C20 [%s] Read(%d), Seek(0), sequential read on one reader: blocks first requested after the seek %v, depth-first link order of the blocks not loaded before is %v", fc.Desc, k, shortCids(gotNew), shortCids(wantNew))
			}
			ev.Count("used-reader", 1)
		}
		ev.Case(fmt.Sprintf("%s d=%d l=%s %s", fc.Writer, fc.Tree.Depth(), bucket(fc.Tree.Leaves()), opName), fc.Tree.Depth() >= 3,
			"op:"+opName, "writer:"+fc.Writer, fmt.Sprintf("depth:%d", fc.Tree.Depth()))
		ev.Sample(map[string]any{"file": fc.Desc, "op": opName, "blocks": len(want) + 1})
	})
}

const c20HamtRule = "case = (sharded directory incl. hash-collision names, fanout, operation in {full MapIterator, native Iterator, Length(), unixfs-preload reification, entity selector walk}) on a fresh node, repeated 3 times; " +
	"oracle = independent depth-first walk of the shard tree in stored link order; non-trivial = >= 2 levels of child shards with >= 2 child shards; distinct by (fanout, depth, shard count bucket, op)"

func TestC20_P_HamtOrder(t *testing.T) {
	ev := newEvid(t, c20HamtRule)
	maxN := scale(300, 2000)
	rapid.Check(t, func(t *rapid.T) {
		names, _, fanout := genNamesFanout(t, nameOpts{Max: maxN})
		es := make([]entrySpec, len(names))
		for i, n := range names {
			es[i] = entryFor(n, 0)
		}
		st := NewStore()
		root, _, err := buildSharded(st, es, fanout)
		if err != nil {
			t.Fatalf("build: %v", err)
		}
		tree, err := st.ShardTree(root)
		if err != nil {
			t.Fatal(err)
		}
		want := tree.ShardsPreOrder()
		opName := rapid.SampledFrom([]string{"MapIterator", "Iterator", "Length", "unixfs-preload", "entity-selector"}).Draw(t, "op")
		ls := st.LinkSystem()
		op := func(pn datamodel.Node) error {
			if opName == "unixfs-preload" {
				_, err := ls.KnownReifiers["unixfs-preload"](lc0, pn, ls)
				return err
			}
			if opName == "entity-selector" {
				sel, err := selector.CompileSelector(unixfsnode.UnixFSPathSelectorBuilder("", unixfsnode.MatchUnixFSEntitySelector, false))
				if err != nil {
					return err
				}
				prog := traversal.Progress{Cfg: &traversal.Config{LinkSystem: *ls, LinkTargetNodePrototypeChooser: protoChooser}}
				return prog.WalkMatching(pn, sel, unixfsnode.BytesConsumingMatcher)
			}
			rn, err := ls.KnownReifiers["unixfs"](lc0, pn, ls)
			if err != nil {
				return err
			}
			switch opName {
			case "MapIterator":
				for it := rn.MapIterator(); !it.Done(); {
					if _, _, err := it.Next(); err != nil {
						return err
					}
				}
			case "Iterator":
				for it := rn.(nativeDir).Iterator(); !it.Done(); {
					it.Next()
				}
			case "Length":
				if rn.Length() != int64(len(names)) {
					return fmt.Errorf("Length %d want %d", rn.Length(), len(names))
				}
			}
			return nil
		}
		// Partially warmed node: a few lookups first (they load the shards on their hash paths), then the operation on the SAME
		// node. Blocks that are requested by the operation must still come in depth-first link order.
		if opName != "unixfs-preload" && opName != "entity-selector" && len(names) > 0 && rapid.Bool().Draw(t, "warmup") {
			var warm []string
			for i := rapid.IntRange(1, 4).Draw(t, "nwarm"); i > 0; i-- {
				warm = append(warm, names[rapid.IntRange(0, len(names)-1).Draw(t, "warmname")])
			}
			pn, err := loadPlain(ls, root)
			if err != nil {
				t.Fatal(err)
			}
			rn, err := ls.KnownReifiers["unixfs"](lc0, pn, ls)
			if err != nil {
				t.Fatal(err)
			}
			st.ResetLogs()
			for _, w := range warm {
				if _, err := rn.LookupByString(w); err != nil {
					t.Fatalf("C20 hamt warm-up lookup %q: %v", w, err)
				}
			}
			before := cidSet(st.ReadLog())
			st.ResetLogs()
			must(t, opName+" after warm-up", func() {
				switch opName {
				case "MapIterator":
					for it := rn.MapIterator(); !it.Done(); {
						if _, _, e := it.Next(); e != nil {
							err = e
							return
						}
					}
				case "Iterator":
					for it := rn.(nativeDir).Iterator(); !it.Done(); {
						it.Next()
					}
				case "Length":
					if rn.Length() != int64(len(names)) {
						err = fmt.Errorf("Length %d want %d", rn.Length(), len(names))
					}
				}
			})
			if err != nil {
				t.Fatalf("C20 hamt %s after warm-up: %v", opName, err)
			}
			var wantNew, gotNew []cid.Cid
			for _, c := range want {
				if !before[c] {
					wantNew = append(wantNew, c)
				}
			}
			for _, c := range firstOccurrences(st.ReadLog()) {
				if !before[c] {
					gotNew = append(gotNew, c)
				}
			}
			if fmt.Sprint(gotNew) != fmt.Sprint(wantNew) {
				t.Fatalf("C20 hamt fanout=%d n=%d %s after lookups of %q on the same node: newly requested blocks %v, depth-first link order of the not yet loaded shards is %v", fanout, len(names), opName, warm, shortCids(gotNew), shortCids(wantNew))
			}
			ev.Count("warm-node", 1)
		}
		var first []cid.Cid
		for rep := 0; rep < 3; rep++ {
			var got []cid.Cid
			must(t, opName, func() { got, err = c20Run(st, root, op) })
			if err != nil {
				t.Fatalf("C20 hamt %s: %v", opName, err)
			}
			if opName == "entity-selector" {
				// the walk also loads nothing else: entries are synthetic (not in the store) and must not be requested
				for _, c := range got {
					if _, ok := st.Get(c); !ok {
						t.Fatalf("C20 hamt entity-selector requested entry block %s", c)
					}
				}
			}
			if fmt.Sprint(got) != fmt.Sprint(want) {
				t.Fatalf("C20 hamt fanout=%d n=%d %s: request order %v, depth-first link order is %v", fanout, len(names), opName, shortCids(got), shortCids(want))
			}
			if rep == 0 {
				first = got
			} else if fmt.Sprint(got) != fmt.Sprint(first) {
				t.Fatalf("C20 hamt %s: run %d order differs from run 0", opName, rep)
			}
		}
		// a transient storage error in the middle of a full iteration that carries on: the shards below the failed load may
		// never be requested, but what is requested still comes in depth-first link order (nothing is put off until later)
		if (opName == "MapIterator" || opName == "Iterator") && len(want) >= 2 {
			k := rapid.IntRange(1, len(want)).Draw(t, "transientFaultAt")
			st.FaultKind = genFaultKind(t)
			pn, err := loadPlain(ls, root)
			if err != nil {
				t.Fatal(err)
			}
			rn, err := ls.KnownReifiers["unixfs"](lc0, pn, ls)
			if err != nil {
				t.Fatal(err)
			}
			st.ResetLogs()
			st.FailReadAt = k
			must(t, "iteration with a transient fault", func() {
				budget := 4*len(names) + 4*len(want) + 50
				if opName == "MapIterator" {
					for it := rn.MapIterator(); !it.Done() && budget > 0; budget-- {
						_, _, _ = it.Next()
					}
				} else {
					for it := rn.(nativeDir).Iterator(); !it.Done() && budget > 0; budget-- {
						it.Next()
					}
				}
				if budget == 0 {
					t.Fatalf("C20 hamt %s with load #%d failing once: iteration does not finish", opName, k)
				}
			})
			st.FailReadAt, st.FaultKind = 0, 0
			got := firstOccurrences(st.ReadLog())
			j := 0
			for _, c := range got {
				for j < len(want) && want[j] != c {
					j++
				}
				if j == len(want) {
					t.Fatalf("C20 hamt fanout=%d n=%d %s with load #%d failing once: request order %v is not a subsequence of the depth-first link order %v", fanout, len(names), opName, k, shortCids(got), shortCids(want))
				}
				j++
			}
			ev.Count("transient-fault-order", 1)
		}
		ev.Case(fmt.Sprintf("f=%d d=%d s=%s %s", fanout, tree.Depth(), bucket(len(want)), opName), tree.Depth() >= 3 && len(want) >= 2,
			"op:"+opName, fmt.Sprintf("depth:%s", bucket(tree.Depth())), fmt.Sprintf("fanout:%d", fanout))
		ev.Sample(map[string]any{"fanout": fanout, "entries": len(names), "depth": tree.Depth(), "child_shards": len(want), "op": opName})
	})
}

const c20PathRule = "case = (tree, root-to-node path); traversal with the path selector and a lazy / preload / entity target; oracle = model root-to-target block list followed (for preload/entity targets) by the target entity's depth-first block list; " +
	"non-trivial = >= 2 segments crossing a sharded directory; distinct by (kinds along the path, target selector)"

func TestC20_P_PathOrder(t *testing.T) {
	ev := newEvid(t, c20PathRule)
	rapid.Check(t, func(t *rapid.T) {
		root := genTree(t, 3, scale(8, 14))
		st := NewStore()
		if err := root.build(st); err != nil {
			t.Fatalf("build tree: %v", err)
		}
		segs, nodes := genWalk(t, root)
		want, err := pathBlocks(st, nodes, segs)
		if err != nil {
			t.Fatal(err)
		}
		target := nodes[len(nodes)-1]
		which := rapid.SampledFrom([]string{"match", "preload", "entity"}).Draw(t, "target")
		tsel := unixfsnode.MatchUnixFSSelector
		switch which {
		case "preload":
			tsel = unixfsnode.MatchUnixFSPreloadSelector
		case "entity":
			tsel = unixfsnode.MatchUnixFSEntitySelector
		}
		// preload / entity targets load the whole target entity; so does a lazily matched file whose bytes the
		// visitor consumes (BytesConsumingMatcher). Entity blocks follow the path blocks in depth-first order.
		if which != "match" || !target.Dir {
			want = append(want, target.Entity[1:]...)
		}
		want = firstOccurrences(want)
		path, _ := renderPath(t, segs)
		ls := st.LinkSystem()
		sel, err := selector.CompileSelector(unixfsnode.UnixFSPathSelectorBuilder(path, tsel, false))
		if err != nil {
			t.Fatal(err)
		}
		var first []cid.Cid
		for rep := 0; rep < 2; rep++ {
			st.ResetLogs()
			pn, err := loadPlain(ls, root.Root)
			if err != nil {
				t.Fatal(err)
			}
			must(t, "path traversal", func() {
				prog := traversal.Progress{Cfg: &traversal.Config{LinkSystem: *ls, LinkTargetNodePrototypeChooser: protoChooser}}
				err = prog.WalkMatching(pn, sel, unixfsnode.BytesConsumingMatcher)
			})
			if err != nil {
				t.Fatalf("C20 path %q (%s): %v", path, which, err)
			}
			got := firstOccurrences(st.ReadLog())
			if fmt.Sprint(got) != fmt.Sprint(want) {
				t.Fatalf("C20 path %q (%s): request order %v, root-to-target order is %v", path, which, shortCids(got), shortCids(want))
			}
			if rep == 0 {
				first = got
			} else if fmt.Sprint(got) != fmt.Sprint(first) {
				t.Fatalf("C20 path %q: second run differs", path)
			}
		}
		kinds := ""
		sh := false
		for i, nd := range nodes {
			switch {
			case !nd.Dir:
				kinds += "f"
			case nd.Sharded:
				kinds += "h"
				if i < len(segs) {
					sh = true
				}
			default:
				kinds += "d"
			}
		}
		ev.Case(fmt.Sprintf("%s %s", kinds, which), len(segs) >= 2 && sh, "kinds:"+kinds, "target:"+which)
		ev.Sample(map[string]any{"path": path, "kinds": kinds, "target": which, "requested": len(first)})
	})
}

// TestC20_P_HandmadeFileOrder: depth-first link order also on hand-assembled DAGs with empty chunks.
func TestC20_P_HandmadeFileOrder(t *testing.T) {
	ev := newEvid(t, "case = hand-assembled well-formed file DAG whose chunks may be empty (see C06), full sequential read / preload / entity walk on a fresh node, twice; oracle = independent pre-order walk; non-trivial = DAG with an empty chunk; distinct by (chunk pattern, leaf kind, levels, op)")
	rapid.Check(t, func(t *rapid.T) {
		fc := genHandFileDAGOpt(t, handOpts{SpareBlockSize: true, LyingFileSize: true})
		opName := rapid.SampledFrom([]string{"AsBytes", "unixfs-preload"}).Draw(t, "op")
		ls := fc.St.LinkSystem()
		op := func(pn datamodel.Node) error {
			if opName == "unixfs-preload" {
				_, err := ls.KnownReifiers["unixfs-preload"](lc0, pn, ls)
				return err
			}
			rn, err := ls.KnownReifiers["unixfs"](lc0, pn, ls)
			if err != nil {
				return err
			}
			b, err := rn.AsBytes()
			if err == nil && string(b) != string(fc.Data) {
				return fmt.Errorf("bytes differ")
			}
			return err
		}
		want := fc.Tree.PreOrder()[1:]
		for rep := 0; rep < 2; rep++ {
			got, err := c20Run(fc.St, fc.Root, op)
			if err != nil {
				t.Fatalf("C20 [%s] %s: %v", fc.Desc, opName, err)
			}
			if fmt.Sprint(got) != fmt.Sprint(want) {
				t.Fatalf("C20 [%s] %s: request order %v, depth-first link order is %v", fc.Desc, opName, shortCids(got), shortCids(want))
			}
		}
		ev.Case(fc.Writer+" "+opName, strings.Contains(fc.Writer, "0"), "op:"+opName)
		ev.Sample(map[string]any{"file": fc.Desc, "op": opName})
	})
}

// A single node with more than 1024 links whose children are dag-pb leaves (reference importer, protobuf leaves, Maxlinks 1100):
// the request order of a full read and of a preload is still the link order.
func TestC20_R_VeryWideNode(t *testing.T) {
	for _, n := range []int{1023, 1024, 1025, 1100} {
		data := lcgBytes(n, 5, 0)
		st := NewStore()
		root, _, err := refImportFile(st, data, refFileOpts{Chunker: "size-1", Width: 1100, RawLeaves: false, CidV1: true})
		if err != nil {
			t.Fatal(err)
		}
		tree, err := st.FileTree(root, 0)
		if err != nil {
			t.Fatal(err)
		}
		want := tree.PreOrder()[1:]
		ls := st.LinkSystem()
		for _, opName := range []string{"AsBytes", "unixfs-preload"} {
			got, err := c20Run(st, root, func(pn datamodel.Node) error {
				if opName == "unixfs-preload" {
					_, err := ls.KnownReifiers["unixfs-preload"](lc0, pn, ls)
					return err
				}
				rn, err := ls.KnownReifiers["unixfs"](lc0, pn, ls)
				if err != nil {
					return err
				}
				b, err := rn.AsBytes()
				if err == nil && string(b) != string(data) {
					return fmt.Errorf("bytes differ")
				}
				return err
			})
			if err != nil {
				t.Fatalf("C20 very wide node n=%d %s: %v", n, opName, err)
			}
			if fmt.Sprint(got) != fmt.Sprint(want) {
				first := 0
				for first < len(got) && first < len(want) && got[first] == want[first] {
					first++
				}
				t.Fatalf("C20 very wide node (%d links) %s: request order differs from link order at position %d of %d", n, opName, first, len(want))
			}
		}
	}
}

const c20RepeatRule = "case = hand-assembled file DAG that may lack BlockSizes / FileSize (the reader then measures children by opening them, so the request order is not the depth-first one and is not compared with it) read in full several times: through fresh nodes and repeatedly through ONE node (AsBytes, two readers, preload then read); " +
	"oracle = 'identical on every run': every full read requests the blocks in the same order as the first one; non-trivial = file without BlockSizes and with dag-pb children; distinct by (shape, route)"

// TestC20_P_OldStyleRepeatable: for files whose sizes are not declared the order is whatever measuring makes it, but it has
// to be the same order every time.
func TestC20_P_OldStyleRepeatable(t *testing.T) {
	ev := newEvid(t, c20RepeatRule)
	rapid.Check(t, func(t *rapid.T) {
		fc := genHandFileDAG(t, true)
		ls := fc.St.LinkSystem()
		full := func(n datamodel.Node, how int) ([]cid.Cid, error) {
			fc.St.ResetLogs()
			var err error
			if how == 0 {
				_, err = n.AsBytes()
			} else {
				rs, e := n.(datamodel.LargeBytesNode).AsLargeBytes()
				if e != nil {
					return nil, e
				}
				_, err = io.Copy(io.Discard, rs)
			}
			return firstOccurrences(fc.St.ReadLog()), err
		}
		fresh := func() datamodel.Node {
			n, err := loadReified(ls, fc.Root, "unixfs")
			if err != nil {
				t.Fatalf("harness: %v", err)
			}
			return n
		}
		first, err := full(fresh(), 0)
		if err != nil {
			t.Fatalf("C20 [%s]: %v", fc.Desc, err)
		}
		shared := fresh()
		probed := false
		for run := 1; run <= 4; run++ {
			n := shared
			if run == 1 {
				n = fresh()
			}
			if run >= 2 && rapid.Bool().Draw(t, "probeBetweenReads") {
				// another reader of the shared node asks for the end (and perhaps reads a little) between two full reads: what it
				// learned about the file may not change the order in which the next full read asks for the blocks
				if rs, e := n.(datamodel.LargeBytesNode).AsLargeBytes(); e == nil {
					_, _ = rs.Seek(0, io.SeekEnd)
					if rapid.Bool().Draw(t, "probeReads") {
						_, _ = rs.Seek(-int64(rapid.IntRange(0, len(fc.Data)).Draw(t, "probeBack")), io.SeekEnd)
						_, _ = rs.Read(make([]byte, 3))
					}
				}
				probed = true
			}
			got, err := full(n, run%2)
			if err != nil {
				t.Fatalf("C20 [%s] run %d: %v", fc.Desc, run, err)
			}
			if fmt.Sprint(got) != fmt.Sprint(first) {
				t.Fatalf("C20 [%s]: full read #%d (same node reused from #2 on) requested blocks in the order %v, the first full read in the order %v", fc.Desc, run+1, shortCids(got), shortCids(first))
			}
		}
		// the same through ONE reader: read to the end, rewind, read again (and once more)
		if rs, e := fresh().(datamodel.LargeBytesNode).AsLargeBytes(); e == nil {
			for pass := 1; pass <= 3; pass++ {
				fc.St.ResetLogs()
				if _, err := rs.Seek(0, io.SeekStart); err != nil {
					t.Fatalf("C20 [%s]: rewind: %v", fc.Desc, err)
				}
				if _, err := io.Copy(io.Discard, rs); err != nil {
					t.Fatalf("C20 [%s]: pass %d through one reader: %v", fc.Desc, pass, err)
				}
				if got := firstOccurrences(fc.St.ReadLog()); fmt.Sprint(got) != fmt.Sprint(first) {
					t.Fatalf("C20 [%s]: full read #%d through one rewound reader requested blocks in the order %v, a full read on a fresh node in the order %v", fc.Desc, pass, shortCids(got), shortCids(first))
				}
			}
		}
		old := strings.Contains(fc.Writer, "bs=false")
		ev.Case(fmt.Sprintf("%s probed=%v", fc.Writer, probed), old, fmt.Sprintf("noBlockSizes:%v", old), fmt.Sprintf("end-probed-between-reads:%v", probed))
		ev.Sample(map[string]any{"file": fc.Desc, "blocks": len(first)})
	})
}

// A shard with more child shards than any default-fanout shard can have (fanout 512 / 1024, thousands of entries), walked
// repeatedly through one node object: whatever the node requests on the first and on the later walks, it requests the same
// blocks in the same order in every run (nothing about it may depend on map iteration order), and the first walk is the
// depth-first one.
func TestC20_R_RepeatedWalksOfVeryWideShards(t *testing.T) {
	for _, c := range []struct{ fanout, n int }{{512, 1800}, {1024, 3500}} {
		st := NewStore()
		es := make([]entrySpec, c.n)
		for i := range es {
			es[i] = entryFor(fmt.Sprintf("entry-%05d", i), 0)
		}
		root, _, err := buildSharded(st, es, c.fanout)
		if err != nil {
			t.Fatal(err)
		}
		tree, err := st.ShardTree(root)
		if err != nil {
			t.Fatal(err)
		}
		shards := tree.ShardsPreOrder()
		if len(shards) <= 256 {
			t.Fatalf("harness: only %d child shards at fanout %d with %d entries", len(shards), c.fanout, c.n)
		}
		ls := st.LinkSystem()
		history := func() (first, all []cid.Cid) {
			rn, err := loadReified(ls, root, "unixfs")
			if err != nil {
				t.Fatal(err)
			}
			st.ResetLogs()
			walk := func() {
				k := 0
				for it := rn.MapIterator(); !it.Done(); k++ {
					if _, _, err := it.Next(); err != nil {
						t.Fatalf("C20: fanout %d, %d entries: iteration: %v", c.fanout, c.n, err)
					}
				}
				if k != c.n {
					t.Fatalf("C20: fanout %d: iteration yielded %d of %d entries", c.fanout, k, c.n)
				}
			}
			walk()
			first = st.ReadLog()
			walk()
			if l := rn.Length(); l != int64(c.n) {
				t.Fatalf("C20: fanout %d: Length() = %d, want %d", c.fanout, l, c.n)
			}
			for i := 0; i < c.n; i += 37 {
				if _, err := rn.LookupByString(es[i].Name); err != nil {
					t.Fatalf("C20: fanout %d: lookup of %q: %v", c.fanout, es[i].Name, err)
				}
			}
			walk()
			return first, st.ReadLog()
		}
		first, all := history()
		if !slices.Equal(firstOccurrences(first), firstOccurrences(shards)) {
			t.Fatalf("C20: fanout %d, %d entries, %d child shards: the first full iteration requested %d blocks, not the depth-first walk", c.fanout, c.n, len(shards), len(first))
		}
		for run := 2; run <= 4; run++ {
			_, again := history()
			if !slices.Equal(all, again) {
				t.Fatalf("C20: fanout %d, %d entries, %d child shards: the same history (iterate, iterate, Length, %d lookups, iterate) on a fresh node requested %d blocks in run 1 and %d blocks in run %d, first difference at request #%d: the request sequence is not repeatable", c.fanout, c.n, len(shards), (c.n+36)/37, len(all), len(again), run, firstCidDiff(all, again))
			}
		}
	}
}

func firstCidDiff(a, b []cid.Cid) int {
	for i := 0; i < len(a) && i < len(b); i++ {
		if a[i] != b[i] {
			return i + 1
		}
	}
	return min(len(a), len(b)) + 1
}

// One goroutine's request for a child shard is held back by the store (a slow load) while another goroutine computes the
// Length of the same fresh node: the blocks that second goroutine requests still come in depth-first link order - it
// neither waits for the other's request nor works around it.
func TestC20_R_LengthWhileAnotherUsersRequestIsHeld(t *testing.T) {
	st := NewStore()
	var es []entrySpec
	for i := 0; i < 600; i++ {
		es = append(es, entryFor(fmt.Sprintf("entry-%03d", i), 0))
	}
	root, _, err := buildSharded(st, es, 16)
	if err != nil {
		t.Fatal(err)
	}
	tree, err := st.ShardTree(root)
	if err != nil {
		t.Fatal(err)
	}
	shards := firstOccurrences(tree.ShardsPreOrder())
	for _, which := range []int{0, len(shards) / 2} {
		held := shards[which]
		var through string
		for _, e := range es {
			if p := tree.HashPath(e.Name); len(p) > 0 && p[len(p)-1] == held {
				through = e.Name
				break
			}
		}
		if through == "" {
			continue
		}
		for _, op := range []string{"length", "iterate"} {
			rn, err := loadReified(st.LinkSystem(), root, "unixfs")
			if err != nil {
				t.Fatal(err)
			}
			// the other user first walks down to the held shard's parent, then asks for the held shard and is kept waiting
			release := make(chan struct{})
			st.Park, st.ParkedNow = map[cid.Cid]chan struct{}{held: release}, nil
			st.ResetLogs()
			otherDone := make(chan error, 1)
			go func() {
				_, err := rn.LookupByString(through)
				otherDone <- err
			}()
			for i := 0; ; i++ {
				st.mu.Lock()
				requested := len(st.ParkedNow) > 0
				st.mu.Unlock()
				if requested {
					break
				}
				if i > 5000 {
					t.Fatalf("harness: the lookup never asked for shard %s", held)
				}
				time.Sleep(time.Millisecond)
			}
			already := cidSet(st.ReadLog()) // (what the other user's lookup loaded on its way down)
			st.ResetLogs()
			mine := make(chan []cid.Cid, 1)
			go func() {
				if op == "length" {
					_ = rn.Length()
				} else {
					for it := rn.MapIterator(); !it.Done(); {
						if _, _, err := it.Next(); err != nil {
							break
						}
					}
				}
				mine <- st.ReadLog()
			}()
			var log []cid.Cid
			select {
			case log = <-mine:
			case <-time.After(20 * time.Second):
				close(release)
				t.Fatalf("C20: %s on a node while another goroutine's request for shard #%d is held back did not return within 20 s", op, which)
			}
			close(release)
			if err := <-otherDone; err != nil {
				t.Fatalf("C20: the held-back lookup failed after its block arrived: %v", err)
			}
			st.Park = nil
			var want []cid.Cid
			for _, c := range shards {
				if !already[c] {
					want = append(want, c)
				}
			}
			if got := firstOccurrences(log); !slices.Equal(got, want) {
				t.Fatalf("C20: %s while another goroutine's request for shard #%d of %d is held back: this goroutine's requests %v are not the depth-first walk of the shards still to be loaded (first difference at #%d of %d)", op, which, len(shards), shortCids(got[:min(len(got), 8)]), firstCidDiff(got, want), len(want))
			}
		}
	}
}

// A node that records no BlockSizes over raw leaves of very different sizes, one of them above 2 MiB (a raw leaf's size is
// its link's Tsize whatever it is), between nodes that do record them: a full read and a preload request the blocks in
// depth-first link order.
func TestC20_R_HugeRawLeafUnderANodeWithoutBlockSizes(t *testing.T) {
	raw := func(n int, seed byte) *mnode { return &mnode{IsRaw: true, Raw: lcgBytes(n, seed, 0)} }
	sized := func(kids []*mnode, withBlockSizes bool) (*mnode, uint64) {
		m := &mnode{HasData: true, UFS: &ufsFields{Type: 2}}
		tot := uint64(0)
		for _, k := range kids {
			var sz uint64
			if k.IsRaw {
				sz = uint64(len(k.Raw))
			} else {
				sz = *k.UFS.FileSize
			}
			m.Links = append(m.Links, mlink{Tsize: i64p(int64(sz)), Child: k})
			if withBlockSizes {
				m.UFS.BlockSizes = append(m.UFS.BlockSizes, sz)
			}
			tot += sz
		}
		m.UFS.FileSize = u64p(tot)
		return m, tot
	}
	for _, big := range []int{2<<20 + 1, 5 << 20, 70000} {
		left, _ := sized([]*mnode{raw(10, 1), raw(11, 2)}, true)
		middle, _ := sized([]*mnode{raw(12, 3), raw(big, 4), raw(13, 5)}, false)
		right, _ := sized([]*mnode{raw(14, 6)}, true)
		root, total := sized([]*mnode{left, middle, right}, true)
		st := NewStore()
		ls := st.LinkSystem()
		rc, err := root.store(st, ls)
		if err != nil {
			t.Fatal(err)
		}
		tree, err := st.FileTree(rc, 0)
		if err != nil || tree.End != int64(total) {
			t.Fatalf("harness: %v", err)
		}
		want := tree.PreOrder()
		for _, op := range []string{"copy", "preload"} {
			pn, err := loadPlain(ls, rc)
			if err != nil {
				t.Fatal(err)
			}
			st.ResetLogs()
			if op == "preload" {
				_, err = ls.KnownReifiers["unixfs-preload"](lcS, pn, ls)
			} else {
				var rn datamodel.Node
				rn, err = ls.KnownReifiers["unixfs"](lcS, pn, ls)
				if err == nil {
					var rs io.ReadSeeker
					rs, err = rn.(datamodel.LargeBytesNode).AsLargeBytes()
					if err == nil {
						_, err = io.Copy(io.Discard, rs)
					}
				}
			}
			if err != nil {
				t.Fatalf("C20: %s of a file with a %d-byte raw leaf: %v", op, big, err)
			}
			if got := firstOccurrences(st.ReadLog()); !slices.Equal(got, want[1:]) {
				t.Fatalf("C20: %s of a file whose middle node records no BlockSizes over raw leaves of 12, %d and 13 bytes: blocks requested in the order %v, depth-first link order is %v", op, big, shortCids(got), shortCids(want[1:]))
			}
		}
	}
}
