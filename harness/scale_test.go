package harness

// Fixed production-scale cases (added after mutation round 5): the generated cases keep sizes small so that thousands of
// them run per second; these run once per check invocation and cover the sizes real imports have - the default 256 KiB
// chunker with files of several MiB, directories of tens of thousands of entries, subtrees of more than 1 MiB.

import (
	"bytes"
	"fmt"
	"github.com/spaolacci/murmur3"
	"hash/adler32"
	"hash/crc32"
	"hash/fnv"
	"io"
	"math"
	"os"
	"slices"
	"strings"
	"sync"
	"testing"

	"github.com/gogo/protobuf/proto"
	chunk "github.com/ipfs/boxo/chunker"
	"github.com/ipfs/boxo/ipld/unixfs/importer/balanced"
	"github.com/ipfs/boxo/ipld/unixfs/importer/helpers"
	pb "github.com/ipfs/boxo/ipld/unixfs/pb"
	"github.com/ipfs/go-unixfsnode/data"
	mh "github.com/multiformats/go-multihash"

	"github.com/ipfs/go-cid"
	"github.com/ipfs/go-unixfsnode"
	"github.com/ipfs/go-unixfsnode/data/builder"
	quickbuilder "github.com/ipfs/go-unixfsnode/data/builder/quick"
	dagpb "github.com/ipld/go-codec-dagpb"
	"github.com/ipld/go-ipld-prime"
	"github.com/ipld/go-ipld-prime/datamodel"
	basicnode "github.com/ipld/go-ipld-prime/node/basicnode"
)

// C02: directories of more than 2^15 and 2^16 entries, counts in every residue class mod 4 and mod 8.
func TestC02_R_LargeDirectories(t *testing.T) {
	for _, n := range []int{32767, 32769, 40001, 40002, 40003, 65537} {
		es := make([]entrySpec, n)
		want := map[string]cid.Cid{}
		for i := range es {
			es[i] = entryForKind(fmt.Sprintf("file-%05d.txt", i), 0, 0)
			want[es[i].Name] = es[i].Cid
		}
		for _, how := range []string{"sharded", "plain"} { // "plain" auto-shards at this size
			if how == "plain" && n != 40003 {
				continue
			}
			st := NewStore()
			root, _, err := c02Build(st, es, how, 256)
			if err != nil {
				t.Fatalf("C02 large: %d entries (%s): %v", n, how, err)
			}
			dir, err := loadReified(st.LinkSystem(), root, "unixfs")
			if err != nil {
				t.Fatal(err)
			}
			if l := dir.Length(); l != int64(n) {
				t.Fatalf("C02 large: %d entries built with the %s builder, Length() = %d", n, how, l)
			}
			seen := 0
			for it := dir.MapIterator(); !it.Done(); {
				k, v, err := it.Next()
				if err != nil {
					t.Fatalf("C02 large: iteration: %v", err)
				}
				ks, _ := k.AsString()
				if c, _ := linkOf(v); want[ks] != c {
					t.Fatalf("C02 large: %d entries: iteration yielded %q -> %s", n, ks, c)
				}
				seen++
			}
			if seen != n {
				t.Fatalf("C02 large: %d entries built, iteration yields %d", n, seen)
			}
			// the first, the last few and a stride of the entries
			for i := 0; i < n; i++ {
				if i > 8 && i < n-8 && i%997 != 0 {
					continue
				}
				v, err := dir.LookupByString(es[i].Name)
				if err != nil {
					t.Fatalf("C02 large: %d entries (%s builder): lookup of entry #%d %q: %v", n, how, i, es[i].Name, err)
				}
				if c, _ := linkOf(v); c != es[i].Cid {
					t.Fatalf("C02 large: lookup of %q -> %s", es[i].Name, c)
				}
			}
		}
	}
}

// bigFile builds a file with the builder under test and returns its model.
func bigFile(t *testing.T, n int, chunker string, w int) *fileCase {
	data := lcgBytes(n, 7, 0)
	st := NewStore()
	root, _, err := buildFile(st, data, chunker, w)
	if err != nil {
		t.Fatalf("build %d bytes (%s, w=%d): %v", n, chunker, w, err)
	}
	tree, err := st.FileTree(root, 0)
	if err != nil {
		t.Fatal(err)
	}
	return &fileCase{St: st, Root: root, Data: data, Tree: tree, W: w, Desc: fmt.Sprintf("%d bytes, chunker %q, w=%d, %d blocks", n, chunker, w, len(tree.PreOrder()))}
}

// C05: subtrees holding more than 1 MiB (BlockSizes entries beyond any single block's size) - a range read still only
// fetches what intersects the range.
func TestC05_R_LargeSubtrees(t *testing.T) {
	for _, fc := range []*fileCase{
		bigFile(t, 9*524288/2+17, "size-524288", 3),  // children of the root hold 1.5 MiB each
		bigFile(t, 3*1024*1024+5, "size-262144", 11), // first child of the root holds 2.75 MiB
		bigFile(t, 6*1024*1024, "", 2),               // default chunker, deep tree
	} {
		n := int64(len(fc.Data))
		for _, r := range [][2]int64{{10, 20}, {n/2 - 3, n/2 + 3}, {n - 5, n}, {0, 1}, {n / 3, n/3 + 300000}} {
			want := map[cid.Cid]bool{}
			fc.Tree.Needed(r[0], r[1], want)
			rn, err := loadReified(fc.St.LinkSystem(), fc.Root, "unixfs")
			if err != nil {
				t.Fatal(err)
			}
			fc.St.ResetLogs()
			rs, err := rn.(datamodel.LargeBytesNode).AsLargeBytes()
			if err != nil {
				t.Fatal(err)
			}
			if _, err := rs.Seek(r[0], io.SeekStart); err != nil {
				t.Fatal(err)
			}
			got := make([]byte, r[1]-r[0])
			if _, err := io.ReadFull(rs, got); err != nil || !bytes.Equal(got, fc.Data[r[0]:r[1]]) {
				t.Fatalf("C05 large [%s] range [%d,%d): err %v / wrong bytes", fc.Desc, r[0], r[1], err)
			}
			if c, ok := subsetOf(fc.St.ReadLog(), want); !ok {
				t.Fatalf("C05 large [%s] range [%d,%d): over-fetch of block %s (%d blocks requested, %d needed)", fc.Desc, r[0], r[1], c, len(fc.St.ReadLog()), len(want))
			}
		}
	}
}

// C06: preload / entity walks of files of several MiB (link counts that are not multiples of 2, 4, 8) fetch every block
// and fail when one of them - early, late, the very last - is unavailable.
func TestC06_R_LargeFiles(t *testing.T) {
	for _, fc := range []*fileCase{
		bigFile(t, 5*1024*1024, "", 174),              // 20 leaves under one root
		bigFile(t, 4*1024*1024+1, "", 174),            // 17 leaves
		bigFile(t, 21*262144+9, "", 5),                // three levels, ragged
		bigFile(t, 4*1024*1024+77, "size-65536", 174), // 65 leaves
	} {
		target := &tnode{Root: fc.Root, Data: fc.Data, Entity: fc.Tree.PreOrder()}
		for _, access := range []string{"reifier", "preload-selector", "entity-selector"} {
			log, err, p := c06Access(fc.St, target, target, "", access)
			if p != nil || err != nil {
				t.Fatalf("C06 large [%s via %s]: err %v panic %v", fc.Desc, access, err, p)
			}
			got := cidSet(log)
			for i, c := range target.Entity[1:] {
				if !got[c] {
					t.Fatalf("C06 large [%s via %s]: block #%d of %d was never requested", fc.Desc, access, i+1, len(target.Entity)-1)
				}
			}
			blocks := target.Entity[1:]
			for _, i := range []int{0, len(blocks) / 2, len(blocks) - 4, len(blocks) - 2, len(blocks) - 1} {
				if i < 0 {
					continue
				}
				fc.St.Missing = map[cid.Cid]bool{blocks[i]: true}
				_, ferr, p := c06Access(fc.St, target, target, "", access)
				fc.St.Missing = map[cid.Cid]bool{}
				if p != nil || ferr == nil {
					t.Fatalf("C06 large [%s via %s]: block #%d of %d unavailable: err %v panic %v (want an error)", fc.Desc, access, i+1, len(blocks), ferr, p)
				}
			}
		}
	}
}

// C12: every single missing block of a 3 MiB file (default chunker) must surface through AsBytes and through streaming.
func TestC12_R_LargeFileFaults(t *testing.T) {
	bareIdx := 0
	for _, fc := range []*fileCase{bigFile(t, 3*1024*1024+100, "", 174), bigFile(t, 1024*1024+1, "size-131072", 3)} {
		for _, mode := range []string{"AsBytes", "stream-4096", "copy"} {
			for _, n := range fc.Tree.All()[1:] {
				fc.St.Missing = map[cid.Cid]bool{n.Cid: true}
				fc.St.MissingIO = n.Start%2 == 0
				if bareIdx++; bareIdx%3 == 0 {
					fc.St.MissingBare = bareFaults[(bareIdx/3)%len(bareFaults)] // io.EOF, io.ErrUnexpectedEOF, ... passed through unwrapped
				}
				rn, err := loadReified(fc.St.LinkSystem(), fc.Root, "unixfs")
				if err != nil {
					t.Fatal(err)
				}
				var got []byte
				var rerr error
				switch mode {
				case "AsBytes":
					got, rerr = rn.AsBytes()
				case "copy":
					rs, _ := rn.(datamodel.LargeBytesNode).AsLargeBytes()
					var b bytes.Buffer
					_, rerr = io.Copy(&b, rs)
					got = b.Bytes()
				default:
					rs, _ := rn.(datamodel.LargeBytesNode).AsLargeBytes()
					got, rerr = readAllStream(rs, 4096)
				}
				bare := fc.St.MissingBare
				fc.St.Missing = map[cid.Cid]bool{}
				fc.St.MissingIO = false
				fc.St.MissingBare = nil
				if rerr == nil || rerr == io.EOF || (bare == nil && !isInjected(rerr)) {
					t.Fatalf("C12 large [%s] %s with the block at span %d.. unavailable (bare error %v): err=%v after %d bytes", fc.Desc, mode, n.Start, bare, rerr, len(got))
				}
				if mode != "AsBytes" && !bytes.Equal(got, fc.Data[:n.Start]) {
					t.Fatalf("C12 large [%s] %s: %d bytes delivered before the error, want the %d preceding the missing span", fc.Desc, mode, len(got), n.Start)
				}
			}
		}
	}
}

// C14: a dag-pb file node may inline as much data as fits a block: the largest legal chunk (1 MiB) plus its framing.
func TestC14_R_LargeInlineData(t *testing.T) {
	for _, n := range []int{1<<20 - 16, 1<<20 - 1, 1 << 20, 1<<20 + 1, 1<<20 + 4096, 2 << 20} {
		for _, typ := range []uint64{2, 0} {
			payload := lcgBytes(n, 3, 0)
			m := &mnode{HasData: true, UFS: &ufsFields{Type: typ, HasData: true, Data: payload, FileSize: u64p(uint64(n))}}
			st := NewStore()
			ls := st.LinkSystem()
			root, err := m.store(st, ls)
			if err != nil {
				t.Fatal(err)
			}
			pn, err := loadPlain(ls, root)
			if err != nil {
				t.Fatal(err)
			}
			for _, name := range []string{"Reify", "unixfs", "unixfs-preload"} {
				var rn datamodel.Node
				if name == "Reify" {
					rn, err = unixfsnode.Reify(ipld.LinkContext{}, pn, ls)
				} else {
					rn, err = ls.KnownReifiers[name](ipld.LinkContext{}, pn, ls)
				}
				if err != nil {
					t.Fatalf("C14 large inline data (%d bytes, type %d) via %s: %v", n, typ, name, err)
				}
				if rn.Kind() != datamodel.Kind_Bytes {
					t.Fatalf("C14: file node (type %d) with %d bytes of inline data reified via %s as kind %s, want bytes", typ, n, name, rn.Kind())
				}
				if b, err := rn.AsBytes(); err != nil || !bytes.Equal(b, payload) {
					t.Fatalf("C14: file node with %d bytes of inline data via %s: AsBytes %d bytes, err %v", n, name, len(b), err)
				}
			}
		}
	}
}

// C07 / C11: files through the quick builder (its chunker is the 256 KiB default, so only files of more than 256 KiB
// have interior nodes): link and Size() equal the reference importer's, and the sizes written into an enclosing
// directory are the true cumulative sizes.
func quickFileCase(t *testing.T, n int) (st *Store, fileLink cid.Cid, fileSize uint64, dirLink cid.Cid, dirSize uint64, data []byte) {
	return quickFileCaseEnv(t, n, 0)
}

// quickFileCaseEnv: the same through a link system whose raw codec frames leaf blocks (see Store.RawEnvelope).
func quickFileCaseEnv(t *testing.T, n, envelope int) (st *Store, fileLink cid.Cid, fileSize uint64, dirLink cid.Cid, dirSize uint64, data []byte) {
	data = lcgBytes(n, 11, 0)
	st = NewStore()
	st.RawEnvelope = envelope
	err := quickbuilder.Store(st.LinkSystem(), func(b *quickbuilder.Builder) error {
		f := b.NewBytesFile(data)
		fileLink = cidOf(f.Link())
		sz, err := f.Size()
		if err != nil {
			return err
		}
		fileSize = uint64(sz)
		d := b.NewMapDirectory(map[string]quickbuilder.Node{"the-file.bin": f, "again": f})
		dirLink = cidOf(d.Link())
		dsz, err := d.Size()
		dirSize = uint64(dsz)
		return err
	})
	if err != nil {
		t.Fatalf("quick builder (%d bytes): %v", n, err)
	}
	return
}

var quickFileSizes = []int{0, 1, 1000, 262144, 262145, 786449, 3*262144 + 1}

func TestC07_R_QuickBuilderFiles(t *testing.T) {
	for _, n := range quickFileSizes {
		_, got, gsz, _, _, data := quickFileCase(t, n)
		want, wsz, err := refImportFile(NewStore(), data, refFileOpts{Chunker: "size-262144", Width: 174, RawLeaves: true, CidV1: true})
		if err != nil {
			t.Fatal(err)
		}
		if got != want || gsz != wsz {
			t.Fatalf("C07: quick builder NewBytesFile(%d bytes) = %s / Size %d, reference importer %s / %d", n, got, gsz, want, wsz)
		}
	}
}

func TestC11_R_QuickBuilderSizes(t *testing.T) {
	for i, n := range append(append([]int{}, quickFileSizes...), 100, 127, 128, 16383, 16384, 300000) {
		// the later sizes through raw codecs that frame the leaves: a fixed header and a uvarint length prefix
		env := 0
		if i >= len(quickFileSizes) {
			env = []int{4, RawEnvelopeUvarint}[i%2]
		}
		st, fl, fsz, dl, dsz, _ := quickFileCaseEnv(t, n, env)
		if want, err := st.CumulativeSize(fl, nil); err != nil || want != fsz {
			t.Fatalf("C11: quick builder file of %d bytes reports Size() %d, true cumulative size %d (%v)", n, fsz, want, err)
		}
		if want, err := st.CumulativeSize(dl, nil); err != nil || want != dsz {
			t.Fatalf("C11: quick builder directory holding a %d-byte file twice reports Size() %d, true cumulative size %d (%v)", n, dsz, want, err)
		}
		if _, err := verifySizes(st, dl, nil); err != nil {
			t.Fatalf("C11: quick builder directory with a %d-byte file: %v", n, err)
		}
	}
}

var _ = builder.BuildUnixFSFile
var _ = basicnode.NewString

// C18: trees holding files from just below to several times the sizes at which an importer might change strategy
// (the 256 KiB chunk, 1 MiB, 2^22): every file reads back to its on-disk bytes.
func TestC18_R_LargeFiles(t *testing.T) {
	root := &fsNode{Kind: fsDir, Kids: map[string]*fsNode{"sub": {Kind: fsDir, Kids: map[string]*fsNode{}}}}
	for i, n := range []int{0, 300, 262143, 262144, 262145, 786431, 1<<20 - 1, 1 << 20, 1<<20 + 1, 3<<20 + 17, 1<<22 + 1} {
		where := root
		if i%2 == 1 {
			where = root.Kids["sub"]
		}
		where.Kids[fmt.Sprintf("f-%d.bin", n)] = &fsNode{Kind: fsFile, Data: lcgBytes(n, byte(i+1), 0)}
	}
	st := NewStore()
	ls := st.LinkSystem()
	err := withFSTree(root, func(p string) {
		l, _, err := builder.BuildUnixFSRecursive(p, ls)
		if err != nil {
			t.Fatalf("C18 large files: %v", err)
		}
		if err := c18Compare(st, ls, cidOf(l), root, ""); err != nil {
			t.Fatalf("C18 large files: imported DAG differs from the on-disk tree: %v", err)
		}
	})
	if err != nil {
		t.Fatal(err)
	}
}

// wideDir stores one plain-directory block (or, with ufsType < 0, a block without Data) of n links in LISTING order
// file-1 .. file-n (not byte-sorted: file-10 comes before file-2 in sorted order), hand-encoded so that the stored order
// survives; every entry points at its own small raw block. defects: positions whose link gets no name.
func wideDir(st *Store, n int, nameless map[int]bool) (cid.Cid, []string, map[string]cid.Cid) {
	return wideDirDup(st, n, nameless, nil)
}

// wideDirDup: dups[i] = j gives link i the NAME of link j (its own target stays).
func wideDirDup(st *Store, n int, nameless map[int]bool, dups map[int]int) (cid.Cid, []string, map[string]cid.Cid) {
	var links []LinkInfo
	var names []string
	want := map[string]cid.Cid{}
	for i := 1; i <= n; i++ {
		name := fmt.Sprintf("file-%d", i)
		c := sumRaw([]byte(name))
		st.Put(c, []byte(name))
		if j, ok := dups[i]; ok {
			name = fmt.Sprintf("file-%d", j)
		}
		ts := uint64(len(name))
		li := LinkInfo{Name: strp(name), Tsize: &ts, Cid: c}
		if nameless[i] {
			li.Name = nil
			name = ""
		}
		links = append(links, li)
		names = append(names, name)
		if _, dup := want[name]; !dup {
			want[name] = c
		}
	}
	raw := encodePBRaw(links, []byte{0x08, 0x01}, true)
	c, err := pbProto.Prefix.Sum(raw)
	if err != nil {
		panic(err)
	}
	st.Put(c, raw)
	return c, names, want
}

// C15 / C03: plain directories of more than 1024 and more than 4096 links in listing (unsorted) order, some links
// nameless: the map contract holds, and every entry is reachable by path.
func TestC15_R_WideUnsortedDirectories(t *testing.T) {
	// far beyond what the builders leave unsharded (one variant each: the contract check is quadratic in the link count)
	for _, n := range []int{8193, 9000, 16385} {
		st := NewStore()
		root, _, _ := wideDir(st, n, map[int]bool{n / 2: true})
		rn, err := loadReified(st.LinkSystem(), root, "unixfs")
		if err != nil {
			t.Fatal(err)
		}
		if _, err := checkMapContract(rn, []string{"nope", "file-0"}); err != nil {
			t.Fatalf("C15: plain directory of %d links in listing order (one nameless link in the middle): %v", n, err)
		}
	}
	for _, n := range []int{1025, 3000, 4096, 5000} {
		for _, nameless := range []map[int]bool{nil, {n / 2: true}, {1: true, n: true}} {
			st := NewStore()
			root, _, _ := wideDir(st, n, nameless)
			for _, reifier := range []string{"unixfs", "unixfs-preload"} {
				rn, err := loadReified(st.LinkSystem(), root, reifier)
				if err != nil {
					t.Fatal(err)
				}
				if _, err := checkMapContract(rn, []string{"nope", "file-0", fmt.Sprintf("file-%d", n+1), "Links"}); err != nil {
					t.Fatalf("C15: plain directory of %d links in listing order (nameless at %v) via %s: %v", n, nameless, reifier, err)
				}
			}
		}
		// duplicated names with different targets, early and late in the list
		st := NewStore()
		root, _, _ := wideDirDup(st, n, nil, map[int]int{n / 3: 2, n - 1: n / 2, 7: n})
		for _, reifier := range []string{"unixfs", "unixfs-preload"} {
			rn, err := loadReified(st.LinkSystem(), root, reifier)
			if err != nil {
				t.Fatal(err)
			}
			if _, err := checkMapContract(rn, []string{"nope", fmt.Sprintf("file-%d", n/3), "file-7"}); err != nil {
				t.Fatalf("C15: plain directory of %d links with duplicated names via %s: %v", n, reifier, err)
			}
		}
	}
}

func TestC03_R_WideUnsortedDirectory(t *testing.T) {
	for _, n := range []int{1024, 1025, 3000} {
		st := NewStore()
		sub, names, want := wideDir(st, n, nil)
		// below a normal root, and as the traversal root itself
		rootC, _, err := buildDir(st, []entrySpec{{Name: "big", Cid: sub, Tsize: 1}, entryFor("other", 1)})
		if err != nil {
			t.Fatal(err)
		}
		for i, name := range names {
			if i > 16 && i < n-16 && i%53 != 0 {
				continue
			}
			for _, via := range []struct {
				root cid.Cid
				path string
			}{{rootC, "big/" + name}, {sub, name}} {
				ms, _, err := c03Walk(st, via.root, via.path, "match", false)
				if err != nil || len(ms) != 1 {
					t.Fatalf("C03: path %q into a plain directory of %d entries stored in listing order matched %d nodes (err %v), want exactly the entry", via.path, n, len(ms), err)
				}
				if b, err := ms[0].Node.AsBytes(); err != nil || string(b) != name {
					t.Fatalf("C03: path %q matched %q (err %v), entry links to %s", via.path, b, err, want[name])
				}
			}
		}
		if ms, _, err := c03Walk(st, sub, "file-0", "match", false); err != nil || len(ms) != 0 {
			t.Fatalf("C03: path to a name that is not an entry matched %d nodes (err %v)", len(ms), err)
		}
	}
}

// C07: the file builder is also reached through the recursive importer (default chunker, default width): files on disk
// of every size around the chunk size and up to a few MiB get the reference importer's link and size.
func TestC07_R_ImportedFilesMatchReference(t *testing.T) {
	for i, n := range []int{0, 1, 262143, 262144, 262145, 524288, 700000, 1048575, 1048576, 1048577, 3<<20 + 17} {
		data := lcgBytes(n, byte(i+3), 0)
		fn := &fsNode{Kind: fsFile, Data: data}
		var got cid.Cid
		var gsz uint64
		err := withFSTree(fn, func(p string) {
			l, sz, err := builder.BuildUnixFSRecursive(p, NewStore().LinkSystem())
			if err != nil {
				t.Fatalf("C07 import of a %d-byte file: %v", n, err)
			}
			got, gsz = cidOf(l), sz
		})
		if err != nil {
			t.Fatal(err)
		}
		want, wsz, err := refImportFile(NewStore(), data, refFileOpts{Chunker: "size-262144", Width: 174, RawLeaves: true, CidV1: true})
		if err != nil {
			t.Fatal(err)
		}
		if got != want || gsz != wsz {
			t.Fatalf("C07: a %d-byte file on disk imported by BuildUnixFSRecursive = %s / %d, reference importer %s / %d", n, got, gsz, want, wsz)
		}
	}
}

// C07: ... also for files whose size the file system does not report: kernel pseudo-files (procfs reports size 0 for
// megabytes of content), like files that are still being written, have to be imported by what reading them delivers.
func TestC07_R_ImportedPseudoFilesMatchReference(t *testing.T) {
	big := 0
	for _, p := range []string{"/proc/kallsyms", "/proc/modules", "/proc/cpuinfo", "/proc/filesystems", "/proc/devices", "/proc/self/mountinfo"} {
		fi, err := os.Lstat(p)
		if err != nil || !fi.Mode().IsRegular() {
			continue
		}
		before, err := os.ReadFile(p)
		if err != nil {
			continue
		}
		l, sz, ierr := builder.BuildUnixFSRecursive(p, NewStore().LinkSystem())
		after, err := os.ReadFile(p)
		if err != nil || !bytes.Equal(before, after) {
			t.Logf("%s changed while it was imported: not used", p)
			continue
		}
		if ierr != nil {
			t.Fatalf("C07 import of %s (%d bytes, reported size %d): %v", p, len(before), fi.Size(), ierr)
		}
		want, wsz, err := refImportFile(NewStore(), before, refFileOpts{Chunker: "size-262144", Width: 174, RawLeaves: true, CidV1: true})
		if err != nil {
			t.Fatal(err)
		}
		if cidOf(l) != want || sz != wsz {
			t.Fatalf("C07: %s (%d bytes of content, file system reports size %d) imported by BuildUnixFSRecursive = %s / %d, reference importer %s / %d", p, len(before), fi.Size(), cidOf(l), sz, want, wsz)
		}
		if len(before) > 262144 && fi.Size() < int64(len(before)) {
			big++
		}
	}
	if big == 0 {
		t.Log("no pseudo-file of more than one chunk whose size is under-reported is readable here: only small ones compared")
	}
}

// C09: encoding is a function of the message: messages encoded by several goroutines at once come out as they do alone.
func TestC09_R_ConcurrentEncode(t *testing.T) {
	// more goroutines than processors, and long enough for many time slices to end inside an encode: state shared between
	// calls (a pooled scratch buffer, say) is only disturbed when a goroutine is descheduled in the middle of one
	const G, N = 64, 150000
	type job struct {
		node data.UnixFSData
		want []byte
	}
	jobs := make([]job, G)
	for g := 0; g < G; g++ {
		ty := pb.Data_File
		fs := uint64(1000 + g)
		sec := int64(1700000000 + g*12345)
		ns := uint32(g * 111111)
		mode := uint32(0o640 + g)
		msg := &pb.Data{Type: &ty, Data: lcgBytes(10+g*7, byte(g), 0), Filesize: &fs, Blocksizes: []uint64{uint64(g), 1 << 33}, Mode: &mode, Mtime: &pb.IPFSTimestamp{Seconds: &sec, Nanos: &ns}}
		raw, err := proto.Marshal(msg)
		if err != nil {
			t.Fatal(err)
		}
		n, err := data.DecodeUnixFSData(raw)
		if err != nil {
			t.Fatal(err)
		}
		jobs[g] = job{n, data.EncodeUnixFSData(n)}
	}
	var wg sync.WaitGroup
	errs := make(chan string, G)
	for g := 0; g < G; g++ {
		wg.Add(1)
		go func(g int) {
			defer wg.Done()
			for i := 0; i < N; i++ {
				if got := data.EncodeUnixFSData(jobs[g].node); !bytes.Equal(got, jobs[g].want) {
					errs <- fmt.Sprintf("goroutine %d, iteration %d: encoding %x, alone %x", g, i, got, jobs[g].want)
					return
				}
				if i%64 == 0 {
					if _, err := data.DecodeUnixFSData(jobs[g].want); err != nil {
						errs <- fmt.Sprintf("goroutine %d: decode: %v", g, err)
						return
					}
				}
			}
		}(g)
	}
	wg.Wait()
	close(errs)
	for e := range errs {
		t.Fatalf("C09: %d goroutines encoding their own messages at the same time: %s", G, e)
	}
	// ... and decoding: each goroutine decodes its own message, whose block sizes come as one packed run of 3000 entries
	// (and once in a while as 3000 unpacked fields)
	type djob struct {
		packed, unpacked []byte
		sizes            []uint64
	}
	djobs := make([]djob, G)
	for g := range djobs {
		var run, unp []byte
		for i := 0; i < 3000; i++ {
			v := uint64(g*1000000 + i*7 + 1)
			djobs[g].sizes = append(djobs[g].sizes, v)
			run = wVarint(run, v)
			unp = wVarint(wTag(unp, 4, 0), v)
		}
		head := wVarint(wTag(nil, 1, 0), 2)
		djobs[g].packed = wBytes(append([]byte{}, head...), 4, run)
		djobs[g].unpacked = append(append([]byte{}, head...), unp...)
	}
	derrs := make(chan string, G)
	for g := 0; g < G; g++ {
		wg.Add(1)
		go func(g int) {
			defer wg.Done()
			for i := 0; i < 300; i++ {
				wire := djobs[g].packed
				if i%8 == 7 {
					wire = djobs[g].unpacked
				}
				n, err := data.DecodeUnixFSData(wire)
				if err != nil {
					derrs <- fmt.Sprintf("goroutine %d, iteration %d: decode: %v", g, i, err)
					return
				}
				k := 0
				for it := n.FieldBlockSizes().Iterator(); !it.Done(); k++ {
					_, v := it.Next()
					if k >= len(djobs[g].sizes) || uint64(v.Int()) != djobs[g].sizes[k] {
						derrs <- fmt.Sprintf("goroutine %d, iteration %d: block size #%d decoded as %d, the message says %d", g, i, k, v.Int(), djobs[g].sizes[min(k, len(djobs[g].sizes)-1)])
						return
					}
				}
				if k != len(djobs[g].sizes) {
					derrs <- fmt.Sprintf("goroutine %d, iteration %d: %d block sizes decoded, the message has %d", g, i, k, len(djobs[g].sizes))
					return
				}
			}
		}(g)
	}
	wg.Wait()
	close(derrs)
	for e := range derrs {
		t.Fatalf("C09: %d goroutines decoding their own messages at the same time: %s", G, e)
	}
}

// C11: sizes when a subtree holds 4 GiB (content sizes that no longer fit 32 bits): 4 GiB + 1 MiB + 5 bytes of zeros,
// 1 MiB chunks, width 2 - the store de-duplicates, so the DAG is a few dozen blocks.
func TestC11_R_Over4GiB(t *testing.T) {
	n := int64(4)<<30 + 1<<20 + 5
	st := NewStore()
	root, size, err := buildFileR(st.LinkSystem(), &zeroReader{n: n}, "size-1048576", 2)
	if err != nil {
		t.Fatal(err)
	}
	want, err := st.CumulativeSize(root, nil)
	if err != nil || want != size {
		t.Fatalf("C11 >4GiB: builder returned size %d, true cumulative size %d (%v)", size, want, err)
	}
	if _, err := verifySizes(st, root, nil); err != nil {
		t.Fatalf("C11 >4GiB: %v", err)
	}
}

// C11: files whose length the filesystem does not report (procfs: stat says 0 bytes, reading yields content): the size
// returned for the import is the size of the DAG that was stored, whatever stat said.
func TestC11_R_PseudoFiles(t *testing.T) {
	found := 0
	for _, p := range []string{"/proc/version", "/proc/cpuinfo", "/proc/meminfo", "/proc/self/status", "/sys/kernel/mm/transparent_hugepage/enabled", "/proc/filesystems"} {
		fi, err := os.Lstat(p)
		if err != nil || !fi.Mode().IsRegular() {
			continue
		}
		st := NewStore()
		l, size, err := builder.BuildUnixFSRecursive(p, st.LinkSystem())
		if err != nil {
			continue // unreadable here: nothing to compare
		}
		found++
		want, err := st.CumulativeSize(cidOf(l), nil)
		if err != nil || want != size {
			t.Fatalf("C11: import of %s (stat size %d) returned size %d, the stored DAG's cumulative size is %d (%v)", p, fi.Size(), size, want, err)
		}
		if _, err := verifySizes(st, cidOf(l), nil); err != nil {
			t.Fatalf("C11: import of %s: %v", p, err)
		}
	}
	t.Logf("%d pseudo-files imported", found)
}

// C01: a very deep, narrow file: width 2 and one-byte chunks give one dag-pb level per bit of the chunk count; 2^16+1
// and 100000 chunks need 17 levels.
func TestC01_R_DeepNarrowFile(t *testing.T) {
	for _, n := range []int{65536, 65537, 100000} {
		data := lcgBytes(n, 3, 0)
		st := NewStore()
		root, _, err := buildFile(st, data, "size-1", 2)
		if err != nil {
			t.Fatalf("C01 deep: build %d: %v", n, err)
		}
		for _, how := range []string{"Reify", "unixfs-preload"} {
			rn, err := c01Open(st, root, how)
			if err != nil {
				t.Fatalf("C01 deep (%d chunks at width 2) via %s: %v", n, how, err)
			}
			b, err := rn.AsBytes()
			if err != nil || !bytes.Equal(b, data) {
				t.Fatalf("C01 deep (%d one-byte chunks at width 2) via %s: read %d bytes, err %v", n, how, len(b), err)
			}
		}
	}
}

// Independent calls running in parallel goroutines (each with its own inputs, link system and store) must not influence
// one another: builders and readers are functions of their arguments. (C17 is about sharing ONE node; this is about
// sharing nothing but the package.)
// aFailedBuild runs one small file build and one small directory build into stores that refuse a write (at open, while
// writing, at commit, in turn): the concurrent-build checks interleave such failures with their builds, because what a
// failed build leaves behind (a pooled object returned twice, a cache entry) only shows when other builds overlap later.
func aFailedBuild(r int) {
	st := NewStore()
	switch r % 3 {
	case 0:
		st.FailOpenAt = 1 + r%2
	case 1:
		st.FailWriteAt = 1 + r%2
	default:
		st.FailCommitAt = 1 + r%2
	}
	// (at whatever link width the test set: DefaultLinksPerBlock is a package variable and must not be written here)
	_, _, _ = builder.BuildUnixFSFile(bytes.NewReader(lcgBytes(400, byte(r), 0)), "size-1", st.LinkSystem())
	st2 := NewStore()
	st2.FailCommitAt = 1
	_, _, _ = buildSharded(st2, []entrySpec{entryFor("a", r), entryFor("b", r), entryFor("c", r)}, 8)
}

// yieldingStore is a fresh store that gives up the processor at every storage call on odd rounds (see Store.Yield).
func yieldingStore(r int) *Store {
	st := NewStore()
	st.Yield = r%2 == 1
	return st
}

func TestC02_R_ConcurrentIndependentBuilds(t *testing.T) {
	const G, rounds = 8, 120
	type job struct {
		es     []entrySpec
		fanout int
		want   cid.Cid
	}
	jobs := make([]job, G)
	for g := range jobs {
		var es []entrySpec
		for i := 0; i < 200+g*13; i++ {
			es = append(es, entryFor(fmt.Sprintf("g%d-entry-%d", g, i), g))
		}
		f := []int{8, 16, 256, 1024}[g%4]
		c, _, err := buildSharded(NewStore(), es, f)
		if err != nil {
			t.Fatal(err)
		}
		jobs[g] = job{es, f, c}
	}
	errs := make(chan string, G)
	var wg sync.WaitGroup
	for g := 0; g < G; g++ {
		wg.Add(1)
		go func(g int) {
			defer wg.Done()
			defer func() {
				if p := recover(); p != nil {
					errs <- fmt.Sprintf("goroutine %d: panic %v", g, p)
				}
			}()
			for r := 0; r < rounds; r++ {
				if r%5 == 2 {
					aFailedBuild(r + g)
				}
				st := yieldingStore(r)
				c, _, err := buildSharded(st, jobs[g].es, jobs[g].fanout)
				if err != nil || c != jobs[g].want {
					errs <- fmt.Sprintf("goroutine %d round %d: sharded build (fanout %d, %d entries) returned %s (err %v), alone it returns %s", g, r, jobs[g].fanout, len(jobs[g].es), c, err, jobs[g].want)
					return
				}
				dir, err := loadReified(st.LinkSystem(), c, "unixfs")
				if err != nil {
					errs <- err.Error()
					return
				}
				for i := 0; i < len(jobs[g].es); i += 7 {
					v, err := dir.LookupByString(jobs[g].es[i].Name)
					if err != nil {
						errs <- fmt.Sprintf("goroutine %d: member %q not found: %v", g, jobs[g].es[i].Name, err)
						return
					}
					if c, _ := linkOf(v); c != jobs[g].es[i].Cid {
						errs <- fmt.Sprintf("goroutine %d: member %q -> %s", g, jobs[g].es[i].Name, c)
						return
					}
				}
			}
		}(g)
	}
	wg.Wait()
	close(errs)
	for e := range errs {
		t.Fatalf("C02: %d goroutines building their own directories at the same time: %s", G, e)
	}
}

func TestC07_R_ConcurrentIndependentBuilds(t *testing.T) {
	const G, rounds = 8, 200
	type job struct {
		data []byte
		want cid.Cid
	}
	jobs := make([]job, G)
	for g := range jobs {
		data := lcgBytes(262144*(1+g%3)+1000+g*37, byte(g+1), 0)
		c, _, err := buildFile(NewStore(), data, "", 174)
		if err != nil {
			t.Fatal(err)
		}
		jobs[g] = job{data, c}
	}
	errs := make(chan string, G)
	var wg sync.WaitGroup
	for g := 0; g < G; g++ {
		wg.Add(1)
		go func(g int) {
			defer wg.Done()
			for r := 0; r < rounds; r++ {
				if r%5 == 2 {
					aFailedBuild(r + g)
				}
				ck := []string{"", "default", "size-262144"}[r%3]
				c, _, err := buildFile(yieldingStore(r/3), jobs[g].data, ck, 174)
				if err != nil || c != jobs[g].want {
					errs <- fmt.Sprintf("goroutine %d round %d: file of %d bytes (chunker %q) built as %s (err %v), alone as %s", g, r, len(jobs[g].data), ck, c, err, jobs[g].want)
					return
				}
			}
		}(g)
	}
	wg.Wait()
	close(errs)
	for e := range errs {
		t.Fatalf("C07: %d goroutines importing their own files at the same time: %s", G, e)
	}
}

func TestC03_R_ConcurrentIndependentTraversals(t *testing.T) {
	const G, rounds = 8, 8000
	type job struct {
		st    *Store
		root  cid.Cid
		names []string
	}
	jobs := make([]job, G)
	for g := range jobs {
		st := NewStore()
		var es []entrySpec
		var names []string
		for i := 0; i < 120; i++ {
			name := fmt.Sprintf("file-%d-%d", g, i)
			c := sumRaw([]byte(name))
			st.Put(c, []byte(name))
			es = append(es, entrySpec{Name: name, Cid: c, Tsize: uint64(len(name))})
			names = append(names, name)
		}
		sub, _, err := buildSharded(st, es, []int{16, 256, 1024, 8}[g%4]) // name prefixes of 1, 2, 3 and 1 characters
		if err != nil {
			t.Fatal(err)
		}
		root, _, err := buildDir(st, []entrySpec{{Name: "d", Cid: sub, Tsize: 1}})
		if err != nil {
			t.Fatal(err)
		}
		st.Yield = g%2 == 1
		jobs[g] = job{st, root, names}
	}
	errs := make(chan string, G)
	var wg sync.WaitGroup
	for g := 0; g < G; g++ {
		wg.Add(1)
		go func(g int) {
			defer wg.Done()
			j := jobs[g]
			for r := 0; r < rounds; r++ {
				name := j.names[(r*31+g)%len(j.names)]
				ms, _, err := c03Walk(j.st, j.root, "d/"+name, "match", false)
				if err != nil || len(ms) != 1 {
					errs <- fmt.Sprintf("goroutine %d, traversal %d: path d/%s matched %d nodes (err %v)", g, r, name, len(ms), err)
					return
				}
				if b, err := ms[0].Node.AsBytes(); err != nil || string(b) != name {
					errs <- fmt.Sprintf("goroutine %d: path d/%s matched %q (err %v)", g, name, b, err)
					return
				}
			}
		}(g)
	}
	wg.Wait()
	close(errs)
	for e := range errs {
		t.Fatalf("C03: %d goroutines resolving paths in their own trees (directories of different fanouts) at the same time: %s", G, e)
	}
}

// C07: a subtree holding 4 GiB: root link and size still equal the reference importer's.
func TestC07_R_Over4GiB(t *testing.T) {
	n := int64(4)<<30 + 1<<20 + 5
	got, gsz, err := buildFileR(NewStore().LinkSystem(), &zeroReader{n: n}, "size-1048576", 2)
	if err != nil {
		t.Fatal(err)
	}
	spl, err := chunk.FromString(&zeroReader{n: n}, "size-1048576")
	if err != nil {
		t.Fatal(err)
	}
	db, err := (&helpers.DagBuilderParams{Maxlinks: 2, RawLeaves: true, Dagserv: storeDAG{NewStore()}, CidBuilder: v1Prefix()}).New(spl)
	if err != nil {
		t.Fatal(err)
	}
	nd, err := balanced.Layout(db)
	if err != nil {
		t.Fatal(err)
	}
	wsz, _ := nd.Size()
	if got != nd.Cid() || gsz != wsz {
		t.Fatalf("C07 >4GiB (4 GiB + 1 MiB + 5 bytes of zeros, 1 MiB chunks, width 2): builder %s / %d, reference %s / %d", got, gsz, nd.Cid(), wsz)
	}
}

// C04: reads with buffers of 64 KiB and more that cross chunk boundaries: the position the reader reports keeps pace.
func TestC04_R_BulkReads(t *testing.T) {
	for _, c := range []struct {
		n       int
		chunker string
		w       int
	}{{700000, "size-65536", 174}, {900000, "", 174}, {300000, "size-4096", 3}, {2<<20 + 17, "", 2}} {
		fc := bigFile(t, c.n, c.chunker, c.w)
		for _, bufSize := range []int{65536, 65537, 1 << 17, 1 << 20} {
			rn, err := loadReified(fc.St.LinkSystem(), fc.Root, "unixfs")
			if err != nil {
				t.Fatal(err)
			}
			rs, _ := rn.(datamodel.LargeBytesNode).AsLargeBytes()
			pos := int64(0)
			buf := make([]byte, bufSize)
			for step := 0; ; step++ {
				k, rerr := rs.Read(buf)
				if !bytes.Equal(buf[:k], fc.Data[pos:pos+int64(k)]) {
					t.Fatalf("C04 bulk [%s] buffer %d: Read at %d returned wrong bytes", fc.Desc, bufSize, pos)
				}
				pos += int64(k)
				if step%2 == 0 {
					if p, err := rs.Seek(0, io.SeekCurrent); err != nil || p != pos {
						t.Fatalf("C04 bulk [%s] buffer %d: after reads delivering %d bytes in total the reader reports position (%d, %v)", fc.Desc, bufSize, pos, p, err)
					}
				} else if pos+10 < int64(len(fc.Data)) {
					if p, err := rs.Seek(10, io.SeekCurrent); err != nil || p != pos+10 {
						t.Fatalf("C04 bulk [%s] buffer %d: Seek(10, Current) at %d = (%d, %v)", fc.Desc, bufSize, pos, p, err)
					}
					pos += 10
				}
				if rerr == io.EOF {
					break
				}
				if rerr != nil {
					t.Fatalf("C04 bulk [%s]: %v", fc.Desc, rerr)
				}
				if step > 1000 {
					t.Fatalf("C04 bulk [%s]: no progress", fc.Desc)
				}
			}
			if pos != int64(len(fc.Data)) {
				t.Fatalf("C04 bulk [%s] buffer %d: EOF at %d of %d", fc.Desc, bufSize, pos, len(fc.Data))
			}
		}
	}
}

// C08: directories of more than 2^16 entries equal the reference HAMT's root and size.
func TestC08_R_LargeDirectories(t *testing.T) {
	for _, c := range []struct{ n, fanout, nameLen int }{{65536, 256, 0}, {65537, 256, 0}, {70001, 256, 0}, {66000, 1024, 0},
		// beyond 2^17 entries, counts that are no multiple of anything convenient
		{131077, 256, 0}, {140003, 64, 0}, {262149, 256, 0},
		// long names in a wide shard: single shard blocks of well over 1 MiB (the reference writes them as they come)
		{600, 1024, 3500}, {1500, 1024, 4000}, {300, 512, 9000}} {
		es := make([]entrySpec, c.n)
		for i := range es {
			name := fmt.Sprintf("file-%06d.dat", i)
			if c.nameLen > 0 {
				name += strings.Repeat("n", c.nameLen-len(name))
			}
			es[i] = entryForKind(name, 0, 0)
		}
		got, gsz, err := buildSharded(NewStore(), es, c.fanout)
		if err != nil {
			t.Fatalf("C08 large: %d entries at fanout %d: builder: %v", c.n, c.fanout, err)
		}
		want, wsz, err := refBuildShard(NewStore(), es, c.fanout)
		if err != nil {
			t.Fatalf("reference: %v", err)
		}
		if got != want || gsz != wsz {
			t.Fatalf("C08: %d entries at fanout %d: builder %s / %d, reference %s / %d", c.n, c.fanout, got, gsz, want, wsz)
		}
	}
}

// C03 / C15: a plain directory block with more than 2^16 links (hand-assembled; the builders shard long before):
// entries at positions at and beyond 65536 resolve to their own links.
func TestC03_R_HugePlainDirectory(t *testing.T) {
	const n = 70000
	st := NewStore()
	sub, names, want := wideDir(st, n, nil)
	rn, err := loadReified(st.LinkSystem(), sub, "unixfs")
	if err != nil {
		t.Fatal(err)
	}
	if l := rn.Length(); l != n {
		t.Fatalf("C15: Length() = %d of a plain directory with %d links", l, n)
	}
	for _, i := range []int{0, 1, 255, 256, 4463, 65534, 65535, 65536, 65537, 66000, n - 2, n - 1} {
		name := names[i]
		ms, _, err := c03Walk(st, sub, name, "match", false)
		if err != nil || len(ms) != 1 {
			t.Fatalf("C03: path %q (entry #%d of a plain directory with %d links) matched %d nodes (err %v)", name, i+1, n, len(ms), err)
		}
		if b, err := ms[0].Node.AsBytes(); err != nil || string(b) != name {
			t.Fatalf("C03: path %q (entry #%d of %d) matched the block %q (err %v): another entry's", name, i+1, n, b, err)
		}
		v, err := rn.LookupByString(name)
		if c, e := linkOf(v); err != nil || e != nil || c != want[name] {
			t.Fatalf("C15: LookupByString(%q) (entry #%d of %d) = %v, %v; want %s", name, i+1, n, v, err, want[name])
		}
		if l := rn.(nativeDir).Lookup(pbString(name)); l == nil || cidOf(l.Link()) != want[name] {
			t.Fatalf("C15: native Lookup(%q) (entry #%d of %d) = %v; want %s", name, i+1, n, l, want[name])
		}
	}
}

// C10: builds running at the same time in different goroutines return what they return alone - also with name-hash
// functions other than the default, and also when the goroutines share ONE *LinkSystem (a link system is a bundle of
// functions; the store behind it is safe for concurrent use).
func TestC10_R_ConcurrentIndependentBuilds(t *testing.T) {
	const G, rounds = 8, 60
	hashers := []uint64{mh.SHA2_256, mh.SHA2_256, mh.SHA3_256, mh.BLAKE2B_MIN + 31}
	type job struct {
		es     []entrySpec
		hasher uint64
		want   cid.Cid
		wsz    uint64
	}
	jobs := make([]job, G)
	for g := range jobs {
		var es []entrySpec
		for i := 0; i < 150+g*11; i++ {
			es = append(es, entryFor(fmt.Sprintf("g%d-name-%d", g, i), g))
		}
		h := hashers[g%len(hashers)]
		c, sz, err := buildShardedHasher(NewStore(), es, 16, h)
		if err != nil {
			t.Fatal(err)
		}
		jobs[g] = job{es, h, c, sz}
	}
	errs := make(chan string, G)
	var wg sync.WaitGroup
	for g := 0; g < G; g++ {
		wg.Add(1)
		go func(g int) {
			defer wg.Done()
			defer func() {
				if p := recover(); p != nil {
					errs <- fmt.Sprintf("goroutine %d: panic %v", g, p)
				}
			}()
			for r := 0; r < rounds; r++ {
				if r%5 == 2 {
					aFailedBuild(r + g)
				}
				c, sz, err := buildShardedHasher(yieldingStore(r), jobs[g].es, 16, jobs[g].hasher)
				if err != nil || c != jobs[g].want || sz != jobs[g].wsz {
					errs <- fmt.Sprintf("goroutine %d round %d: sharded build with name hash 0x%x returned %s/%d (err %v), alone %s/%d", g, r, jobs[g].hasher, c, sz, err, jobs[g].want, jobs[g].wsz)
					return
				}
			}
		}(g)
	}
	wg.Wait()
	close(errs)
	for e := range errs {
		t.Fatalf("C10: %d goroutines building their own sharded directories (non-default name hashes) at the same time: %s", G, e)
	}
}

func TestC11_R_ConcurrentBuildsThroughOneLinkSystem(t *testing.T) {
	const G, rounds = 8, 800
	st := NewStore()
	st.Yield = true
	ls := st.LinkSystem() // shared by all goroutines
	type job struct {
		data []byte
		want cid.Cid
		wsz  uint64
	}
	jobs := make([]job, G)
	for g := range jobs {
		data := lcgBytes(10+g*137, byte(g+1), 0)
		c, sz, err := buildFile(NewStore(), data, "size-64", 3)
		if err != nil {
			t.Fatal(err)
		}
		jobs[g] = job{data, c, sz}
	}
	old := builder.DefaultLinksPerBlock
	builder.DefaultLinksPerBlock = 3 // (a package variable: set once before the goroutines start)
	defer func() { builder.DefaultLinksPerBlock = old }()
	errs := make(chan string, G)
	var wg sync.WaitGroup
	for g := 0; g < G; g++ {
		wg.Add(1)
		go func(g int) {
			defer wg.Done()
			for r := 0; r < rounds; r++ {
				if r%9 == 4 {
					aFailedBuild(r + g)
				}
				var l datamodel.Link
				var sz uint64
				var err error
				l, sz, err = builder.BuildUnixFSFile(bytes.NewReader(jobs[g].data), "size-64", ls)
				if err != nil || cidOf(l) != jobs[g].want || sz != jobs[g].wsz {
					errs <- fmt.Sprintf("goroutine %d round %d: file of %d bytes built as %v / size %d (err %v), alone %s / %d", g, r, len(jobs[g].data), l, sz, err, jobs[g].want, jobs[g].wsz)
					return
				}
			}
		}(g)
	}
	wg.Wait()
	close(errs)
	for e := range errs {
		t.Fatalf("C11: %d goroutines building through one shared *LinkSystem: %s", G, e)
	}
	for g := range jobs {
		if _, err := verifySizes(st, jobs[g].want, nil); err != nil {
			t.Fatalf("C11: sizes written by concurrent builds through one shared link system: %v", err)
		}
	}
}

// oldStyleTree hand-assembles a balanced file of dag-pb nodes without BlockSizes, FileSize or Tsize hints above the leaves
// (what early writers stored): `depth` levels of interior nodes with `width` links each over leaves of leafLen bytes.
func oldStyleTree(width, depth, leafLen int, seed *int) (*mnode, []byte) {
	if depth == 0 {
		*seed++
		c := lcgBytes(leafLen, byte(*seed), 0)
		return &mnode{HasData: true, UFS: &ufsFields{Type: 2, HasData: true, Data: c, FileSize: u64p(uint64(len(c)))}}, c
	}
	m := &mnode{HasData: true, UFS: &ufsFields{Type: 2}}
	var data []byte
	for i := 0; i < width; i++ {
		k, d := oldStyleTree(width, depth-1, leafLen, seed)
		m.Links = append(m.Links, mlink{Child: k})
		data = append(data, d...)
	}
	return m, data
}

// Thousands of operations on ONE node object: 2 readers of one file node doing Seek+Read (every 97th an end-relative seek)
// for 8000 / 400 steps - a counter, cache or depth that creeps up with every use of the shared node only shows after
// thousands of uses. Old-style files (children have to be opened to be measured, at width 3 over three levels and at
// width 174), a builder-written file, and a file opened through a reifying link system.
func TestC04_R_LongHistories(t *testing.T) {
	type cfg struct {
		desc  string
		st    *Store
		root  cid.Cid
		data  []byte
		how   string
		steps int
	}
	var cfgs []cfg
	seed := 0
	for _, c := range []struct{ w, d, leaf, steps int }{{3, 3, 5, 8000}, {174, 1, 3, 400}} {
		var m *mnode
		var data []byte
		if c.w == 174 {
			// the root's 174 children are link nodes over two leaves each
			m = &mnode{HasData: true, UFS: &ufsFields{Type: 2}}
			for i := 0; i < 174; i++ {
				k, d := oldStyleTree(2, 1, c.leaf, &seed)
				m.Links = append(m.Links, mlink{Child: k})
				data = append(data, d...)
			}
		} else {
			m, data = oldStyleTree(c.w, c.d, c.leaf, &seed)
		}
		st := NewStore()
		root, err := m.store(st, st.LinkSystem())
		if err != nil {
			t.Fatal(err)
		}
		cfgs = append(cfgs, cfg{fmt.Sprintf("old-style file, width %d, %d bytes", c.w, len(data)), st, root, data, "Reify", c.steps})
	}
	{
		data := lcgBytes(700, 77, 0)
		st := NewStore()
		root, _, err := buildFile(st, data, "size-7", 3)
		if err != nil {
			t.Fatal(err)
		}
		cfgs = append(cfgs, cfg{"builder-written file, width 3, 700 bytes", st, root, data, "Reify", 8000})
		cfgs = append(cfgs, cfg{"builder-written file, width 3, 700 bytes", st, root, data, "Load+NodeReifier", 300})
	}
	for _, c := range cfgs {
		node, err := c01Open(c.st, c.root, c.how)
		if err != nil {
			t.Fatalf("C04 long history [%s]: open: %v", c.desc, err)
		}
		lb := node.(datamodel.LargeBytesNode)
		var rs [2]io.ReadSeeker
		for i := range rs {
			if rs[i], err = lb.AsLargeBytes(); err != nil {
				t.Fatal(err)
			}
		}
		n := int64(len(c.data))
		x := uint32(12345)
		buf := make([]byte, 16)
		for step := 0; step < c.steps; step++ {
			x = x*1664525 + 1013904223
			r := rs[(x>>8)&1]
			off := int64(x>>10) % (n + 1)
			var pos int64
			if step%97 == 96 {
				pos, err = r.Seek(off-n, io.SeekEnd)
			} else {
				pos, err = r.Seek(off, io.SeekStart)
			}
			if err != nil || pos != off {
				t.Fatalf("C04 long history [%s via %s]: step %d: seek to %d = (%d, %v)", c.desc, c.how, step, off, pos, err)
			}
			k := int(x>>4)%len(buf) + 1
			got, err := io.ReadFull(r, buf[:k])
			want := c.data[off:min(n, off+int64(k))]
			if !bytes.Equal(buf[:got], want) || (err != nil && err != io.EOF && err != io.ErrUnexpectedEOF) {
				t.Fatalf("C04 long history [%s via %s]: step %d: %d bytes at %d read as %x (err %v), want %x", c.desc, c.how, step, k, off, buf[:got], err, want)
			}
		}
	}
}

// Tens of thousands of lookups (through all entry points), lengths and iterations on ONE sharded-directory node.
func TestC02_R_LongLookupHistory(t *testing.T) {
	var es []entrySpec
	want := map[string]cid.Cid{}
	for i := 0; i < 700; i++ {
		e := entryFor(fmt.Sprintf("entry-%04d", i), 3)
		es = append(es, e)
		want[e.Name] = e.Cid
	}
	st := NewStore()
	root, _, err := buildSharded(st, es, 8)
	if err != nil {
		t.Fatal(err)
	}
	dir, err := loadReified(st.LinkSystem(), root, "unixfs")
	if err != nil {
		t.Fatal(err)
	}
	x := uint32(99)
	for step := 0; step < 40000; step++ {
		x = x*1664525 + 1013904223
		name := es[int(x>>9)%len(es)].Name
		if step%11 == 3 {
			name += "-absent"
		}
		var v datamodel.Node
		var err error
		switch (x >> 5) % 3 {
		case 0:
			v, err = dir.LookupByString(name)
		case 1:
			v, err = dir.LookupBySegment(datamodel.PathSegmentOfString(name))
		default:
			v, err = dir.LookupByNode(basicnode.NewString(name))
		}
		if c, ok := want[name]; ok {
			if err != nil {
				t.Fatalf("C02 long history: lookup #%d of member %q: %v", step, name, err)
			}
			if l, lerr := v.AsLink(); lerr != nil || cidOf(l) != c {
				t.Fatalf("C02 long history: lookup #%d of member %q returned %v (%v), want %s", step, name, l, lerr, c)
			}
		} else if err == nil {
			t.Fatalf("C02 long history: lookup #%d of non-member %q succeeded", step, name)
		}
		if step%4000 == 1999 {
			if dir.Length() != int64(len(es)) {
				t.Fatalf("C02 long history: Length() = %d after %d lookups, want %d", dir.Length(), step, len(es))
			}
			if err := checkDirIsMapOpt(dir, want, []string{"nope"}, true); err != nil {
				t.Fatalf("C02 long history: after %d lookups: %v", step, err)
			}
		}
	}
}

// C03: many different paths are resolved in one process. Whatever the library remembers about paths it has seen (compiled
// selectors, parsed segments) may not be keyed by less than the path: pairs of paths that agree under the usual 32-bit
// digests (murmur3, FNV-1a, CRC-32, Adler-32) are resolved one right after the other, in both orders, and each has to
// match its own file.
func TestC03_R_PathsCollidingUnder32BitDigests(t *testing.T) {
	digests := map[string]func([]byte) uint32{
		"murmur3-32": func(b []byte) uint32 { return murmur3.Sum32(b) },
		"fnv-1a-32":  func(b []byte) uint32 { h := fnv.New32a(); h.Write(b); return h.Sum32() },
		"crc32-ieee": crc32.ChecksumIEEE,
		"adler32":    adler32.Checksum,
	}
	var pairs [][2]string
	for _, name := range []string{"adler32", "crc32-ieee", "fnv-1a-32", "murmur3-32"} {
		seen := map[uint32]string{}
		found := 0
		for i := 0; i < 600000 && found < 2; i++ {
			p := fmt.Sprintf("img/%d.png", i)
			if i%3 == 1 {
				p = fmt.Sprintf("img/scan-%x.jpeg", i*2654435761)
			} else if i%3 == 2 {
				p = fmt.Sprintf("img/%d/%d.gif", i%97, i)
			}
			d := digests[name]([]byte(p))
			if q, ok := seen[d]; ok {
				pairs = append(pairs, [2]string{q, p})
				found++
				continue
			}
			seen[d] = p
		}
	}
	if len(pairs) < 4 {
		t.Fatalf("harness: only %d colliding pairs found", len(pairs))
	}
	st := NewStore()
	var es []entrySpec
	sub := map[string][]entrySpec{}
	seenPath := map[string]bool{}
	for _, pr := range pairs {
		for _, p := range pr {
			if seenPath[p] {
				continue
			}
			seenPath[p] = true
			base := p[len("img/"):]
			c := sumRaw([]byte(p))
			st.Put(c, []byte(p))
			if i := strings.IndexByte(base, '/'); i >= 0 {
				sub[base[:i]] = append(sub[base[:i]], entrySpec{Name: base[i+1:], Cid: c, Tsize: uint64(len(p))})
			} else {
				es = append(es, entrySpec{Name: base, Cid: c, Tsize: uint64(len(p))})
			}
		}
	}
	for d, ses := range sub {
		dc, dsz, err := buildDir(st, ses)
		if err != nil {
			t.Fatal(err)
		}
		es = append(es, entrySpec{Name: d, Cid: dc, Tsize: dsz})
	}
	img, isz, err := buildDir(st, es)
	if err != nil {
		t.Fatal(err)
	}
	root, _, err := buildDir(st, []entrySpec{{Name: "img", Cid: img, Tsize: isz}})
	if err != nil {
		t.Fatal(err)
	}
	resolve := func(p string) {
		for _, which := range []string{"match", "entity", "preload"} {
			ms, _, err := c03Walk(st, root, p, which, false)
			if err != nil || len(ms) != 1 {
				t.Fatalf("C03: path %q (%s) matched %d nodes (err %v)", p, which, len(ms), err)
			}
			if b, err := ms[0].Node.AsBytes(); err != nil || string(b) != p {
				t.Fatalf("C03: path %q (%s), resolved right after a path with the same 32-bit digest, matched the file %q (err %v)", p, which, b, err)
			}
		}
	}
	for _, pr := range pairs {
		resolve(pr[0])
		resolve(pr[1])
		resolve(pr[0])
	}
	for i := len(pairs) - 1; i >= 0; i-- {
		resolve(pairs[i][1])
		resolve(pairs[i][0])
	}
}

// C01 / C07: link widths in the thousands and tens of thousands (builder.DefaultLinksPerBlock is the caller's to set): one
// node with 4097 .. 70000 links, chunk counts on both sides of the width. The builder's file must equal the reference's
// (same width, raw leaves, CIDv1) and read back to its content, whole and streamed, also from positions behind thousands
// of links.
func TestC07_R_VeryLargeLinkWidths(t *testing.T) { veryLargeLinkWidths(t) }
func TestC01_R_VeryLargeLinkWidths(t *testing.T) { veryLargeLinkWidths(t) }
func TestC04_R_VeryLargeLinkWidths(t *testing.T) { veryLargeLinkWidths(t) }

func veryLargeLinkWidths(t *testing.T) {
	for _, c := range []struct{ w, chunks int }{{4097, 4097}, {4097, 4098}, {5000, 4098}, {5000, 9000}, {22311, 22311}, {30000, 30001}, {70000, 65537},
		// "no limit": the setting is an int, and a flat file is asked for by making it as large as an int gets
		{math.MaxInt, 300}, {math.MaxInt, 2}} {
		data := lcgBytes(c.chunks*2-1, byte(c.w), 0) // chunks of 2 bytes, the last one of 1
		st := NewStore()
		var got cid.Cid
		var gsz uint64
		var err error
		func() {
			defer func() {
				if r := recover(); r != nil {
					err = fmt.Errorf("panic: %v", r)
				}
			}()
			got, gsz, err = buildFile(st, data, "size-2", c.w)
		}()
		if err != nil {
			t.Fatalf("C07 width %d, %d chunks: %v", c.w, c.chunks, err)
		}
		want, wsz, err := refImportFile(NewStore(), data, refFileOpts{Chunker: "size-2", Width: c.w, RawLeaves: true, CidV1: true})
		if err != nil {
			t.Fatalf("reference: %v", err)
		}
		if got != want || gsz != wsz {
			t.Fatalf("C07: link width %d, %d chunks: builder %s / %d, reference %s / %d", c.w, c.chunks, got, gsz, want, wsz)
		}
		rn, err := c01Open(st, got, "Reify")
		if err != nil {
			t.Fatal(err)
		}
		b, err := rn.AsBytes()
		if err != nil || !bytes.Equal(b, data) {
			t.Fatalf("C01: link width %d, %d chunks: AsBytes returned %d bytes (err %v), want %d; first difference at %d", c.w, c.chunks, len(b), err, len(data), firstDiff(b, data))
		}
		rs, _ := rn.(datamodel.LargeBytesNode).AsLargeBytes()
		// a reader that has delivered some bytes and is then moved relative to the end
		if len(data) > 20 {
			head := make([]byte, 5)
			if _, err := io.ReadFull(rs, head); err != nil || !bytes.Equal(head, data[:5]) {
				t.Fatalf("C04: link width %d, %d chunks: first bytes %x, %v", c.w, c.chunks, head, err)
			}
			if end, err := rs.Seek(0, io.SeekEnd); err != nil || end != int64(len(data)) {
				t.Fatalf("C04: link width %d, %d chunks: after reading 5 bytes, Seek(0, End) = %d, %v; the file has %d bytes", c.w, c.chunks, end, err, len(data))
			}
			if pos, err := rs.Seek(-7, io.SeekEnd); err != nil || pos != int64(len(data))-7 {
				t.Fatalf("C04: link width %d, %d chunks: Seek(-7, End) = %d, %v", c.w, c.chunks, pos, err)
			}
			if tail, err := io.ReadAll(rs); err != nil || !bytes.Equal(tail, data[len(data)-7:]) {
				t.Fatalf("C04: link width %d, %d chunks: the last 7 bytes read after Seek(-7, End): %x, %v", c.w, c.chunks, tail, err)
			}
		}
		for _, off := range []int64{1, 3, 2*1023 + 1, 2*1024 + 1, 2*4095 + 1, 2 * 4096, 2*4097 + 1, int64(len(data)) - 3} {
			if off < 0 || off >= int64(len(data)) {
				continue
			}
			if _, err := rs.Seek(off, io.SeekStart); err != nil {
				t.Fatal(err)
			}
			rest, err := io.ReadAll(rs)
			if err != nil || !bytes.Equal(rest, data[off:]) {
				t.Fatalf("C01: link width %d, %d chunks: read from %d returned %d bytes (err %v), want %d", c.w, c.chunks, off, len(rest), err, int64(len(data))-off)
			}
		}
	}
}

// C01: a file that contains, as one of its own chunks, the exact bytes of a block the builder wrote earlier in the same
// build (an archive of the file's own blocks, a CAR inside the data it describes): the raw leaf and the dag-pb node have
// the same digest but are different blocks (different codecs, different links). Both must be stored and read back.
func TestC01_R_FileEmbeddingItsOwnBlocks(t *testing.T) {
	for _, c := range []struct{ w, cs int }{{2, 256}, {3, 512}, {174, 16384}} {
		prefix := lcgBytes(c.w*c.cs, byte(c.w), 0)
		pst := NewStore()
		proot, _, err := buildFile(pst, prefix, fmt.Sprintf("size-%d", c.cs), c.w)
		if err != nil {
			t.Fatal(err)
		}
		block, ok := pst.Get(proot)
		if !ok || len(block) > c.cs {
			t.Fatalf("harness: interior block of %d bytes for chunk size %d", len(block), c.cs)
		}
		// the first w chunks are grouped under a node with exactly these bytes; the next chunk IS these bytes
		// (as the last, shorter chunk: the size chunker would otherwise fill it up with what follows)
		data := append(append([]byte{}, prefix...), block...)
		st := NewStore()
		root, _, err := buildFile(st, data, fmt.Sprintf("size-%d", c.cs), c.w)
		if err != nil {
			t.Fatalf("C01 self-embedding (w=%d): build: %v", c.w, err)
		}
		if _, ok := st.Get(proot); !ok {
			t.Fatalf("harness: the embedded node %s is not part of the larger file", proot)
		}
		for _, how := range []string{"Reify", "NewUnixFSFile", "unixfs-preload"} {
			if err := c01CheckRead(st, root, data, how, 4096); err != nil {
				t.Fatalf("C01: file of %d bytes (width %d, chunks of %d) whose chunk #%d is the dag-pb block over its first %d chunks: %v", len(data), c.w, c.cs, c.w+1, c.w, err)
			}
		}
	}
}

// C08: several goroutines read reference-written HAMTs of different fanouts at the same time, each its own directory
// through its own store and link system (what a gateway does all day): each reads exactly its reference's entry set,
// whatever the others are reading. (Fanouts 8/16, 256 and 1024 have link-name prefixes of 1, 2 and 3 characters.)
func TestC08_R_ConcurrentIndependentReaders(t *testing.T) {
	const G, rounds = 8, 150
	type job struct {
		st     *Store
		root   cid.Cid
		want   map[string]cid.Cid
		fanout int
	}
	jobs := make([]job, G)
	for g := range jobs {
		st := NewStore()
		var es []entrySpec
		want := map[string]cid.Cid{}
		for i := 0; i < 90; i++ {
			e := entryForKind(fmt.Sprintf("file-%d-%d", g, i), 1, 0)
			es = append(es, e)
			want[e.Name] = e.Cid
		}
		fanout := []int{16, 256, 1024, 8}[g%4]
		root, _, err := refBuildShard(st, es, fanout)
		if err != nil {
			t.Fatal(err)
		}
		st.Yield = g%2 == 1
		jobs[g] = job{st, root, want, fanout}
	}
	errs := make(chan string, G)
	var wg sync.WaitGroup
	for g := 0; g < G; g++ {
		wg.Add(1)
		go func(g int) {
			defer wg.Done()
			defer func() {
				if p := recover(); p != nil {
					errs <- fmt.Sprintf("goroutine %d: panic %v", g, p)
				}
			}()
			j := jobs[g]
			for r := 0; r < rounds; r++ {
				dir, err := loadReified(j.st.LinkSystem(), j.root, []string{"unixfs", "unixfs-preload"}[r%2])
				if err == nil {
					err = checkDirIsMapOpt(dir, j.want, []string{"nope", fmt.Sprintf("file-%d-0", (g+1)%G)}, r%2 == 0)
				}
				if err != nil {
					errs <- fmt.Sprintf("goroutine %d round %d: reference-written HAMT of fanout %d with %d entries: %v", g, r, j.fanout, len(j.want), err)
					return
				}
			}
		}(g)
	}
	wg.Wait()
	close(errs)
	for e := range errs {
		t.Fatalf("C08: %d goroutines each reading their own reference-written directory (different fanouts) at the same time: %s", G, e)
	}
}

// C01: neighbouring chunks of equal length that differ but agree under a common 32-bit checksum (CRC-32 IEEE and
// Castagnoli, Adler-32, FNV-1a, murmur3): whatever the builder or the reader remembers about a chunk it has just handled
// may not be keyed by such a checksum. Pairs are found by search over 400000 generated 16-byte chunks.
func TestC01_R_NeighbouringChunksCollidingUnderWeakChecksums(t *testing.T) {
	castagnoli := crc32.MakeTable(crc32.Castagnoli)
	sums := []struct {
		name string
		f    func([]byte) uint32
	}{
		{"crc32-ieee", crc32.ChecksumIEEE},
		{"crc32-castagnoli", func(b []byte) uint32 { return crc32.Checksum(b, castagnoli) }},
		{"adler32", adler32.Checksum},
		{"fnv-1a-32", func(b []byte) uint32 { h := fnv.New32a(); h.Write(b); return h.Sum32() }},
		{"murmur3-32", func(b []byte) uint32 { return murmur3.Sum32(b) }},
	}
	const cs = 16
	all := lcgBytes(400000*cs, 41, 0)
	npairs := 0
	for _, sum := range sums {
		seen := map[uint32]int{}
		found := 0
		for i := 0; i < 400000 && found < 2; i++ {
			a := all[i*cs : (i+1)*cs]
			d := sum.f(a)
			j, ok := seen[d]
			if !ok {
				seen[d] = i
				continue
			}
			b := all[j*cs : (j+1)*cs]
			if bytes.Equal(a, b) {
				continue
			}
			found++
			npairs++
			for vi, data := range [][]byte{
				append(append([]byte{}, a...), b...),
				append(append([]byte{}, b...), a...),
				append(append(append(append(append([]byte{}, a...), b...), a...), b...), []byte("tail")...),
			} {
				for _, w := range []int{2, 174} {
					st := NewStore()
					root, _, err := buildFile(st, data, fmt.Sprintf("size-%d", cs), w)
					if err != nil {
						t.Fatal(err)
					}
					if err := c01CheckRead(st, root, data, "Reify", 7); err != nil {
						t.Fatalf("C01: file variant %d (width %d) of two neighbouring %d-byte chunks %x and %x, which agree under %s: %v", vi, w, cs, a, b, sum.name, err)
					}
					want, _, err := refImportFile(NewStore(), data, refFileOpts{Chunker: fmt.Sprintf("size-%d", cs), Width: w, RawLeaves: true, CidV1: true})
					if err != nil || want != root {
						t.Fatalf("C07: the same file: builder %s, reference %s (err %v)", root, want, err)
					}
				}
			}
		}
	}
	if npairs < 6 {
		t.Fatalf("harness: only %d colliding chunk pairs found", npairs)
	}
}

// C12: whole-value reads (AsBytes) of files of 40 and 136 MiB with one block unavailable, the storage error being a bare
// io.EOF / io.ErrUnexpectedEOF (what a reader that pre-sizes its buffer for large files and fills it with io.ReadFull
// would take for "less content than recorded") or another value: an error, never the file's prefix as if it were all.
func TestC12_R_VeryLargeFileWholeValueFaults(t *testing.T) {
	// ... and files of tens to hundreds of KiB (recorded sizes of 64 KiB .. 1 MiB and around), in several layouts
	for i, c := range []struct {
		n       int
		chunker string
		w       int
	}{{40<<20 + 3, "", 174}, {136<<20 + 1, "", 174}, {70 << 10, "size-4096", 4}, {200<<10 + 7, "size-16384", 3}, {1 << 20, "size-65536", 174}, {65536, "size-1024", 174}, {3<<20 + 1, "", 174}, {300, "size-16", 3},
		// a quarter of a GiB and more (a recorded size no pre-sizing heuristic should trust blindly)
		{257<<20 + 11, "size-1048576", 174}} {
		n := c.n
		fc := bigFile(t, n, c.chunker, c.w)
		all := fc.Tree.All()
		var leaves []*FileNode
		for _, nd := range all[1:] {
			if len(nd.Kids) == 0 {
				leaves = append(leaves, nd)
			}
		}
		picks := []*FileNode{leaves[1], leaves[len(leaves)/2], leaves[len(leaves)-1]}
		for j, nd := range picks {
			for k, bare := range []error{io.EOF, io.ErrUnexpectedEOF, nil} {
				if i == 1 && (j+k)%2 == 1 {
					continue // (the larger file: half of the combinations)
				}
				if n > 200<<20 && (j != 2 || bare == nil) {
					continue // (the largest one: the last leaf, bare values only)
				}
				fc.St.Missing = map[cid.Cid]bool{nd.Cid: true}
				fc.St.MissingIO = true
				fc.St.MissingBare = bare
				rn, err := loadReified(fc.St.LinkSystem(), fc.Root, "unixfs")
				if err != nil {
					t.Fatal(err)
				}
				got, rerr := rn.AsBytes()
				fc.St.Missing, fc.St.MissingIO, fc.St.MissingBare = map[cid.Cid]bool{}, false, nil
				if rerr == nil || rerr == io.EOF {
					t.Fatalf("C12: AsBytes of a %d-byte file with the block at span %d.. unavailable (storage error: bare %v): err=%v and %d bytes returned", n, nd.Start, bare, rerr, len(got))
				}
			}
		}
	}
}

// C20 / C06: file nodes with 33 .. 200 links some of which are empty chunks (first, in the middle, last; distinct empty
// blocks: an empty raw block and empty dag-pb leaves with different Data), flat and under an intermediate level: a full
// read and a preload request every block, the empty ones included, in depth-first link order.
func wideNodesWithEmptyChunks(t *testing.T, prop string) {
	for _, width := range []int{33, 40, 174, 200} {
		for _, nested := range []bool{false, true} {
			var kids []*mnode
			var sizes []uint64
			var data []byte
			emptyKinds := 0
			for i := 0; i < width; i++ {
				if i == 0 || i == width/2 || i == width/2+1 || i == width-1 {
					// empty chunks, each a different block
					emptyKinds++
					var k *mnode
					switch emptyKinds {
					case 1:
						k = &mnode{IsRaw: true, Raw: nil}
					case 2:
						k = &mnode{HasData: true, UFS: &ufsFields{Type: 2, FileSize: u64p(0)}}
					case 3:
						k = &mnode{HasData: true, UFS: &ufsFields{Type: 2, HasData: true, Data: []byte{}, FileSize: u64p(0)}}
					default:
						k = &mnode{HasData: true, UFS: &ufsFields{Type: 0}}
					}
					kids, sizes = append(kids, k), append(sizes, 0)
					continue
				}
				c := lcgBytes(3, byte(i), 0)
				kids, sizes = append(kids, &mnode{IsRaw: true, Raw: c}), append(sizes, 3)
				data = append(data, c...)
			}
			interior := func(ks []*mnode, ss []uint64) (*mnode, uint64) {
				m := &mnode{HasData: true, UFS: &ufsFields{Type: 2}}
				tot := uint64(0)
				for i, k := range ks {
					m.Links = append(m.Links, mlink{Tsize: i64p(int64(ss[i])), Child: k})
					m.UFS.BlockSizes = append(m.UFS.BlockSizes, ss[i])
					tot += ss[i]
				}
				m.UFS.FileSize = u64p(tot)
				return m, tot
			}
			root, _ := interior(kids, sizes)
			if nested {
				tail := &mnode{IsRaw: true, Raw: []byte("tail")}
				inner, isz := interior(kids, sizes)
				root, _ = interior([]*mnode{inner, tail}, []uint64{isz, 4})
				data = append(data, "tail"...)
			}
			st := NewStore()
			rc, err := root.store(st, st.LinkSystem())
			if err != nil {
				t.Fatal(err)
			}
			tree, err := st.FileTree(rc, 0)
			if err != nil {
				t.Fatal(err)
			}
			want := firstOccurrences(tree.PreOrder()[1:])
			ls := st.LinkSystem()
			for _, opName := range []string{"AsBytes", "io.Copy", "unixfs-preload"} {
				got, err := c20Run(st, rc, func(pn datamodel.Node) error {
					if opName == "unixfs-preload" {
						_, err := ls.KnownReifiers["unixfs-preload"](lcS, pn, ls)
						return err
					}
					rn, err := ls.KnownReifiers["unixfs"](lcS, pn, ls)
					if err != nil {
						return err
					}
					var b []byte
					if opName == "AsBytes" {
						b, err = rn.AsBytes()
					} else {
						rs, _ := rn.(datamodel.LargeBytesNode).AsLargeBytes()
						var buf bytes.Buffer
						_, err = io.Copy(&buf, rs)
						b = buf.Bytes()
					}
					if err == nil && !bytes.Equal(b, data) {
						return fmt.Errorf("bytes differ")
					}
					return err
				})
				if err != nil {
					t.Fatalf("%s: file node with %d links (4 of them empty chunks, nested=%v) via %s: %v", prop, width, nested, opName, err)
				}
				if fmt.Sprint(got) != fmt.Sprint(want) {
					missing := ""
					gs := cidSet(got)
					for i, c := range want {
						if !gs[c] {
							missing = fmt.Sprintf("; block #%d of the walk (%s) was never requested", i+1, c)
							break
						}
					}
					t.Fatalf("%s: file node with %d links (empty chunks first, in the middle and last; nested=%v) via %s: %d distinct blocks requested in an order that is not the depth-first walk of its %d blocks%s", prop, width, nested, opName, len(got), len(want), missing)
				}
			}
		}
	}
}

func TestC20_R_WideNodesWithEmptyChunks(t *testing.T) {
	wideNodesWithEmptyChunks(t, "C20")
	wideNodeWithLongEmptyRun(t, "C20")
}
func TestC06_R_WideNodesWithEmptyChunks(t *testing.T) {
	wideNodesWithEmptyChunks(t, "C06")
	wideNodeWithLongEmptyRun(t, "C06")
}

// One node of 3000 links with a run of 2100 consecutive empty chunks in the middle (all the same empty raw block, as a
// de-duplicating writer stores them): thousands of children at one byte offset. A full read and a preload finish within a
// budget of block loads proportional to the links, request both distinct blocks around the run and deliver the content.
func wideNodeWithLongEmptyRun(t *testing.T, prop string) {
	m := &mnode{HasData: true, UFS: &ufsFields{Type: 2}}
	empty := &mnode{IsRaw: true, Raw: nil}
	var data []byte
	tot := uint64(0)
	for i := 0; i < 3000; i++ {
		k, sz := empty, uint64(0)
		if i < 450 || i >= 2550 {
			c := lcgBytes(2, byte(i), 0)
			k, sz = &mnode{IsRaw: true, Raw: c}, 2
			data = append(data, c...)
		}
		m.Links = append(m.Links, mlink{Tsize: i64p(int64(sz)), Child: k})
		m.UFS.BlockSizes = append(m.UFS.BlockSizes, sz)
		tot += sz
	}
	m.UFS.FileSize = u64p(tot)
	st := NewStore()
	rc, err := m.store(st, st.LinkSystem())
	if err != nil {
		t.Fatal(err)
	}
	tree, err := st.FileTree(rc, 0)
	if err != nil {
		t.Fatal(err)
	}
	want := firstOccurrences(tree.PreOrder()[1:])
	ls := st.LinkSystem()
	for _, opName := range []string{"AsBytes", "unixfs-preload"} {
		st.LoadBudget = 40000
		st.BudgetExceeded = false
		got, err := c20Run(st, rc, func(pn datamodel.Node) error {
			if opName == "unixfs-preload" {
				_, err := ls.KnownReifiers["unixfs-preload"](lcS, pn, ls)
				return err
			}
			rn, err := ls.KnownReifiers["unixfs"](lcS, pn, ls)
			if err != nil {
				return err
			}
			b, err := rn.AsBytes()
			if err == nil && !bytes.Equal(b, data) {
				return fmt.Errorf("bytes differ (%d, want %d)", len(b), len(data))
			}
			return err
		})
		exceeded := st.BudgetExceeded
		st.LoadBudget = 0
		if exceeded {
			t.Fatalf("%s: a file node of 3000 links with 2100 consecutive empty chunks via %s: more than 40000 block loads", prop, opName)
		}
		if err != nil {
			t.Fatalf("%s: a file node of 3000 links with 2100 consecutive empty chunks via %s: %v", prop, opName, err)
		}
		if fmt.Sprint(got) != fmt.Sprint(want) {
			t.Fatalf("%s: a file node of 3000 links with a long run of empty chunks via %s: %d distinct blocks requested, the depth-first walk has %d", prop, opName, len(got), len(want))
		}
	}
}

// C01 / C07: independent builds in parallel at a link width above the default (300: nodes of 202 .. 300 links), on stores
// that give up the processor at every storage call: each goroutine's file must get the link and size it gets alone, and
// read back with its own length and bytes.
func concurrentWideBuilds(t *testing.T, prop string) {
	concurrentWideBuildsAt(t, prop, 300, 16, 3300, 417, 60)
	// nodes whose UnixFS message alone is several KiB (a thousand block sizes of two bytes each), of different chunk sizes
	concurrentWideBuildsAt(t, prop, 1000, 130, 78000, 6500, 20)
}

func concurrentWideBuildsAt(t *testing.T, prop string, width, chunk, baseLen, stepLen, rounds int) {
	const G = 8
	old := builder.DefaultLinksPerBlock
	builder.DefaultLinksPerBlock = width // (a package variable: set once before the goroutines start)
	defer func() { builder.DefaultLinksPerBlock = old }()
	chunker := func(g int) string { return fmt.Sprintf("size-%d", chunk+(g%2)*chunk) }
	type job struct {
		data []byte
		want cid.Cid
		wsz  uint64
	}
	jobs := make([]job, G)
	for g := range jobs {
		data := lcgBytes(baseLen+g*stepLen, byte(g+1), 0) // (at 300: 207 .. 390 chunks of 16 bytes)
		l, sz, err := builder.BuildUnixFSFile(bytes.NewReader(data), chunker(g), NewStore().LinkSystem())
		if err != nil {
			t.Fatal(err)
		}
		jobs[g] = job{data, cidOf(l), sz}
	}
	errs := make(chan string, G)
	var wg sync.WaitGroup
	for g := 0; g < G; g++ {
		wg.Add(1)
		go func(g int) {
			defer wg.Done()
			for r := 0; r < rounds; r++ {
				st := NewStore()
				st.Yield = true
				ls := st.LinkSystem()
				l, sz, err := builder.BuildUnixFSFile(bytes.NewReader(jobs[g].data), chunker(g), ls)
				if err != nil || cidOf(l) != jobs[g].want || sz != jobs[g].wsz {
					errs <- fmt.Sprintf("goroutine %d round %d: file of %d bytes built as %v / %d (err %v), alone as %s / %d", g, r, len(jobs[g].data), l, sz, err, jobs[g].want, jobs[g].wsz)
					return
				}
				if r%10 == 0 {
					rn, err := loadReified(ls, cidOf(l), "unixfs")
					if err != nil {
						errs <- fmt.Sprintf("goroutine %d: reify: %v", g, err)
						return
					}
					rs, _ := rn.(datamodel.LargeBytesNode).AsLargeBytes()
					if end, err := rs.Seek(0, io.SeekEnd); err != nil || end != int64(len(jobs[g].data)) {
						errs <- fmt.Sprintf("goroutine %d round %d: the file built concurrently reports length %d (err %v), it has %d bytes", g, r, end, err, len(jobs[g].data))
						return
					}
					if b, err := rn.AsBytes(); err != nil || !bytes.Equal(b, jobs[g].data) {
						errs <- fmt.Sprintf("goroutine %d round %d: the file built concurrently reads back differently (%d bytes, err %v)", g, r, len(b), err)
						return
					}
				}
			}
		}(g)
	}
	wg.Wait()
	close(errs)
	for e := range errs {
		t.Fatalf("%s: %d goroutines building their own files at link width %d at the same time: %s", prop, G, width, e)
	}
}

func TestC07_R_ConcurrentWideBuilds(t *testing.T) { concurrentWideBuilds(t, "C07") }
func TestC01_R_ConcurrentWideBuilds(t *testing.T) { concurrentWideBuilds(t, "C01") }

// C02 / C10: one entry slice handed to several directory builds at the same time (the same listing written at several
// fanouts, or into several stores): the slice is an input that the builds only read - every build gets the directory it
// gets alone from a slice of its own.
func TestC02_R_ConcurrentBuildsFromOneSharedEntrySlice(t *testing.T) {
	const n = 4000
	es := make([]entrySpec, n)
	seen := map[string]bool{}
	for i := range es {
		name := fmt.Sprintf("entry-%05d", (i*2654435761)%n) // (not in name order)
		for seen[name] {
			name += "'"
		}
		seen[name] = true
		es[i] = entryFor(name, 0)
	}
	type job struct {
		fanout int // 0 = the auto-selecting builder
		want   cid.Cid
	}
	jobs := []job{{fanout: 16}, {fanout: 64}, {fanout: 256}, {fanout: 1024}, {fanout: 0}}
	build := func(j job, entries []dagpb.PBLink) (cid.Cid, error) {
		ls := NewStore().LinkSystem()
		var l datamodel.Link
		var err error
		if j.fanout == 0 {
			l, _, err = builder.BuildUnixFSDirectory(entries, ls)
		} else {
			l, _, err = builder.BuildUnixFSShardedDirectory(j.fanout, mh.MURMUR3X64_64, entries, ls)
		}
		if err != nil {
			return cid.Undef, err
		}
		return cidOf(l), nil
	}
	for i := range jobs {
		c, err := build(jobs[i], pbEntries(es)) // alone, from a slice of its own
		if err != nil {
			t.Fatal(err)
		}
		jobs[i].want = c
	}
	for round := 0; round < 6; round++ {
		shared := pbEntries(es)
		var wg sync.WaitGroup
		errs := make([]string, len(jobs))
		for i := range jobs {
			wg.Add(1)
			go func(i int) {
				defer wg.Done()
				p, _ := safe(func() {
					c, err := build(jobs[i], shared)
					if err != nil || c != jobs[i].want {
						errs[i] = fmt.Sprintf("fanout %d (0 = auto): built %v (err %v), alone %s", jobs[i].fanout, c, err, jobs[i].want)
					}
				})
				if p != nil {
					errs[i] = fmt.Sprintf("panic: %v", p)
				}
			}(i)
		}
		wg.Wait()
		for _, e := range errs {
			if e != "" {
				t.Fatalf("C02: %d directory builds from one shared slice of %d entries at the same time (round %d): %s", len(jobs), n, round, e)
			}
		}
	}
}

// C02: a sharded directory of more than 2^16 shard blocks (150000 naturally named entries at fanout 8): its length, a
// preloading reification and lookups of entries all over it.
func TestC02_R_ShardedDirectoryOfManyThousandShards(t *testing.T) {
	const n = 150000
	st := NewStore()
	es := make([]entrySpec, n)
	for i := range es {
		es[i] = entryFor(fmt.Sprintf("file-%06d.dat", i), 0)
	}
	root, _, err := buildSharded(st, es, 8)
	if err != nil {
		t.Fatal(err)
	}
	if st.Len() <= 1<<16 {
		t.Fatalf("harness: only %d shard blocks", st.Len())
	}
	ls := st.LinkSystem()
	for _, reifier := range []string{"unixfs", "unixfs-preload"} {
		rn, err := loadReified(ls, root, reifier)
		if err != nil {
			t.Fatalf("C02: directory of %d entries in %d shard blocks via %s: %v", n, st.Len(), reifier, err)
		}
		if l := rn.Length(); l != n {
			t.Fatalf("C02: directory of %d entries in %d shard blocks via %s: Length() = %d", n, st.Len(), reifier, l)
		}
		for i := 0; i < n; i += 997 {
			v, err := rn.LookupByString(es[i].Name)
			if c, e := linkOf(v); err != nil || e != nil || c != es[i].Cid {
				t.Fatalf("C02: directory of %d entries via %s: lookup of %q: %v %v", n, reifier, es[i].Name, v, err)
			}
		}
		if _, err := rn.LookupByString("no-such-entry"); !isNoSuchField(err) {
			t.Fatalf("C02: directory of %d entries via %s: lookup of a non-member: %v", n, reifier, err)
		}
	}
}

// C02 / C08: entry names far beyond any path limit (4097 bytes .. 70000 bytes: directories are maps of byte strings), in
// plain and sharded directories written by the builders and by the reference writer, through every lookup entry point.
func TestC02_R_VeryLongNames(t *testing.T) { veryLongNames(t) }
func TestC08_R_VeryLongNames(t *testing.T) { veryLongNames(t) }

func veryLongNames(t *testing.T) {
	var es []entrySpec
	want := map[string]cid.Cid{}
	for i, l := range []int{4095, 4096, 4097, 5000, 65535, 65536, 70000, 1<<20 - 3, 1 << 20, 1<<20 + 17} {
		name := fmt.Sprintf("name-of-%d-bytes-", l)
		name += strings.Repeat(string(rune('a'+i)), l-len(name))
		es = append(es, entryFor(name, 0))
		want[name] = es[len(es)-1].Cid
	}
	for i := 0; i < 40; i++ {
		es = append(es, entryFor(fmt.Sprintf("short-%02d", i), 0))
		want[es[len(es)-1].Name] = es[len(es)-1].Cid
	}
	nonMembers := []string{es[2].Name[:4096], es[6].Name[:65535], es[6].Name + "x", "short-"}
	for _, how := range []string{"plain", "sharded-8", "sharded-256", "sharded-1024", "reference-8", "reference-256"} {
		st := NewStore()
		var root cid.Cid
		var err error
		switch how {
		case "plain":
			root, _, err = buildDir(st, es)
		case "sharded-8":
			root, _, err = buildSharded(st, es, 8)
		case "sharded-256":
			root, _, err = buildSharded(st, es, 256)
		case "sharded-1024":
			root, _, err = buildSharded(st, es, 1024)
		case "reference-8":
			root, _, err = refBuildShard(st, es, 8)
		default:
			root, _, err = refBuildShard(st, es, 256)
		}
		if err != nil {
			t.Fatalf("C02: %s directory with names of up to a MiB: %v", how, err)
		}
		for _, reifier := range []string{"unixfs", "unixfs-preload"} {
			rn, err := loadReified(st.LinkSystem(), root, reifier)
			if err != nil {
				t.Fatalf("C02: %s directory with names of up to a MiB via %s: %v", how, reifier, err)
			}
			if err := checkDirIsMap(rn, want, nonMembers); err != nil {
				if len(err.Error()) > 400 {
					err = fmt.Errorf("%.400s...", err.Error())
				}
				t.Fatalf("C02: %s directory with names of 4095 bytes .. 1 MiB via %s: %v", how, reifier, err)
			}
		}
	}
}

// harvestChunks cuts pseudo-random data with a content-defined chunker and returns, per wanted length, chunks of exactly
// that length. A content-defined chunker starts afresh after every cut, so harvested chunks strung together are cut at
// the same places again (the callers check that).
func harvestChunks(t *testing.T, chunker string, lengths ...int) map[int][][]byte {
	out := map[int][][]byte{}
	want := map[int]bool{}
	for _, l := range lengths {
		want[l] = true
	}
	for salt := 0; salt < 8; salt++ {
		sp, err := chunk.FromString(bytes.NewReader(lcgBytes(4<<20, byte(salt+1), salt)), chunker)
		if err != nil {
			t.Fatal(err)
		}
		for {
			c, err := sp.NextBytes()
			if err != nil {
				break
			}
			if want[len(c)] && len(out[len(c)]) < 8 {
				out[len(c)] = append(out[len(c)], append([]byte{}, c...))
			}
		}
		done := true
		for _, l := range lengths {
			done = done && len(out[l]) >= 4
		}
		if done {
			return out
		}
	}
	t.Fatalf("harness: %s did not yield chunks of all the lengths %v", chunker, lengths)
	return nil
}

// C07 / C10 / C11: content-defined chunks whose lengths sit on both sides of a varint boundary (124, 127, 128 bytes), laid
// out so that neighbouring subtrees differ in content length but not in stored size; and a node whose chunk lengths are
// irregular but add up like a regular one ([27, 21, 33, 27]), built right after the regular file it resembles. Whatever
// was built before in the process: the reference importer's link and size.
func contentDefinedCoincidences(t *testing.T, prop string) {
	h := harvestChunks(t, "rabin-64-128-256", 124, 127, 128)
	var data []byte
	for i, l := range []int{127, 127, 128, 124, 128, 124, 127, 127, 124, 128, 127, 127} {
		data = append(data, h[l][i%len(h[l])]...)
	}
	for _, w := range []int{2, 3, 4, 174} {
		got, gsz, err := buildFile(NewStore(), data, "rabin-64-128-256", w)
		if err != nil {
			t.Fatal(err)
		}
		want, wsz, err := refImportFile(NewStore(), data, refFileOpts{Chunker: "rabin-64-128-256", Width: w, RawLeaves: true, CidV1: true})
		if err != nil {
			t.Fatal(err)
		}
		if got != want || gsz != wsz {
			t.Fatalf("%s: %d bytes cut by rabin-64-128-256 into chunks of 127,127,128,124,128,124,127,127,124,128,127,127 bytes at width %d: builder %s / %d, reference importer %s / %d", prop, len(data), w, got, gsz, want, wsz)
		}
		st := NewStore()
		root, size, err := buildFile(st, data, "rabin-64-128-256", w)
		if err != nil {
			t.Fatal(err)
		}
		if cum, err := st.CumulativeSize(root, nil); err != nil || cum != size {
			t.Fatalf("%s: width %d: returned size %d, true cumulative size %d (%v)", prop, w, size, cum, err)
		}
		if _, err := verifySizes(st, root, nil); err != nil {
			t.Fatalf("%s: width %d: %v", prop, w, err)
		}
	}
	h2 := harvestChunks(t, "rabin-16-32-64", 21, 27, 33)
	for round := 0; round < 3; round++ {
		irregular := append(append(append(append([]byte{}, h2[27][round]...), h2[21][round]...), h2[33][round]...), h2[27][round+1]...)
		regular := lcgBytes(108, byte(round+9), 0)
		for _, first := range []string{"regular", "irregular"} {
			order := [][2]any{{regular, "size-27"}, {irregular, "rabin-16-32-64"}}
			if first == "irregular" {
				order[0], order[1] = order[1], order[0]
			}
			for _, o := range order {
				d, ck := o[0].([]byte), o[1].(string)
				got, gsz, err := buildFile(NewStore(), d, ck, 174)
				if err != nil {
					t.Fatal(err)
				}
				want, wsz, err := refImportFile(NewStore(), d, refFileOpts{Chunker: ck, Width: 174, RawLeaves: true, CidV1: true})
				if err != nil {
					t.Fatal(err)
				}
				if got != want || gsz != wsz {
					t.Fatalf("%s: a 108-byte file (chunker %s; built %s-first next to its look-alike): builder %s / %d, reference importer (and a fresh process) %s / %d", prop, ck, first, got, gsz, want, wsz)
				}
			}
		}
	}
}

func TestC07_R_ContentDefinedCoincidences(t *testing.T) { contentDefinedCoincidences(t, "C07") }
func TestC10_R_ContentDefinedCoincidences(t *testing.T) { contentDefinedCoincidences(t, "C10") }
func TestC11_R_ContentDefinedCoincidences(t *testing.T) { contentDefinedCoincidences(t, "C11") }

// wideOldStyleFile: a root that records no BlockSizes over n dag-pb leaves of two bytes each (every child has to be opened
// to be measured).
func wideOldStyleFile(t *testing.T, n int) (*Store, cid.Cid, []byte) {
	root := &mnode{HasData: true, UFS: &ufsFields{Type: 2}}
	var data []byte
	for i := 0; i < n; i++ {
		c := []byte{byte(i), byte(i>>8) ^ byte(i>>16)}
		data = append(data, c...)
		root.Links = append(root.Links, mlink{Tsize: i64p(10), Child: &mnode{HasData: true, UFS: &ufsFields{Type: 2, HasData: true, Data: c, FileSize: u64p(2)}}})
	}
	root.UFS.FileSize = u64p(uint64(len(data)))
	st := NewStore()
	rc, err := root.store(st, st.LinkSystem())
	if err != nil {
		t.Fatal(err)
	}
	return st, rc, data
}

// C20: a node with hundreds of children that all have to be measured: full reads on fresh nodes request the blocks in
// the same order every time.
func TestC20_R_WideOldStyleNodeRepeatable(t *testing.T) {
	st, rc, data := wideOldStyleFile(t, 600)
	ls := st.LinkSystem()
	var first []cid.Cid
	for run := 0; run < 5; run++ {
		rn, err := loadReified(ls, rc, "unixfs")
		if err != nil {
			t.Fatal(err)
		}
		st.ResetLogs()
		b, err := rn.AsBytes()
		if err != nil || !bytes.Equal(b, data) {
			t.Fatalf("C20: wide old-style node: %d bytes, %v", len(b), err)
		}
		log := st.ReadLog()
		if run == 0 {
			first = log
		} else if !slices.Equal(log, first) {
			t.Fatalf("C20: full read #%d of a 600-child node without BlockSizes requested its blocks in another order than read #1 (first difference at request #%d of %d)", run+1, firstCidDiff(log, first), len(first))
		}
	}
}

// C04: a node with more than 2^16 children that have to be measured, read sequentially while one block load half way
// fails once: the read that met the fault reports it, and the same reader then delivers the rest of the file.
func TestC04_R_VeryWideOldStyleNodeTransientFault(t *testing.T) {
	st, rc, data := wideOldStyleFile(t, 66000)
	ls := st.LinkSystem()
	for _, failAt := range []int{65536 + 10, 70000, 131072 + 5} {
		rn, err := loadReified(ls, rc, "unixfs")
		if err != nil {
			t.Fatal(err)
		}
		rs, err := rn.(datamodel.LargeBytesNode).AsLargeBytes()
		if err != nil {
			t.Fatal(err)
		}
		st.ResetLogs()
		st.FailReadAt = failAt
		var got []byte
		buf := make([]byte, 4096)
		faults, spins := 0, 0
		for spins < 200000 {
			spins++
			n, err := rs.Read(buf)
			got = append(got, buf[:n]...)
			if err == io.EOF {
				break
			}
			if err != nil {
				if !isInjected(err) {
					t.Fatalf("C04: 66000-child node without BlockSizes, load #%d failing once: read failed with %v", failAt, err)
				}
				faults++
				if faults > 3 {
					t.Fatalf("C04: the one-shot fault was reported %d times", faults)
				}
			}
		}
		st.FailReadAt = 0
		if !bytes.Equal(got, data) {
			t.Fatalf("C04: 66000-child node without BlockSizes, load #%d failing once (reported %d times), the failed read retried on the same reader: %d bytes delivered, the file has %d; first difference at %d", failAt, faults, len(got), len(data), firstDiff(got, data))
		}
		if pos, err := rs.Seek(0, io.SeekCurrent); err != nil || pos != int64(len(data)) {
			t.Fatalf("C04: position after the end = %d, %v", pos, err)
		}
	}
}
