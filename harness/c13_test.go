package harness

// C13 - malformed or hostile blocks produce errors, never panics or unbounded work.

import (
	"context"
	"fmt"
	"github.com/ipfs/go-unixfsnode"
	"github.com/ipfs/go-unixfsnode/file"
	"github.com/ipfs/go-unixfsnode/hamt"
	"io"
	"sort"
	"testing"
	"time"

	"github.com/gogo/protobuf/proto"
	pb "github.com/ipfs/boxo/ipld/unixfs/pb"
	"github.com/ipfs/go-cid"
	"github.com/ipfs/go-unixfsnode/data"
	"github.com/ipld/go-ipld-prime"
	"github.com/ipld/go-ipld-prime/datamodel"
	"github.com/ipld/go-ipld-prime/node/basicnode"
	"pgregory.net/rapid"
)

type exerciseStats struct {
	reified    int
	deepOps    int // operations that went at least two levels deep (loaded a block)
	iterSteps  int
	bytesRead  int
	violation  string
	linkBudget int
	byteBudget int
}

// exerciseNode drives every node operation under the budgets; it records the first budget violation.
// say renders an error the way a caller that logs it would (err.Error() called directly - fmt's verbs would absorb a
// panic inside Error into the formatted text): rendering the error is part of handling it.
func say(err error) {
	if err != nil {
		_ = err.Error()
		_ = fmt.Sprintf("%+v %q", err, err)
	}
}

func exerciseNode(st *Store, n datamodel.Node, xs *exerciseStats, keysToTry []string) {
	_ = n.Kind()
	_ = n.Length()
	// the rest of the node interface: wrong-kind accessors and the like answer with an error or a zero value
	_, _ = n.IsAbsent(), n.IsNull()
	_, _ = n.AsBool()
	_, _ = n.AsInt()
	_, _ = n.AsFloat()
	_, _ = n.AsString()
	_, _ = n.AsLink()
	_ = n.Prototype()
	if li := n.ListIterator(); li != nil {
		for i := 0; i < 3 && !li.Done(); i++ {
			_, _, _ = li.Next()
		}
	}
	if sub, ok := n.(interface{ Substrate() datamodel.Node }); ok {
		if s := sub.Substrate(); s != nil {
			_ = s.Kind()
		}
	}
	if n.Kind() == datamodel.Kind_Map {
		var yielded []string
		if it := n.MapIterator(); it != nil {
			steps := 0
			for !it.Done() {
				steps++
				if steps > xs.linkBudget {
					xs.violation = fmt.Sprintf("MapIterator did not finish within %d steps", xs.linkBudget)
					return
				}
				k, v, err := it.Next()
				if err == nil && k != nil {
					if ks, e := k.AsString(); e == nil && len(yielded) < 8 {
						yielded = append(yielded, ks)
					}
					if v != nil {
						_, _ = v.AsLink()
					}
				}
			}
			xs.iterSteps += steps
			// over-read must not panic
			_, _, _ = it.Next()
		}
		if nd, ok := n.(nativeDir); ok {
			steps := 0
			for it := nd.Iterator(); !it.Done(); {
				steps++
				if steps > xs.linkBudget {
					xs.violation = fmt.Sprintf("native Iterator did not finish within %d steps", xs.linkBudget)
					return
				}
				it.Next()
			}
			for _, k := range append(yielded, keysToTry...) {
				nd.Lookup(pbString(k))
			}
		}
		for _, k := range append(yielded, keysToTry...) {
			_, _ = n.LookupByString(k)
			_, _ = n.LookupBySegment(datamodel.PathSegmentOfString(k))
			_, _ = n.LookupByNode(basicnode.NewString(k))
		}
		_, _ = n.LookupByNode(basicnode.NewInt(3))
		_, _ = n.LookupByIndex(0)
		_, _ = n.LookupBySegment(datamodel.PathSegmentOfInt(1))
	}
	if lb, ok := n.(datamodel.LargeBytesNode); ok {
		if b, err := n.AsBytes(); err == nil {
			xs.bytesRead += len(b)
			if len(b) > xs.byteBudget {
				xs.violation = fmt.Sprintf("AsBytes returned %d bytes from a DAG holding %d payload bytes", len(b), xs.byteBudget-(1<<20))
				return
			}
		}
		rs, err := lb.AsLargeBytes()
		if err == nil && rs != nil {
			buf := make([]byte, 5)
			_, _ = rs.Read(nil)
			for _, s := range [][2]int64{{0, io.SeekEnd}, {3, io.SeekStart}, {1, io.SeekCurrent}, {-1, io.SeekStart}, {-2, io.SeekCurrent}, {-1000, io.SeekEnd}, {100, io.SeekStart}, {1 << 40, io.SeekStart}, {0, io.SeekStart}, {-3, io.SeekEnd}} {
				_, _ = rs.Seek(s[0], int(s[1]))
				zero := 0
				for i := 0; i < 4; i++ { // keep reading after an error: a failed read must leave the reader usable
					k, err := rs.Read(buf)
					xs.bytesRead += k
					if k == 0 && err == nil {
						zero++
					}
				}
				_ = zero
			}
			_, _ = rs.Seek(0, io.SeekStart)
			total, zero := 0, 0
			big := make([]byte, 4096)
			errs := 0
			for {
				k, err := rs.Read(big)
				total += k
				if err != nil {
					errs++
					if err == io.EOF || errs > 3 { // retry a failing read a few times, as a caller polling the reader would
						break
					}
					continue
				}
				if k == 0 {
					zero++
					if zero > 10000 {
						xs.violation = "more than 10000 consecutive (0, nil) reads"
						return
					}
				} else {
					zero = 0
				}
				if total > xs.byteBudget {
					xs.violation = fmt.Sprintf("streamed read returned more than %d bytes from a DAG holding %d payload bytes", total, xs.byteBudget-(1<<20))
					return
				}
			}
			xs.bytesRead += total
		}
	}
}

// c13Run stores the hostile DAG and exercises it through Reify and both registered reifiers.
func c13Run(m *mnode, extraKeys ...string) (xs exerciseStats, panicked any, stack string, root cid.Cid, err error) {
	st := NewStore()
	ls := st.LinkSystem()
	root, err = m.store(st, ls)
	if err != nil {
		return
	}
	nodes, payload, links := m.treeSize()
	xs.linkBudget = 2*links + 10
	xs.byteBudget = payload + 1<<20
	budget := 200 * nodes
	keysToTry := append([]string{"", "a", "0a", "x", "abc", "00", "inner", "Links"}, extraKeys...)
	for _, reifier := range []string{"Reify", "unixfs", "unixfs-preload", "Load+NodeReifier", "file.NewUnixFSFile", "hamt.AttemptHAMTShardFromNode"} {
		st.ResetLogs()
		st.LoadBudget = budget
		if reifier == "Load+NodeReifier" {
			// a link system that reifies every node it loads (LinkSystem.NodeReifier = unixfsnode.Reify): children arrive in
			// the readers already reified, and a file read through it re-reads a child per Read (quadratic by construction)
			st.LoadBudget = budget * (nodes + 1)
		}
		st.BudgetExceeded = false
		panicked, stack = safe(func() {
			pn, e := loadPlain(ls, root)
			if e != nil {
				return
			}
			var rn datamodel.Node
			if reifier == "file.NewUnixFSFile" {
				// the package constructors called directly on whatever block there is (no type dispatch in front of them)
				var f file.LargeBytesNode
				f, e = file.NewUnixFSFile(context.Background(), pn, ls)
				if e == nil && f != nil {
					rn = f
				}
			} else if reifier == "hamt.AttemptHAMTShardFromNode" {
				rn, e = hamt.AttemptHAMTShardFromNode(context.Background(), pn, ls)
			} else if reifier == "Load+NodeReifier" {
				ls2 := *ls
				ls2.NodeReifier = unixfsnode.Reify
				rn, e = ls2.Load(ipld.LinkContext{}, cidLink(root), protoForCid(root))
			} else if reifier == "Reify" {
				rn, e = loadReified(ls, root, "unixfs")
			} else {
				rn, e = ls.KnownReifiers[reifier](lc0, pn, ls)
			}
			say(e)
			if e != nil || rn == nil {
				return
			}
			xs.reified++
			before := len(st.ReadLog())
			exerciseNode(st, rn, &xs, keysToTry)
			if len(st.ReadLog()) > before {
				xs.deepOps++
			}
		})
		if panicked != nil {
			return
		}
		if st.BudgetExceeded && xs.violation == "" {
			xs.violation = fmt.Sprintf("more than %d block loads for a DAG of %d nodes (%s)", budget, nodes, reifier)
		}
		if xs.violation != "" {
			return
		}
	}
	return
}

const c13DagRule = "case = hostile dag-pb DAG (<= ~60 blocks, children dag-pb or raw or missing): (a) generated from scratch with adversarial UnixFS fields (fanout 0/1/3/7/2^k/2048/2^63, wrong hash type, bitfields of 0..40 bytes, inconsistent or huge FileSize/BlockSizes, absent/short/long names, absent or huge Tsize), or (b) a valid file / deep sharded directory / tree mutated 1..3 times (fanout, bitfield, link names, duplicated links, types, sizes, replaced or missing children) with ancestors re-linked; " +
	"every operation (Reify + both registered reifiers; Kind, Length, four lookups, both iterators + over-read, AsBytes, AsLargeBytes with a script of seeks incl. negative and far targets and reads) runs under recover() and budgets (block loads <= 200 x nodes, iterator steps <= 2 x links + 10, bytes <= payload + 1 MiB, <= 10000 consecutive empty reads); violation = panic or budget exceeded; " +
	"non-trivial = reification succeeded and an operation loaded at least one further block; distinct by (generator, mutation kinds, root type, reified count)"

func TestC13_P_HostileDAGs(t *testing.T) {
	ev := newEvid(t, c13DagRule)
	rapid.Check(t, func(t *rapid.T) {
		var m *mnode
		gen := rapid.SampledFrom([]string{"scratch", "mutated", "mutated", "mutated", "deep-chain"}).Draw(t, "gen")
		var muts []string
		var extraKeys []string
		if gen == "deep-chain" {
			var key string
			m, key = genDeepChain(t)
			extraKeys = []string{key}
			if rapid.Bool().Draw(t, "mutateChain") {
				all := m.all()
				if k := mutate(t, all[rapid.IntRange(0, len(all)-1).Draw(t, "target")]); k != "" {
					muts = append(muts, k)
				}
			}
		} else if gen == "scratch" {
			m = genHostileScratch(t, 3)
			if m.IsRaw {
				m = &mnode{Links: []mlink{{Name: strp("a"), Child: m}}, HasData: true}
				genHostileUFS(t, m)
			}
		} else {
			st := NewStore()
			var root cid.Cid
			switch rapid.IntRange(0, 3).Draw(t, "valid") {
			case 0:
				fc := genFileDAG(t, 0, 60)
				st, root = fc.St, fc.Root
			case 1:
				names, _ := genNames(t, nameOpts{Max: 40})
				if len(names) == 0 {
					names = []string{"a"}
				}
				es := make([]entrySpec, len(names))
				for i, n := range names {
					es[i] = entryFor(n, 0)
				}
				var err error
				root, _, err = buildSharded(st, es, rapid.SampledFrom([]int{8, 8, 16, 256, 1024}).Draw(t, "fanout"))
				if err != nil {
					t.Fatalf("harness: %v", err)
				}
			case 2:
				p := collisions.Pairs[rapid.IntRange(0, 40).Draw(t, "pair")]
				es := []entrySpec{entryFor(p[0], 0), entryFor(p[1], 0), entryFor("x", 0)}
				var err error
				root, _, err = buildSharded(st, es, rapid.SampledFrom([]int{8, 64, 1024}).Draw(t, "fanout"))
				if err != nil {
					t.Fatalf("harness: %v", err)
				}
			default:
				tr := genTree(t, 2, 5)
				if err := tr.build(st); err != nil {
					t.Fatalf("harness: %v", err)
				}
				root = tr.Root
			}
			var err error
			m, err = parseM(st, root)
			if err != nil {
				t.Fatalf("harness: parse: %v", err)
			}
			all := m.all()
			for i := rapid.IntRange(1, 3).Draw(t, "nmut"); i > 0; i-- {
				target := all[rapid.IntRange(0, len(all)-1).Draw(t, "target")]
				if k := mutate(t, target); k != "" {
					muts = append(muts, k)
				}
			}
		}
		if nodes, _, _ := m.treeSize(); nodes > 400 {
			ev.Case("too-large", false, "skipped-too-large")
			return
		}
		xs, p, stack, root, err := c13Run(m, extraKeys...)
		if err != nil {
			// the codec refused to encode the hostile node (e.g. negative Tsize): not a case
			ev.Case("unencodable", false, "unencodable")
			return
		}
		if p != nil {
			t.Fatalf("C13: PANIC on hostile DAG %s (%s, mutations %v): %v\n%s", root, gen, muts, p, stack)
		}
		if xs.violation != "" {
			t.Fatalf("C13: unbounded work on hostile DAG %s (%s, mutations %v): %s", root, gen, muts, xs.violation)
		}
		rootType := "none"
		if m.UFS != nil {
			rootType = fmt.Sprint(m.UFS.Type)
		} else if m.HasData {
			rootType = "garbage"
		}
		cl := []string{"gen:" + gen, "roottype:" + rootType, fmt.Sprintf("reified:%d", xs.reified)}
		for _, k := range muts {
			cl = append(cl, "mut:"+k)
		}
		ev.Case(fmt.Sprintf("%s %v t=%s r=%d deep=%d", gen, muts, rootType, xs.reified, xs.deepOps), xs.reified > 0 && xs.deepOps > 0, cl...)
		nodes, payload, links := m.treeSize()
		ev.Sample(map[string]any{"generator": gen, "mutations": muts, "root": root.String(), "root_type": rootType, "nodes": nodes, "links": links, "payload_bytes": payload, "reified": xs.reified, "iter_steps": xs.iterSteps, "bytes_read": xs.bytesRead})
	})
}

const c13BytesRule = "case = byte string for DecodeUnixFSData / DecodeUnixTime / DecodeUnixFSMetadata: uniformly random, hostile constants (truncated tags, length 2^63, 11-byte varints, unterminated groups), or a valid encoding with 1..4 byte-level mutations (flip, delete, insert, truncate, splice); " +
	"oracle = no panic, and acceptance implies the reference decoder also accepts (sanity); non-trivial = input that at least one decoder accepts or a mutated valid encoding; distinct by input hash"

var hostileWire = [][]byte{
	{0x08}, {0x12}, {0x12, 0xff, 0xff, 0xff, 0xff, 0xff, 0xff, 0xff, 0xff, 0x7f}, {0x08, 0x80, 0x80, 0x80, 0x80, 0x80, 0x80, 0x80, 0x80, 0x80, 0x80, 0x01},
	{0x0b}, {0x0b, 0x0b, 0x0b}, {0x0c}, {0x22, 0x05, 0x80}, {0x22, 0x01, 0x80}, {0x42, 0x01, 0x08}, {0x42, 0x02, 0x15, 0x01}, {0x00}, {0x07},
	{0x38, 0xff, 0xff, 0xff, 0xff, 0x1f}, {0x08, 0x02, 0x22, 0x00}, {0x08, 0x02, 0x22, 0x02, 0x01, 0x02, 0x20, 0x03}, {0xff, 0xff, 0xff, 0xff, 0x0f},
}

func TestC13_P_DecoderBytes(t *testing.T) {
	ev := newEvid(t, c13BytesRule)
	rapid.Check(t, func(t *rapid.T) {
		var b []byte
		kind := rapid.SampledFrom([]string{"random", "hostile-const", "mutated-valid", "mutated-valid"}).Draw(t, "kind")
		switch kind {
		case "random":
			b = rapid.SliceOfN(rapid.Byte(), 0, 40).Draw(t, "bytes")
		case "hostile-const":
			b = append([]byte{}, rapid.SampledFrom(hostileWire).Draw(t, "const")...)
			b = append(b, rapid.SliceOfN(rapid.Byte(), 0, 4).Draw(t, "tail")...)
		default:
			b = append([]byte{}, genDataMessage(t).wire...)
			for i := rapid.IntRange(1, 4).Draw(t, "nmut"); i > 0 && len(b) > 0; i-- {
				j := rapid.IntRange(0, len(b)-1).Draw(t, "pos")
				switch rapid.IntRange(0, 4).Draw(t, "op") {
				case 0:
					b[j] ^= 1 << uint(rapid.IntRange(0, 7).Draw(t, "bit"))
				case 1:
					b = append(b[:j], b[j+1:]...)
				case 2:
					b = append(b[:j], append([]byte{rapid.Byte().Draw(t, "ins")}, b[j:]...)...)
				case 3:
					b = b[:j]
				default:
					b[j] = rapid.SampledFrom([]byte{0x00, 0x7f, 0x80, 0xff}).Draw(t, "val")
				}
			}
		}
		accepted := 0
		var derr error
		if p, st := safe(func() {
			if _, derr = data.DecodeUnixFSData(b); derr == nil {
				accepted++
			}
			if _, err := data.DecodeUnixTime(b); err == nil {
				accepted++
			}
			if _, err := data.DecodeUnixFSMetadata(b); err == nil {
				accepted++
			}
		}); p != nil {
			t.Fatalf("C13: decoder PANIC on %x: %v\n%s", b, p, st)
		}
		if derr == nil {
			// sanity: whatever the library accepts as Data is at least well-formed protobuf for the reference
			var ref pb.Data
			if err := proto.Unmarshal(b, &ref); err != nil {
				if _, isReq := err.(*proto.RequiredNotSetError); !isReq {
					ev.Count("lib-accepts-ref-rejects", 1)
				}
			}
		}
		ev.Case(fph(string(b)), accepted > 0 || kind == "mutated-valid", "kind:"+kind, fmt.Sprintf("accepted:%d", accepted))
		ev.Sample(map[string]any{"kind": kind, "hex": fmt.Sprintf("%x", b), "decoders_accepting": accepted})
	})
}

// genDeepChain builds a hostile but structurally consistent HAMT: a single chain of nested shards along the hash path of
// one crafted name, as deep as or deeper than the 64-bit digest can address at that fanout, ending in a value link.
func genDeepChain(t *rapid.T) (*mnode, string) {
	lg := rapid.IntRange(3, 10).Draw(t, "chainfanlg")
	fan := 1 << uint(lg)
	maxLevels := 64 / lg
	depth := maxLevels + rapid.IntRange(-2, 3).Draw(t, "chainextra")
	key := craftName(rapid.Uint64().Draw(t, "chainhash"), 42)
	pad := padWidth(fan)
	var node *mnode
	for level := depth - 1; level >= 0; level-- {
		idx, ok := hashBitsRef(key, level*lg, lg)
		if !ok {
			idx = rapid.IntRange(0, fan-1).Draw(t, "overflowidx")
		}
		bf := make([]byte, fan/8)
		bf[len(bf)-1-idx/8] |= 1 << uint(idx%8)
		for len(bf) > 1 && bf[0] == 0 {
			bf = bf[1:]
		}
		n := &mnode{HasData: true, UFS: hamtFields(uint64(fan), bf)}
		if node == nil {
			n.Links = []mlink{{Name: strp(fmt.Sprintf("%0*X%s", pad, idx, key)), Tsize: i64p(1), Child: &mnode{IsRaw: true, Raw: []byte("v")}}}
		} else {
			n.Links = []mlink{{Name: strp(fmt.Sprintf("%0*X", pad, idx)), Tsize: i64p(1), Child: node}}
		}
		node = n
	}
	return node, key
}

func hamtFields(fan uint64, bf []byte) *ufsFields {
	return &ufsFields{Type: 5, HasData: true, Data: bf, HashType: u64p(0x22), Fanout: u64p(fan)}
}

func c13MustSurvive(t *testing.T, what string, m *mnode) {
	xs, p, stack, root, err := c13Run(m)
	if err != nil {
		t.Fatalf("harness: %v", err)
	}
	if p != nil {
		t.Fatalf("C13 %s: PANIC on %s: %v\n%s", what, root, p, stack)
	}
	if xs.violation != "" {
		t.Fatalf("C13 %s: %s", what, xs.violation)
	}
}

// F5 (fixed): bitfield longer than fanout/8 bytes.
func TestC13_R_F5_OversizedBitfield(t *testing.T) {
	leaf := &mnode{IsRaw: true, Raw: []byte("x")}
	c13MustSurvive(t, "F5 fanout 8, 2-byte bitfield", &mnode{HasData: true, UFS: hamtFields(8, []byte{1, 1}), Links: []mlink{{Name: strp("0a"), Child: leaf}}})
	c13MustSurvive(t, "F5 fanout 256, 33-byte bitfield", &mnode{HasData: true, UFS: hamtFields(256, append([]byte{1}, make([]byte, 32)...)), Links: []mlink{{Name: strp("00a"), Child: leaf}}})
}

// F6 (fixed): child shard with a narrower fanout than its parent.
func TestC13_R_F6_FanoutMismatch(t *testing.T) {
	leaf := &mnode{IsRaw: true, Raw: []byte("x")}
	child := &mnode{HasData: true, UFS: hamtFields(8, []byte{1}), Links: []mlink{{Name: strp("0a"), Child: leaf}}}
	c13MustSurvive(t, "F6 root fanout 1024 / child fanout 8", &mnode{HasData: true, UFS: hamtFields(1024, []byte{1}), Links: []mlink{{Name: strp("000"), Child: child}}})
	child2 := &mnode{HasData: true, UFS: hamtFields(1024, []byte{1}), Links: []mlink{{Name: strp("000abc"), Child: leaf}}}
	c13MustSurvive(t, "F6 root fanout 8 / child fanout 1024", &mnode{HasData: true, UFS: hamtFields(8, []byte{1}), Links: []mlink{{Name: strp("0"), Child: child2}}})
}

// F1 (fixed): reads after a failed negative seek on single-block and wrapped files.
func TestC13_R_NegativeSeekNoPanic(t *testing.T) {
	c13MustSurvive(t, "wrapped single-node file", &mnode{HasData: true, UFS: &ufsFields{Type: 2, HasData: true, Data: []byte("abc")}})
	c13MustSurvive(t, "file over one raw leaf", &mnode{HasData: true, UFS: &ufsFields{Type: 2, FileSize: u64p(3), BlockSizes: []uint64{3}}, Links: []mlink{{Tsize: i64p(3), Child: &mnode{IsRaw: true, Raw: []byte("abc")}}}})
}

// A chain of shards deeper than the digest can address (22 levels at fanout 8 = 66 bits) must end in an error.
func TestC13_R_DeeperThanHash(t *testing.T) {
	for _, lg := range []int{3, 4, 5, 6, 7, 8, 9, 10} {
		fan := 1 << uint(lg)
		key := craftName(0x0123456789abcdef, uint64(lg))
		pad := padWidth(fan)
		depth := 64/lg + 2
		var node *mnode
		for level := depth - 1; level >= 0; level-- {
			idx, ok := hashBitsRef(key, level*lg, lg)
			if !ok {
				idx = 1
			}
			bf := make([]byte, fan/8)
			bf[len(bf)-1-idx/8] |= 1 << uint(idx%8)
			n := &mnode{HasData: true, UFS: hamtFields(uint64(fan), bf)}
			if node == nil {
				n.Links = []mlink{{Name: strp(fmt.Sprintf("%0*X%s", pad, idx, key)), Child: &mnode{IsRaw: true, Raw: []byte("v")}}}
			} else {
				n.Links = []mlink{{Name: strp(fmt.Sprintf("%0*X", pad, idx)), Child: node}}
			}
			node = n
		}
		xs, p, stack, root, err := c13Run(node, key)
		if err != nil {
			t.Fatal(err)
		}
		if p != nil {
			t.Fatalf("C13 deeper-than-hash fanout %d: PANIC on %s: %v\n%s", fan, root, p, stack)
		}
		if xs.violation != "" {
			t.Fatalf("C13 deeper-than-hash fanout %d: %s", fan, xs.violation)
		}
	}
}

// FuzzC13_HostileDAG drives the hostile-DAG property with Go's coverage-guided fuzzer (thorough tier): the byte input
// is the random tape rapid draws the generator choices from.
func FuzzC13_HostileDAG(f *testing.F) {
	f.Fuzz(rapid.MakeFuzz(func(t *rapid.T) {
		var m *mnode
		var extra []string
		switch rapid.IntRange(0, 2).Draw(t, "gen") {
		case 0:
			m = genHostileScratch(t, 3)
			if m.IsRaw {
				return
			}
		case 1:
			var key string
			m, key = genDeepChain(t)
			extra = []string{key}
		default:
			fc := genFileDAG(t, 0, 40)
			var err error
			m, err = parseM(fc.St, fc.Root)
			if err != nil {
				return
			}
		}
		all := m.all()
		for i := rapid.IntRange(0, 3).Draw(t, "nmut"); i > 0; i-- {
			mutate(t, all[rapid.IntRange(0, len(all)-1).Draw(t, "target")])
		}
		if nodes, _, _ := m.treeSize(); nodes > 400 {
			return
		}
		xs, p, stack, root, err := c13Run(m, extra...)
		if err != nil {
			return
		}
		if p != nil {
			t.Fatalf("C13: PANIC on hostile DAG %s: %v\n%s", root, p, stack)
		}
		if xs.violation != "" {
			t.Fatalf("C13: unbounded work on hostile DAG %s: %s", root, xs.violation)
		}
	}))
}

// sharedChain builds a HAMT of `depth` blocks in which every shard links the SAME child shard under two bucket names and the
// innermost shard is empty: a DAG with shared subtrees, 2^(depth-1) paths, no entries at all.
func sharedChain(depth int) *mnode {
	var node *mnode
	for level := 0; level < depth; level++ {
		n := &mnode{HasData: true, UFS: hamtFields(8, []byte{3})}
		if node != nil {
			n.Links = []mlink{{Name: strp("0"), Tsize: i64p(1), Child: node}, {Name: strp("1"), Tsize: i64p(1), Child: node}}
		} else {
			n.UFS = hamtFields(8, nil)
		}
		node = n
	}
	return node
}

// TestC13_K_SharedSubtrees probes the recorded finding C13-shared-subtree-iteration (iterating a sharded directory whose shards
// are shared between several links takes work exponential in the number of blocks) and checks that nothing else about such
// DAGs got worse: Length() and lookups, which memoise per shard, must stay linear.
func TestC13_K_SharedSubtrees(t *testing.T) {
	st := NewStore()
	ls := st.LinkSystem()
	root, err := sharedChain(16).store(st, ls)
	if err != nil {
		t.Fatal(err)
	}
	rn, err := loadReified(ls, root, "unixfs")
	if err != nil {
		t.Fatalf("reify: %v", err)
	}
	steps := 0
	p, _ := safe(func() {
		for it := rn.MapIterator(); !it.Done() && steps < 1<<20; {
			_, _, _ = it.Next()
			steps++
		}
	})
	if p != nil {
		fmt.Printf("FINDING property=C13 key=C13-shared-subtree-panic :: iterating a 16-block HAMT with shared shards panicked: %v\n", p)
	} else if steps > 2*2*16+10 {
		fmt.Printf("FINDING property=C13 key=C13-shared-subtree-iteration :: full iteration of a 16-block sharded directory whose shards are each linked twice took %d steps (2 x links + 10 = %d): work grows as 2^blocks\n", steps, 2*2*16+10)
	}
	// the same construction for files: every level links one all-empty child twice (BlockSizes [0,0], FileSize 0). The reader
	// opens an empty child that sits at the read offset (so that every block of a file is requested, C06/C20 - the repair of
	// F12), and without a per-read memo it does so once per PATH
	{
		var node *mnode = &mnode{IsRaw: true, Raw: nil}
		for level := 0; level < 13; level++ {
			node = &mnode{HasData: true, UFS: &ufsFields{Type: 2, BlockSizes: []uint64{0, 0}, FileSize: u64p(0)},
				Links: []mlink{{Tsize: i64p(0), Child: node}, {Tsize: i64p(0), Child: node}}}
		}
		fst := NewStore()
		fls := fst.LinkSystem()
		froot, err := node.store(fst, fls)
		if err != nil {
			t.Fatal(err)
		}
		frn, err := loadReified(fls, froot, "unixfs")
		if err != nil {
			t.Fatalf("reify: %v", err)
		}
		fst.ResetLogs()
		fst.LoadBudget = 1 << 20
		p, _ := safe(func() { _, _ = frn.AsBytes() })
		if p != nil {
			fmt.Printf("FINDING property=C13 key=C13-shared-empty-file-panic :: reading a 14-block file of shared empty subtrees panicked: %v\n", p)
		} else if loads := len(fst.ReadLog()); loads > 200*fst.Len() {
			fmt.Printf("FINDING property=C13 key=C13-shared-empty-file-subtrees :: reading a %d-block, zero-length file whose every node links one all-empty child twice took %d block loads (budget 200 x blocks = %d): work grows as 2^blocks\n", fst.Len(), loads, 200*fst.Len())
		}
	}
	// and for files that record no sizes at all (no FileSize, no BlockSizes: the length has to be measured by opening the
	// children): every level links the same dag-pb child twice. Asking such a file for its end measures each child once per
	// path, although nothing is read
	{
		node := &mnode{HasData: true, UFS: &ufsFields{Type: 2, HasData: true, Data: []byte("x")}}
		for level := 0; level < 14; level++ {
			node = &mnode{HasData: true, UFS: &ufsFields{Type: 2}, Links: []mlink{{Child: node}, {Child: node}}}
		}
		ust := NewStore()
		uls := ust.LinkSystem()
		uroot, err := node.store(ust, uls)
		if err != nil {
			t.Fatal(err)
		}
		urn, err := loadReified(uls, uroot, "unixfs")
		if err != nil {
			t.Fatalf("reify: %v", err)
		}
		ust.ResetLogs()
		ust.LoadBudget = 1 << 20
		var end int64
		p, _ := safe(func() {
			rs, err := urn.(datamodel.LargeBytesNode).AsLargeBytes()
			if err == nil {
				end, _ = rs.Seek(0, io.SeekEnd)
			}
		})
		if p != nil {
			fmt.Printf("FINDING property=C13 key=C13-shared-unsized-file-panic :: seeking to the end of a 15-block file of shared subtrees without recorded sizes panicked: %v\n", p)
		} else if loads := len(ust.ReadLog()); loads > 200*ust.Len() {
			fmt.Printf("FINDING property=C13 key=C13-shared-unsized-file-seek :: Seek(0, End) = %d on a %d-block file without recorded sizes whose every node links the same child twice took %d block loads (budget 200 x blocks = %d): work grows as 2^blocks\n", end, ust.Len(), loads, 200*ust.Len())
		}
	}
	// Length() and lookups on a 40-block chain (2^39 paths) must return promptly: they are memoised per shard / follow one path
	st2 := NewStore()
	ls2 := st2.LinkSystem()
	root2, err := sharedChain(40).store(st2, ls2)
	if err != nil {
		t.Fatal(err)
	}
	rn2, err := loadReified(ls2, root2, "unixfs")
	if err != nil {
		t.Fatalf("reify: %v", err)
	}
	done := make(chan string, 1)
	go func() {
		_ = rn2.Length()
		for _, k := range []string{"a", "b", "zz", ""} {
			_, _ = rn2.LookupByString(k)
		}
		_, e := ls2.KnownReifiers["unixfs-preload"](lc0, mustLoad(ls2, root2), ls2)
		done <- fmt.Sprint(e)
	}()
	select {
	case <-done:
	case <-time.After(20 * time.Second):
		fmt.Printf("FINDING property=C13 key=C13-shared-subtree-length :: Length() / lookups / preload of a 40-block sharded directory with shared shards did not return within 20s (they take microseconds when memoised per shard)\n")
	}
	if loads := len(st2.ReadLog()); loads > 200*40 {
		fmt.Printf("FINDING property=C13 key=C13-shared-subtree-loads :: %d block loads for a 40-block DAG\n", loads)
	}
}

func mustLoad(ls *ipld.LinkSystem, c cid.Cid) datamodel.Node {
	n, err := loadPlain(ls, c)
	if err != nil {
		panic(err)
	}
	return n
}

// An empty child shard (well-formed, zero links) below a root that also has value entries: every accessor, the typed
// iterator included, has to get past it.
func TestC13_R_EmptyChildShard(t *testing.T) {
	for _, fan := range []uint64{8, 256} {
		pad := len(fmt.Sprintf("%X", fan-1))
		name := func(bucket int, s string) *string { return strp(fmt.Sprintf("%0*X%s", pad, bucket, s)) }
		for _, pos := range []int{0, 1, 2} { // empty shard first / in the middle / last
			leaf := &mnode{IsRaw: true, Raw: []byte("v")}
			links := []mlink{{Name: name(1, "a.txt"), Tsize: i64p(1), Child: leaf}, {Name: name(6, "b.txt"), Tsize: i64p(1), Child: leaf}}
			empty := mlink{Name: name([]int{0, 3, 7}[pos], ""), Tsize: i64p(1), Child: &mnode{HasData: true, UFS: hamtFields(fan, nil)}}
			links = append(links[:pos], append([]mlink{empty}, links[pos:]...)...)
			bf := make([]byte, fan/8)
			for _, b := range []int{1, 6, []int{0, 3, 7}[pos]} {
				bf[len(bf)-1-b/8] |= 1 << uint(b%8)
			}
			c13MustSurvive(t, fmt.Sprintf("empty child shard (fanout %d, position %d)", fan, pos), &mnode{HasData: true, UFS: hamtFields(fan, bf), Links: links})
		}
	}
}

const c13WideRule = "case = one dag-pb block with 1000..3000 links (at, just over and far over 1024) viewed as a plain directory, a link map without Data, or a node with garbage Data; names sorted or shuffled; at drawn positions - aimed at the middle, the quartiles and the ends, where a bisecting lookup would probe - links are nameless, empty-named or duplicated; all targets absent from the store; " +
	"every node operation runs under recover() and the C13 budgets; violation = panic or budget exceeded; every case non-trivial; distinct by (n, view, sortedness, defect kinds)"

// TestC13_P_WideLinkMaps: hostile input does not have to be deep - one very wide block is enough to reach code that treats
// "many links" differently.
func TestC13_P_WideLinkMaps(t *testing.T) {
	ev := newEvid(t, c13WideRule)
	rapid.Check(t, func(t *rapid.T) {
		n := rapid.SampledFrom([]int{1000, 1023, 1024, 1025, 1026, 1500, 2048, 2049, 3000}).Draw(t, "links")
		view := rapid.SampledFrom([]string{"directory", "no-data", "garbage-data", "symlink"}).Draw(t, "view")
		m := &mnode{}
		switch view {
		case "directory":
			m.HasData, m.UFS = true, &ufsFields{Type: 1}
		case "garbage-data":
			m.HasData, m.Garbage = true, []byte{0xff, 0x01}
		case "symlink":
			m.HasData, m.UFS = true, &ufsFields{Type: 4, HasData: true, Data: []byte("t")}
		}
		for i := 0; i < n; i++ {
			m.Links = append(m.Links, mlink{Name: strp(fmt.Sprintf("n%05d", i)), Tsize: i64p(1), Missing: true})
		}
		probes := []int{0, 1, n/4 - 1, n / 4, n/2 - 1, n / 2, n/2 + 1, 3 * n / 4, n - 2, n - 1, 511, 512, 1023}
		kinds := map[string]bool{}
		for i := rapid.IntRange(1, 4).Draw(t, "defects"); i > 0; i-- {
			at := probes[rapid.IntRange(0, len(probes)-1).Draw(t, "at")]
			if rapid.Bool().Draw(t, "anywhere") {
				at = rapid.IntRange(0, n-1).Draw(t, "atAny")
			}
			if at >= n {
				at = n - 1
			}
			switch k := rapid.SampledFrom([]string{"nameless", "nameless", "empty-name", "duplicate", "no-tsize"}).Draw(t, "defect"); k {
			case "nameless":
				m.Links[at].Name = nil
				kinds[k] = true
			case "empty-name":
				m.Links[at].Name = strp("")
				kinds[k] = true
			case "duplicate":
				m.Links[at].Name = m.Links[(at+1)%n].Name
				kinds[k] = true
			default:
				m.Links[at].Tsize = nil
				kinds[k] = true
			}
		}
		sorted := rapid.Bool().Draw(t, "sorted")
		if !sorted {
			m.Links = rapid.Permutation(m.Links).Draw(t, "order")
		}
		keys := []string{"n00000", fmt.Sprintf("n%05d", n/2), fmt.Sprintf("n%05d", n-1), "n99999", "a", "zzz"}
		xs, p, stack, root, err := c13Run(m, keys...)
		if err != nil {
			t.Fatalf("harness: %v", err)
		}
		if p != nil {
			t.Fatalf("C13: PANIC on a %s block with %d links (%v, sorted=%v) %s: %v\n%s", view, n, keys0(kinds), sorted, root, p, stack)
		}
		if xs.violation != "" {
			t.Fatalf("C13: budget violation on a %s block with %d links (%v): %s", view, n, keys0(kinds), xs.violation)
		}
		ev.Case(fmt.Sprintf("%s n=%d sorted=%v %v", view, n, sorted, keys0(kinds)), true, "view:"+view, fmt.Sprintf("links:%d", n))
		ev.Sample(map[string]any{"view": view, "links": n, "sorted": sorted, "defects": keys0(kinds)})
	})
}

func keys0(m map[string]bool) []string {
	var out []string
	for k := range m {
		out = append(out, k)
	}
	sort.Strings(out)
	return out
}

// F15 (fixed): through a link system that reifies what it loads, a file's child that is a DIRECTORY with an entry named
// "Links" reached the file reader, which took that entry for the protobuf link list.
func TestC13_R_F15_DirectoryChildNamedLinks(t *testing.T) {
	for _, entry := range []string{"Links", "Data", "x"} {
		for _, withBS := range []bool{true, false} {
			leaf := &mnode{IsRaw: true, Raw: []byte("ab")}
			dir := &mnode{HasData: true, UFS: &ufsFields{Type: 1}, Links: []mlink{{Name: strp(entry), Tsize: i64p(2), Child: leaf}}}
			root := &mnode{HasData: true, UFS: &ufsFields{Type: 2, FileSize: u64p(4)}, Links: []mlink{{Tsize: i64p(2), Child: dir}, {Tsize: i64p(2), Child: leaf}}}
			if withBS {
				root.UFS.BlockSizes = []uint64{2, 2}
			}
			c13MustSurvive(t, fmt.Sprintf("file with a directory child holding an entry %q (blocksizes=%v)", entry, withBS), root)
		}
	}
}
