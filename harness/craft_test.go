package harness

import (
	"math/bits"
	"testing"

	"github.com/spaolacci/murmur3"
)

func TestC02_R_CraftedNamesSelfTest(t *testing.T) {
	for _, h := range []uint64{0, 1, 0x5ca1ab1e0ddba113, ^uint64(0), 1 << 63} {
		for s := uint64(0); s < 5; s++ {
			n := craftName(h, s*977)
			if murmur3.Sum64([]byte(n)) != h || len(n) != 16 {
				t.Fatalf("craftName(%x,%d)", h, s)
			}
		}
	}
	for shared := 0; shared <= 64; shared++ {
		g := craftGroup(0xdeadbeefcafef00d, shared, 6, uint64(shared))
		hs := make([]uint64, len(g))
		for i, n := range g {
			hs[i] = murmur3.Sum64([]byte(n))
		}
		for i := range g {
			for j := i + 1; j < len(g); j++ {
				lz := bits.LeadingZeros64(hs[i] ^ hs[j])
				if lz < shared {
					t.Fatalf("shared=%d: names %d and %d share only %d bits", shared, i, j, lz)
				}
				if shared <= 59 && lz >= 60 {
					t.Fatalf("shared=%d: names %d and %d are inseparable (%d shared bits)", shared, i, j, lz)
				}
				if shared <= 59 && i == 0 && j == 1 && lz != shared {
					t.Fatalf("shared=%d: first two names share %d bits", shared, lz)
				}
				if g[i] == g[j] {
					t.Fatalf("shared=%d: duplicate name", shared)
				}
			}
		}
	}
}
