package harness

// C18 - importing a filesystem tree reproduces that tree.

import (
	"bytes"
	"fmt"
	"io"
	"os"
	"path/filepath"
	"sort"
	"strings"
	"syscall"
	"testing"

	pb "github.com/ipfs/boxo/ipld/unixfs/pb"
	"github.com/ipfs/go-cid"
	"github.com/ipfs/go-unixfsnode/data/builder"
	"github.com/ipld/go-ipld-prime"
	"github.com/ipld/go-ipld-prime/datamodel"
	"pgregory.net/rapid"
)

// c18Compare walks the imported DAG through Reify alongside the description of the on-disk tree.
func c18Compare(st *Store, ls *ipld.LinkSystem, c cid.Cid, n *fsNode, path string) error {
	rn, err := loadReified(ls, c, "unixfs")
	if err != nil {
		return fmt.Errorf("%s: %v", path, err)
	}
	switch n.Kind {
	case fsFile:
		if rn.Kind() != datamodel.Kind_Bytes {
			return fmt.Errorf("%s: regular file imported as kind %s", path, rn.Kind())
		}
		b, err := rn.AsBytes()
		if err != nil || !bytes.Equal(b, n.Data) {
			return fmt.Errorf("%s: file reads back %d bytes (err %v), on disk %d bytes", path, len(b), err, len(n.Data))
		}
	case fsSymlink:
		bi, err := st.Decode(c)
		if err != nil {
			return err
		}
		if bi.UFS == nil || bi.UFS.GetType() != pb.Data_Symlink {
			return fmt.Errorf("%s: symlink imported as %v", path, bi.UFS)
		}
		if string(bi.UFS.Data) != n.Target {
			return fmt.Errorf("%s: symlink node carries %q, link target text is %q", path, bi.UFS.Data, n.Target)
		}
		if len(bi.Links) != 0 {
			return fmt.Errorf("%s: symlink node has %d links (target followed?)", path, len(bi.Links))
		}
	case fsDir:
		if rn.Kind() != datamodel.Kind_Map {
			return fmt.Errorf("%s: directory imported as kind %s", path, rn.Kind())
		}
		if rn.Length() != int64(len(n.Kids)) {
			return fmt.Errorf("%s: directory lists %d names, on disk %d", path, rn.Length(), len(n.Kids))
		}
		var got []string
		for it := rn.MapIterator(); !it.Done(); {
			k, v, err := it.Next()
			if err != nil {
				return fmt.Errorf("%s: %v", path, err)
			}
			ks, _ := k.AsString()
			got = append(got, ks)
			kid, ok := n.Kids[ks]
			if !ok {
				return fmt.Errorf("%s: directory lists %q which is not on disk", path, ks)
			}
			kc, err := linkOf(v)
			if err != nil {
				return err
			}
			if err := c18Compare(st, ls, kc, kid, path+"/"+ks); err != nil {
				return err
			}
		}
		sort.Strings(got)
		for i := 1; i < len(got); i++ {
			if got[i] == got[i-1] {
				return fmt.Errorf("%s: directory lists %q twice", path, got[i])
			}
		}
		if len(got) != len(n.Kids) {
			return fmt.Errorf("%s: directory lists %d names, on disk %d", path, len(got), len(n.Kids))
		}
	}
	return nil
}

const c18Rule = "case = on-disk tree (regular files 0..2 KiB and occasionally > 256 KiB, nested / empty directories, symlinks that are relative / absolute / dangling / non-UTF-8, names with spaces, unicode, invalid UTF-8, leading dots, 255-byte names, hash-collision names; sometimes a FIFO; sometimes a ~1150-entry directory crossing the auto-shard threshold) materialised in a fresh temp dir; " +
	"oracle = the in-memory description: directories list exactly the on-disk names, files read back to the on-disk bytes, symlink nodes carry the Readlink text and no links; a tree containing a FIFO must be rejected with an error; " +
	"non-trivial = depth >= 2 with a symlink, an empty directory or a sharded directory, or a rejected tree; distinct by (entities bucket, depth, features)"

func TestC18_P_RecursiveImport(t *testing.T) {
	ev := newEvid(t, c18Rule)
	rapid.Check(t, func(t *rapid.T) {
		allowFifo := rapid.IntRange(0, 9).Draw(t, "fifo") == 0
		root := genFSRootDir(t, 3, allowFifo)
		feats := map[string]bool{}
		if rapid.IntRange(0, scale(60, 25)).Draw(t, "bigfile") == 0 {
			root.Kids["big.bin"] = &fsNode{Kind: fsFile, Data: lcgBytes(rapid.SampledFrom([]int{262144*2 + 17, 262145, 1<<20 - 1, 1 << 20, 1<<20 + 1, 2<<20 + 5}).Draw(t, "bigSize"), 5, 0)}
			feats["file>256KiB"] = true
		}
		if rapid.IntRange(0, scale(80, 30)).Draw(t, "bigdir") == 0 {
			d := &fsNode{Kind: fsDir, Kids: map[string]*fsNode{}}
			n := rapid.SampledFrom([]int{1100, 1160}).Draw(t, "bigdirN")
			for i := 0; i < n; i++ {
				d.Kids[fmt.Sprintf("%04d-%s", i, strings.Repeat("n", 195))] = &fsNode{Kind: fsFile, Data: []byte{byte(i)}}
			}
			// two or three names whose digests share 56..59 bits: the auto-sharded directory (fanout 256) needs its last level
			for _, nm := range craftGroupFS(rapid.Uint64().Draw(t, "deepbase"), rapid.IntRange(56, 59).Draw(t, "deepbits"), rapid.IntRange(2, 3).Draw(t, "deepk")) {
				d.Kids[nm] = &fsNode{Kind: fsFile, Data: []byte(nm[:3])}
			}
			root.Kids["bigdir"] = d
			feats["dir~threshold"] = true
		}
		hasFifo := root.hasKind(fsFifo)
		st := NewStore()
		ls := st.LinkSystem()
		var link datamodel.Link
		var berr, cerr error
		// imports into a store that refuses one write (at open, while writing, at commit; error values incl. ones wrapping
		// io.EOF / fs.ErrNotExist): whatever the importer makes of the failure, if it reports success the DAG it names
		// must still be the tree
		type flaky struct {
			k, kind int
			stage   string
		}
		var flakies []flaky
		if !allowFifo {
			for i := rapid.IntRange(0, 2).Draw(t, "flakyImports"); i > 0; i-- {
				flakies = append(flakies, flaky{rapid.IntRange(1, 14).Draw(t, "flakyAt"), genWriteFaultKind(t), rapid.SampledFrom([]string{"open", "write", "commit"}).Draw(t, "flakyStage")})
			}
		}
		var flakyErr error
		err := withFSTree(root, func(p string) {
			for _, f := range flakies {
				fst := NewStore()
				fst.FaultKind = f.kind
				switch f.stage {
				case "open":
					fst.FailOpenAt = f.k
				case "write":
					fst.FailWriteAt = f.k
				default:
					fst.FailCommitAt = f.k
				}
				fls := fst.LinkSystem()
				var fl datamodel.Link
				var ferr error
				must(t, "BuildUnixFSRecursive into a flaky store", func() { fl, _, ferr = builder.BuildUnixFSRecursive(p, fls) })
				if ferr == nil && flakyErr == nil {
					if fl == nil {
						flakyErr = fmt.Errorf("import with write #%d failing at %s (%s) returned neither a link nor an error", f.k, f.stage, faultKindName(f.kind))
					} else {
						fst.FailOpenAt, fst.FailWriteAt, fst.FailCommitAt = 0, 0, 0
						var ce error
						must(t, "read back flaky import", func() { ce = c18Compare(fst, fls, cidOf(fl), root, "") })
						if ce != nil {
							flakyErr = fmt.Errorf("import with write #%d failing at %s (%s) reported success, but the DAG it returned is not the tree: %v", f.k, f.stage, faultKindName(f.kind), ce)
						}
					}
				}
				feats["flaky-store"] = true
			}
			// the same directory under another spelling of its path (what a shell's tab completion or a config file gives)
			spelled := p + rapid.SampledFrom([]string{"", "", "/", "//", "/.", "/./"}).Draw(t, "rootSpelling")
			if spelled != p {
				feats["root-path-spelling"] = true
			}
			must(t, "BuildUnixFSRecursive", func() { link, _, berr = builder.BuildUnixFSRecursive(spelled, ls) })
			if berr == nil && link != nil {
				must(t, "read back", func() { cerr = c18Compare(st, ls, cidOf(link), root, "") })
			}
			if berr == nil && cerr == nil && link != nil {
				// the same LinkSystem value re-pointed at another store: the second import must land, completely, in that store
				st2 := NewStore()
				ls.StorageWriteOpener, ls.StorageReadOpener = st2.openWrite, st2.openRead
				// ... after one regular file was rewritten in place (same length, modification time restored): the importer
				// must read the tree as it is now
				rewritten := c18RewriteOneFile(root, p)
				var link2 datamodel.Link
				must(t, "second import", func() { link2, _, berr = builder.BuildUnixFSRecursive(p, ls) })
				if berr == nil {
					if link2 == nil || (!rewritten && cidOf(link2) != cidOf(link)) {
						cerr = fmt.Errorf("second import of the same tree returned %v, first %v", link2, link)
					} else {
						must(t, "read back second import", func() { cerr = c18Compare(st2, ls, cidOf(link2), root, "") })
						if cerr != nil {
							cerr = fmt.Errorf("second import into a re-pointed link system: %w", cerr)
						}
					}
				}
			}
		})
		if err != nil {
			t.Fatalf("harness: materialise: %v", err)
		}
		if flakyErr != nil {
			t.Fatalf("C18: %v", flakyErr)
		}
		if hasFifo {
			if berr == nil {
				t.Fatalf("C18: a tree containing a FIFO was imported without error (link %v)", link)
			}
			feats["rejected-fifo"] = true
		} else {
			if berr != nil {
				t.Fatalf("C18: import failed: %v", berr)
			}
			if cerr != nil {
				t.Fatalf("C18: imported DAG differs from the on-disk tree: %v", cerr)
			}
			if d, ok := root.Kids["bigdir"]; ok {
				// the large directory must have been auto-sharded iff its estimate exceeds the threshold
				est := 0
				for name := range d.Kids {
					est += len(name) + 36
				}
				rn, rerr := loadReified(st.LinkSystem(), cidOf(link), "unixfs")
				if rerr != nil {
					t.Fatalf("harness: %v", rerr)
				}
				v, _ := rn.LookupByString("bigdir")
				dc, _ := linkOf(v)
				bi, _ := st.Decode(dc)
				sharded := bi.UFS.GetType() == pb.Data_HAMTShard
				if sharded != (est > shardThreshold) {
					t.Fatalf("C18: directory with estimate %d: sharded=%v", est, sharded)
				}
				feats[fmt.Sprintf("bigdir-sharded:%v", sharded)] = true
			}
		}
		if root.hasKind(fsSymlink) {
			feats["symlink"] = true
		}
		if root.hasEmptyDir() {
			feats["emptydir"] = true
		}
		nt := (root.depth() >= 3 && (feats["symlink"] || feats["emptydir"])) || feats["dir~threshold"] || hasFifo
		cl := []string{fmt.Sprintf("depth:%d", root.depth()), "entities:" + bucket(root.count())}
		for _, f := range keys(feats) {
			cl = append(cl, "has:"+f)
		}
		ev.Case(fmt.Sprintf("n=%s d=%d %v", bucket(root.count()), root.depth(), keys(feats)), nt, cl...)
		ev.Sample(map[string]any{"entities": root.count(), "depth": root.depth(), "features": keys(feats), "top_level_names": fmt.Sprintf("%q", sortedNames(root))})
	})
}

func sortedNames(n *fsNode) []string {
	var out []string
	for k := range n.Kids {
		out = append(out, k)
	}
	sort.Strings(out)
	if len(out) > 10 {
		out = out[:10]
	}
	return out
}

func TestC18_R_Basics(t *testing.T) {
	root := &fsNode{Kind: fsDir, Kids: map[string]*fsNode{
		"empty":  {Kind: fsDir, Kids: map[string]*fsNode{}},
		"f":      {Kind: fsFile, Data: []byte("hello")},
		"zero":   {Kind: fsFile},
		"ln":     {Kind: fsSymlink, Target: "f"},
		"dangle": {Kind: fsSymlink, Target: "/no/such/target"},
		"long1":  {Kind: fsSymlink, Target: strings.Repeat("a/", 512) + "b"}, // 1025 bytes
		"long2":  {Kind: fsSymlink, Target: strings.Repeat("../x/", 819)},    // 4095 bytes: the longest a symlink can hold on Linux
		"lndir":  {Kind: fsSymlink, Target: "sub"},
		"sub":    {Kind: fsDir, Kids: map[string]*fsNode{"c d": {Kind: fsFile, Data: lcgBytes(3000, 1, 0)}, ".h": {Kind: fsSymlink, Target: ".."}}},
	}}
	st := NewStore()
	ls := st.LinkSystem()
	err := withFSTree(root, func(p string) {
		l, _, err := builder.BuildUnixFSRecursive(p, ls)
		if err != nil {
			t.Fatalf("C18 basics: %v", err)
		}
		if err := c18Compare(st, ls, cidOf(l), root, ""); err != nil {
			t.Fatalf("C18 basics: %v", err)
		}
	})
	if err != nil {
		t.Fatal(err)
	}
	// a single file, a single symlink and a FIFO as the import root
	for _, n := range []*fsNode{{Kind: fsFile, Data: []byte("x")}, {Kind: fsSymlink, Target: "t"}} {
		st := NewStore()
		ls := st.LinkSystem()
		_ = withFSTree(n, func(p string) {
			l, _, err := builder.BuildUnixFSRecursive(p, ls)
			if err != nil {
				t.Fatalf("C18 basics: %v", err)
			}
			if err := c18Compare(st, ls, cidOf(l), n, ""); err != nil {
				t.Fatalf("C18 basics: %v", err)
			}
		})
	}
	_ = withFSTree(&fsNode{Kind: fsFifo}, func(p string) {
		if l, _, err := builder.BuildUnixFSRecursive(p, NewStore().LinkSystem()); err == nil {
			t.Fatalf("C18 basics: FIFO imported as %v", l)
		}
	})
}

// An auto-sharded directory (fanout 256) that needs its deepest level: two file names whose digests share 56 and 59 bits.
func TestC18_R_AutoShardedDeepNames(t *testing.T) {
	for _, shared := range []int{56, 59} {
		d := &fsNode{Kind: fsDir, Kids: map[string]*fsNode{}}
		for i := 0; i < 1200; i++ {
			d.Kids[fmt.Sprintf("%04d-%s", i, strings.Repeat("n", 195))] = &fsNode{Kind: fsFile, Data: []byte{byte(i)}}
		}
		deep := craftGroupFS(0x0badc0de0badc0de, shared, 2)
		if len(deep) != 2 {
			t.Fatalf("harness: could not craft filesystem-safe names")
		}
		for _, nm := range deep {
			d.Kids[nm] = &fsNode{Kind: fsFile, Data: []byte("deep")}
		}
		st := NewStore()
		ls := st.LinkSystem()
		err := withFSTree(d, func(p string) {
			l, _, err := builder.BuildUnixFSRecursive(p, ls)
			if err != nil {
				t.Fatalf("C18: importing a large directory with two names sharing %d digest bits: %v", shared, err)
			}
			if err := c18Compare(st, ls, cidOf(l), d, ""); err != nil {
				t.Fatalf("C18 deep names (%d bits): %v", shared, err)
			}
		})
		if err != nil {
			t.Fatal(err)
		}
	}
}

// c18RewriteOneFile flips the bytes of the first non-empty regular file it finds (and of the description, including hard links
// to it), keeping length and modification time.
func c18RewriteOneFile(n *fsNode, p string) bool {
	if n.Kind != fsDir {
		return false
	}
	for _, name := range sortedAll(n) {
		k := n.Kids[name]
		if k.Kind == fsFile && k.LinkTo == "" && len(k.Data) > 0 {
			fp := filepath.Join(p, name)
			info, err := os.Lstat(fp)
			if err != nil {
				return false
			}
			nd := make([]byte, len(k.Data))
			for i, b := range k.Data {
				nd[i] = b ^ 0x5a
			}
			f, err := os.OpenFile(fp, os.O_WRONLY, 0)
			if err != nil {
				return false
			}
			_, werr := f.WriteAt(nd, 0)
			f.Close()
			if werr != nil {
				return false
			}
			_ = os.Chtimes(fp, info.ModTime(), info.ModTime())
			k.Data = nd
			for _, other := range n.Kids {
				if other.LinkTo == name {
					other.Data = nd
				}
			}
			return true
		}
	}
	for _, name := range sortedAll(n) {
		if c18RewriteOneFile(n.Kids[name], filepath.Join(p, name)) {
			return true
		}
	}
	return false
}

func sortedAll(n *fsNode) []string {
	var out []string
	for k := range n.Kids {
		out = append(out, k)
	}
	sort.Strings(out)
	return out
}

// An ordinary large tree (a few thousand small files, symlinks and directories, 120 levels deep in one branch) imported
// while the process may open only a few dozen more descriptors than it already has: the importer is expected to hold one
// file (and at most one directory per level while it lists it) at a time, as it does on the unchanged tree; a change that
// keeps every file open until the end of its directory, or of the import, fails here the way it would on a production tree
// under the usual limit of 1024.
func TestC18_R_ManyFilesFewDescriptors(t *testing.T) {
	root := &fsNode{Kind: fsDir, Kids: map[string]*fsNode{}}
	for d := 0; d < 6; d++ {
		sub := &fsNode{Kind: fsDir, Kids: map[string]*fsNode{}}
		for i := 0; i < 500; i++ {
			switch {
			case i%50 == 7:
				sub.Kids[fmt.Sprintf("l%03d", i)] = &fsNode{Kind: fsSymlink, Target: fmt.Sprintf("f%03d", i-1)}
			case i%100 == 13:
				sub.Kids[fmt.Sprintf("d%03d", i)] = &fsNode{Kind: fsDir, Kids: map[string]*fsNode{"inner": {Kind: fsFile, Data: []byte{byte(i)}}}}
			default:
				sub.Kids[fmt.Sprintf("f%03d", i)] = &fsNode{Kind: fsFile, Data: lcgBytes(i%97, byte(d+1), 0)}
			}
		}
		root.Kids[fmt.Sprintf("sub%d", d)] = sub
	}
	cur := root
	for lvl := 0; lvl < 120; lvl++ {
		next := &fsNode{Kind: fsDir, Kids: map[string]*fsNode{"leaf": {Kind: fsFile, Data: []byte{byte(lvl)}}}}
		cur.Kids["deeper"] = next
		cur = next
	}
	st := NewStore()
	ls := st.LinkSystem()
	err := withFSTree(root, func(p string) {
		fds, err := os.ReadDir("/proc/self/fd")
		if err != nil {
			t.Skipf("harness: cannot count descriptors: %v", err)
		}
		var old syscall.Rlimit
		if err := syscall.Getrlimit(syscall.RLIMIT_NOFILE, &old); err != nil {
			t.Skipf("harness: getrlimit: %v", err)
		}
		maxFd := 0
		for _, e := range fds {
			var n int
			if _, err := fmt.Sscanf(e.Name(), "%d", &n); err == nil && n > maxFd {
				maxFd = n
			}
		}
		low := syscall.Rlimit{Cur: uint64(maxFd + 1 + 48), Max: old.Max}
		if err := syscall.Setrlimit(syscall.RLIMIT_NOFILE, &low); err != nil {
			t.Skipf("harness: setrlimit: %v", err)
		}
		l, _, berr := builder.BuildUnixFSRecursive(p, ls)
		if err := syscall.Setrlimit(syscall.RLIMIT_NOFILE, &old); err != nil {
			t.Fatalf("harness: restoring the descriptor limit: %v", err)
		}
		if berr != nil {
			t.Fatalf("C18: importing a tree of %d entities with room for 48 more open descriptors: %v", root.count(), berr)
		}
		if err := c18Compare(st, ls, cidOf(l), root, ""); err != nil {
			t.Fatalf("C18 many files: %v", err)
		}
	})
	if err != nil {
		t.Fatal(err)
	}
}

// A tree that spans file systems: two freshly made tmpfs are mounted inside it, each holding a file with two names (a hard
// link). Fresh file systems hand out the same inode numbers, so the two files agree in inode number and differ in device
// and content. Skipped where mounting is not permitted.
func TestC18_R_TreeSpanningTwoFileSystems(t *testing.T) {
	base, err := os.MkdirTemp("", "verif-c18-mnt-")
	if err != nil {
		t.Skipf("harness: %v", err)
	}
	defer os.RemoveAll(base)
	rootDir := filepath.Join(base, "root")
	desc := &fsNode{Kind: fsDir, Kids: map[string]*fsNode{"plain.txt": {Kind: fsFile, Data: []byte("on the outer file system")}}}
	if err := os.MkdirAll(rootDir, 0o755); err != nil {
		t.Fatal(err)
	}
	if err := os.WriteFile(filepath.Join(rootDir, "plain.txt"), desc.Kids["plain.txt"].Data, 0o644); err != nil {
		t.Fatal(err)
	}
	var mounted []string
	defer func() {
		for _, m := range mounted {
			_ = syscall.Unmount(m, syscall.MNT_DETACH)
		}
	}()
	inodes := map[string]uint64{}
	for i, name := range []string{"vol-a", "vol-b"} {
		mp := filepath.Join(rootDir, name)
		if err := os.Mkdir(mp, 0o755); err != nil {
			t.Fatal(err)
		}
		if err := syscall.Mount("tmpfs", mp, "tmpfs", 0, "size=4m"); err != nil {
			t.Skipf("harness: mounting a tmpfs is not permitted here: %v", err)
		}
		mounted = append(mounted, mp)
		content := lcgBytes(300000+i, byte(50+i), 0) // more than one chunk, different per volume
		if err := os.WriteFile(filepath.Join(mp, "data.bin"), content, 0o644); err != nil {
			t.Fatal(err)
		}
		if err := os.Link(filepath.Join(mp, "data.bin"), filepath.Join(mp, "same-data.bin")); err != nil {
			t.Fatal(err)
		}
		var stt syscall.Stat_t
		if err := syscall.Stat(filepath.Join(mp, "data.bin"), &stt); err == nil {
			inodes[name] = stt.Ino
		}
		desc.Kids[name] = &fsNode{Kind: fsDir, Kids: map[string]*fsNode{
			"data.bin":      {Kind: fsFile, Data: content},
			"same-data.bin": {Kind: fsFile, Data: content},
		}}
	}
	st := NewStore()
	ls := st.LinkSystem()
	l, _, err := builder.BuildUnixFSRecursive(rootDir, ls)
	if err != nil {
		t.Fatalf("C18: importing a tree that spans two mounted file systems: %v", err)
	}
	if err := c18Compare(st, ls, cidOf(l), desc, ""); err != nil {
		t.Fatalf("C18: tree spanning two file systems (hard-linked files with inode numbers %v): %v", inodes, err)
	}
}

// Symbolic links on file systems that do not report the length of the target as the link's size: procfs reports 64 for
// /proc/<pid>/fd/N and 0 for cwd / exe / root whatever the target is. The symlink node carries the whole target text.
func TestC18_R_SymlinksOnProcfs(t *testing.T) {
	if _, err := os.Lstat("/proc/self/fd"); err != nil {
		t.Skip("no procfs here")
	}
	base := t.TempDir()
	deep := base
	for i := 0; i < 12; i++ {
		deep = filepath.Join(deep, fmt.Sprintf("level-%02d-%s", i, strings.Repeat("d", 20)))
	}
	if err := os.MkdirAll(deep, 0o755); err != nil {
		t.Fatal(err)
	}
	var links []string
	for _, name := range []string{"f", strings.Repeat("n", 200)} {
		f, err := os.Create(filepath.Join(deep, name))
		if err != nil {
			t.Fatal(err)
		}
		defer f.Close()
		links = append(links, fmt.Sprintf("/proc/self/fd/%d", f.Fd()))
	}
	d, err := os.Open(deep)
	if err != nil {
		t.Fatal(err)
	}
	defer d.Close()
	links = append(links, fmt.Sprintf("/proc/self/fd/%d", d.Fd()), "/proc/self/exe", "/proc/self/root", "/proc/self/cwd")
	long := 0
	for _, p := range links {
		fi, err := os.Lstat(p)
		if err != nil || fi.Mode()&os.ModeSymlink == 0 {
			continue
		}
		target, err := os.Readlink(p)
		if err != nil {
			continue
		}
		st := NewStore()
		l, _, err := builder.BuildUnixFSRecursive(p, st.LinkSystem())
		if err != nil {
			t.Fatalf("C18: import of the symbolic link %s (-> %d bytes of target, reported size %d): %v", p, len(target), fi.Size(), err)
		}
		bi, err := st.Decode(cidOf(l))
		if err != nil {
			t.Fatal(err)
		}
		if bi.UFS == nil || bi.UFS.GetType() != pb.Data_Symlink || len(bi.Links) != 0 {
			t.Fatalf("C18: symbolic link %s imported as %v with %d links", p, bi.UFS, len(bi.Links))
		}
		if string(bi.UFS.Data) != target {
			t.Fatalf("C18: symbolic link %s (file system reports size %d): the node carries %d bytes %q, the link target text has %d bytes %q", p, fi.Size(), len(bi.UFS.Data), bi.UFS.Data, len(target), target)
		}
		if int64(len(target)) > fi.Size() && len(target) > 129 {
			long++
		}
	}
	if long == 0 {
		t.Log("no link with a long target and an under-reported size could be made here")
	}
}

// Regular files whose reported size is not what reading them delivers: sysfs attributes report 4096 for a few bytes, procfs
// files report 0 for any amount. The imported file reads back to the bytes that reading the on-disk file delivers.
func TestC18_R_FilesWhoseSizeIsMisreported(t *testing.T) {
	cands := []string{"/sys/devices/system/cpu/online", "/sys/devices/system/cpu/possible", "/sys/kernel/mm/transparent_hugepage/enabled", "/proc/filesystems", "/proc/devices", "/proc/kallsyms"}
	if m, _ := filepath.Glob("/sys/block/*/size"); len(m) > 0 {
		cands = append(cands, m[0])
	}
	used := 0
	for _, p := range cands {
		fi, err := os.Lstat(p)
		if err != nil || !fi.Mode().IsRegular() {
			continue
		}
		before, err := os.ReadFile(p)
		if err != nil {
			continue
		}
		st := NewStore()
		l, _, ierr := builder.BuildUnixFSRecursive(p, st.LinkSystem())
		after, err := os.ReadFile(p)
		if err != nil || !bytes.Equal(before, after) {
			continue // it changed meanwhile
		}
		if ierr != nil {
			t.Fatalf("C18: import of the regular file %s (%d bytes of content, reported size %d): %v", p, len(before), fi.Size(), ierr)
		}
		rn, err := c01Open(st, cidOf(l), "Reify")
		if err != nil {
			t.Fatal(err)
		}
		got, err := rn.AsBytes()
		if err != nil || !bytes.Equal(got, before) {
			t.Fatalf("C18: %s (%d bytes of content, reported size %d) imported and read back: %d bytes (err %v); first difference at %d", p, len(before), fi.Size(), len(got), err, firstDiff(got, before))
		}
		if fi.Size() != int64(len(before)) {
			used++
		}
	}
	if used == 0 {
		t.Log("no readable file with a misreported size here")
	}
	// a regular file whose content cannot be read (the read fails half way or at once: a failing disk, a network mount
	// gone away; procfs has files that behave like that): the import fails, it does not store what was read so far
	for _, p := range []string{"/proc/self/mem", "/proc/self/clear_refs", "/proc/self/attr/exec"} {
		fi, err := os.Lstat(p)
		if err != nil || !fi.Mode().IsRegular() {
			continue
		}
		f, err := os.Open(p)
		if err != nil {
			continue
		}
		_, rerr := io.ReadAll(f)
		f.Close()
		if rerr == nil {
			continue
		}
		var l datamodel.Link
		var ierr error
		must(t, "import of an unreadable file", func() { l, _, ierr = builder.BuildUnixFSRecursive(p, NewStore().LinkSystem()) })
		if ierr == nil {
			t.Fatalf("C18: import of %s, whose content cannot be read (read error: %v), returned the link %v and no error", p, rerr, l)
		}
	}
}

// The descriptor table is full at the moment the importer wants to list a directory (another part of the program holds
// them all): the import fails, it does not return a tree with that directory empty.
func TestC18_R_DirectoryCannotBeListed(t *testing.T) {
	root := &fsNode{Kind: fsDir, Kids: map[string]*fsNode{
		"a.txt": {Kind: fsFile, Data: []byte("alpha")},
		"sub":   {Kind: fsDir, Kids: map[string]*fsNode{"b.txt": {Kind: fsFile, Data: []byte("beta")}, "c": {Kind: fsFile, Data: nil}}},
	}}
	err := withFSTree(root, func(p string) {
		var old syscall.Rlimit
		if err := syscall.Getrlimit(syscall.RLIMIT_NOFILE, &old); err != nil {
			t.Skip("no descriptor limit to set here")
		}
		lim := old
		lim.Cur = 64
		if err := syscall.Setrlimit(syscall.RLIMIT_NOFILE, &lim); err != nil {
			t.Skip("cannot lower the descriptor limit")
		}
		var held []*os.File
		for {
			f, err := os.Open("/dev/null")
			if err != nil {
				break
			}
			held = append(held, f)
		}
		st := NewStore()
		ls := st.LinkSystem()
		var l datamodel.Link
		var ierr error
		must(t, "import with a full descriptor table", func() { l, _, ierr = builder.BuildUnixFSRecursive(p, ls) })
		for _, f := range held {
			f.Close()
		}
		_ = syscall.Setrlimit(syscall.RLIMIT_NOFILE, &old)
		if len(held) == 0 {
			t.Skip("could not fill the descriptor table")
		}
		if ierr != nil {
			return // refused: fine
		}
		if err := c18Compare(st, ls, cidOf(l), root, "/"); err != nil {
			t.Fatalf("C18: import while no descriptor was free (%d held elsewhere) returned a link and no error, but the tree is not the one on disk: %v", len(held), err)
		}
	})
	if err != nil {
		t.Fatal(err)
	}
}
