package harness

// C10 - building is deterministic, independent of entry order and of read fragmentation (metamorphic).

import (
	"bytes"
	"fmt"
	quickbuilder "github.com/ipfs/go-unixfsnode/data/builder/quick"
	"github.com/ipld/go-ipld-prime/datamodel"
	mh "github.com/multiformats/go-multihash"
	"io"
	"os"
	"sort"
	"strings"
	"sync"
	"testing"
	"testing/iotest"

	"github.com/ipfs/go-cid"
	"github.com/ipfs/go-unixfsnode/testutil"
	"pgregory.net/rapid"
)

// patternReader delivers the underlying bytes in fragments whose sizes cycle through a drawn pattern.
type patternReader struct {
	r       io.Reader
	pattern []int
	i       int
}

func (p *patternReader) Read(b []byte) (int, error) {
	k := p.pattern[p.i%len(p.pattern)]
	p.i++
	if k < len(b) {
		b = b[:k]
	}
	return p.r.Read(b)
}

// seekPatternReader is a seekable source that hands its bytes out in short reads (an HTTP range reader, a file on a
// network mount): seeking is passed through, reads are fragmented by the pattern.
type seekPatternReader struct {
	rs      io.ReadSeeker
	pattern []int
	i       int
}

func (p *seekPatternReader) Read(b []byte) (int, error) {
	k := p.pattern[p.i%len(p.pattern)]
	p.i++
	if k < len(b) {
		b = b[:k]
	}
	return p.rs.Read(b)
}
func (p *seekPatternReader) Seek(off int64, whence int) (int64, error) { return p.rs.Seek(off, whence) }

// lenPatternReader is an in-memory source of known remaining length (it has Len(), as bytes.Reader, bytes.Buffer and
// strings.Reader have) that still delivers its bytes in fragments - a segmented buffer.
type lenPatternReader struct {
	b       []byte
	pattern []int
	i       int
}

func (p *lenPatternReader) Len() int    { return len(p.b) }
func (p *lenPatternReader) Size() int64 { return int64(len(p.b)) }
func (p *lenPatternReader) Read(b []byte) (int, error) {
	if len(p.b) == 0 {
		return 0, io.EOF
	}
	k := p.pattern[p.i%len(p.pattern)]
	p.i++
	if k < len(b) {
		b = b[:k]
	}
	n := copy(b, p.b)
	p.b = p.b[n:]
	return n, nil
}

func blockSetKey(st *Store) string {
	var ks []string
	for c, b := range st.Blocks {
		ks = append(ks, fmt.Sprintf("%s:%d", c, len(b)))
	}
	sort.Strings(ks)
	return fph(fmt.Sprint(ks))
}

type buildResult struct {
	root   cid.Cid
	size   uint64
	blocks string
	nblk   int
}

const c10Rule = "case = one logical input (file content x chunker x width, or a set of distinctly named entries x fanout) built 3-5 times into fresh stores: identical call, entries in a drawn permutation, source reader fragmented (drawn fragment pattern, OneByteReader, HalfReader, DataErrReader), quick builder from a Go map; " +
	"oracle (metamorphic) = all (link, size) tuples are identical; non-trivial = directory with >= 2 child shards and a non-identity permutation, or file with >= 2 chunks and a fragment size below the chunk size; distinct by (builder, size bucket, variant set)"

func TestC10_P_Deterministic(t *testing.T) {
	ev := newEvid(t, c10Rule)
	maxLen := scale(2048, 32768)
	maxN := scale(200, 2000)
	rapid.Check(t, func(t *rapid.T) {
		kind := rapid.SampledFrom([]string{"file", "file", "file", "sharded", "sharded", "sharded", "plain", "plain", "quick", "quick", "threshold", "sharded-otherhash"}).Draw(t, "kind")
		var results []buildResult
		var variants []string
		run := func(variant string, f func(st *Store) (cid.Cid, uint64, error)) {
			st := NewStore()
			var c cid.Cid
			var sz uint64
			var err error
			must(t, kind+" build ("+variant+")", func() { c, sz, err = f(st) })
			if err != nil {
				t.Fatalf("C10 %s build (%s): %v", kind, variant, err)
			}
			results = append(results, buildResult{c, sz, blockSetKey(st), st.Len()})
			variants = append(variants, variant)
		}
		nt := false
		fp := ""
		if kind == "file" {
			w := genWidth(t)
			ck := genChunker(t)
			content := genContent(t, ck, w, maxLen)
			run("plain", func(st *Store) (cid.Cid, uint64, error) { return buildFile(st, content, ck.Name, w) })
			if rapid.IntRange(0, 2).Draw(t, "failedBetween") == 0 {
				must(t, "intervening failed builds", func() { ev.Count("failed-builds-between:"+bucket(len(failedBuilds(t))), 1) })
			}
			run("again", func(st *Store) (cid.Cid, uint64, error) { return buildFile(st, content, ck.Name, w) })
			pattern := rapid.SliceOfN(rapid.IntRange(1, 70), 1, 8).Draw(t, "fragments")
			run(fmt.Sprintf("fragments%v", pattern), func(st *Store) (cid.Cid, uint64, error) {
				return buildFileR(st.LinkSystem(), &patternReader{r: bytes.NewReader(content), pattern: pattern}, ck.Name, w)
			})
			run(fmt.Sprintf("len-fragments%v", pattern), func(st *Store) (cid.Cid, uint64, error) {
				return buildFileR(st.LinkSystem(), &lenPatternReader{b: append([]byte{}, content...), pattern: pattern}, ck.Name, w)
			})
			run(fmt.Sprintf("seekable-fragments%v", pattern), func(st *Store) (cid.Cid, uint64, error) {
				return buildFileR(st.LinkSystem(), &seekPatternReader{rs: bytes.NewReader(content), pattern: pattern}, ck.Name, w)
			})
			// the default chunker (the names "" and "default") must not care either how - or by what kind of reader - its
			// bytes are delivered; these files are a single chunk
			{
				dname := rapid.SampledFrom([]string{"", "default"}).Draw(t, "defaultChunkerName")
				var first cid.Cid
				var firstSize uint64
				for i, src := range []func() io.Reader{
					func() io.Reader { return bytes.NewReader(content) },
					func() io.Reader { return &patternReader{r: bytes.NewReader(content), pattern: pattern} },
					func() io.Reader { return &seekPatternReader{rs: bytes.NewReader(content), pattern: pattern} },
					func() io.Reader { return iotest.OneByteReader(bytes.NewReader(content)) },
					func() io.Reader { return &lenPatternReader{b: append([]byte{}, content...), pattern: pattern} },
				} {
					var c cid.Cid
					var sz uint64
					var err error
					must(t, "default chunker build", func() { c, sz, err = buildFileR(NewStore().LinkSystem(), src(), dname, w) })
					if err != nil {
						t.Fatalf("C10 file: default chunker %q, source #%d: %v", dname, i, err)
					}
					if i == 0 {
						first, firstSize = c, sz
					} else if c != first || sz != firstSize {
						t.Fatalf("C10 file: %d bytes with the default chunker (%q): source #%d (0 bytes.Reader, 1 fragmenting %v, 2 seekable + fragmenting, 3 one byte at a time, 4 fragmenting with Len()) gave %s/%d, the plain reader %s/%d", len(content), dname, i, pattern, c, sz, first, firstSize)
					}
				}
			}
			wrap := rapid.SampledFrom([]string{"OneByteReader", "HalfReader", "DataErrReader"}).Draw(t, "iotest")
			run(wrap, func(st *Store) (cid.Cid, uint64, error) {
				var r io.Reader = bytes.NewReader(content)
				switch wrap {
				case "OneByteReader":
					r = iotest.OneByteReader(r)
				case "HalfReader":
					r = iotest.HalfReader(r)
				default:
					r = iotest.DataErrReader(r)
				}
				return buildFileR(st.LinkSystem(), r, ck.Name, w)
			})
			// the same bytes delivered by seekable readers that stand somewhere in the middle of a larger stream (the caller
			// has consumed a header): what is built is what the reader still has to give
			hdr := rapid.IntRange(1, 64).Draw(t, "headerLen")
			whole := append(lcgBytes(hdr, 99, 0), content...)
			run("section-reader-after-header", func(st *Store) (cid.Cid, uint64, error) {
				sr := io.NewSectionReader(bytes.NewReader(whole), 0, int64(len(whole)))
				_, _ = io.CopyN(io.Discard, sr, int64(hdr))
				return buildFileR(st.LinkSystem(), sr, ck.Name, w)
			})
			if rapid.IntRange(0, 3).Draw(t, "osFile") == 0 {
				run("os.File-after-header", func(st *Store) (cid.Cid, uint64, error) {
					f, err := os.CreateTemp("", "verif-c10-")
					if err != nil {
						return cid.Undef, 0, err
					}
					defer func() { f.Close(); os.Remove(f.Name()) }()
					if _, err := f.Write(whole); err != nil {
						return cid.Undef, 0, err
					}
					if _, err := f.Seek(int64(hdr), io.SeekStart); err != nil {
						return cid.Undef, 0, err
					}
					return buildFileR(st.LinkSystem(), f, ck.Name, w)
				})
			}
			minFrag := pattern[0]
			for _, p := range pattern {
				if p < minFrag {
					minFrag = p
				}
			}
			chunks := results[0].nblk
			nt = chunks >= 3 && (ck.CS == 0 || minFrag < ck.CS)
			fp = fmt.Sprintf("file %s w=%d blocks=%s %s", ck.Class, w, bucket(chunks), wrap)
		} else {
			var es []entrySpec
			fanout := genFanout(t)
			salt := rapid.IntRange(0, 50).Draw(t, "salt")
			if kind == "threshold" {
				// ~1150 entries of mixed link lengths whose size estimate sits exactly at the auto-shard threshold -1/0/+1:
				// the plain-vs-sharded decision must not depend on the order of the entries
				if d := rapid.IntRange(-1, 2).Draw(t, "delta"); d == 2 {
					es = c02ThresholdPlus(salt, rapid.IntRange(1, 3).Draw(t, "extra")) // a prefix sums to exactly the threshold
				} else {
					es = c02ThresholdSet(shardThreshold+d, salt)
				}
				kind = rapid.SampledFrom([]string{"plain", "quick"}).Draw(t, "thrBuilder")
			} else {
				names, _ := genNames(t, nameOpts{Max: maxN})
				es = make([]entrySpec, len(names))
				for i, n := range names {
					es[i] = entryFor(n, salt)
				}
			}
			how := kind
			build := func(order []entrySpec) func(st *Store) (cid.Cid, uint64, error) {
				return func(st *Store) (cid.Cid, uint64, error) { return c02Build(st, order, how, fanout) }
			}
			if kind == "sharded-otherhash" {
				// the sharded builder takes the name-hash function as a parameter: any registered multihash with >= 8 digest bytes
				hasher := rapid.SampledFrom([]uint64{mh.SHA2_256, mh.SHA2_512, mh.SHA3_256, mh.BLAKE2B_MIN + 31}).Draw(t, "hasher")
				if len(es) > 60 {
					es = es[:60] // (names crafted for murmur3 do not collide under other functions; keep it small)
				}
				build = func(order []entrySpec) func(st *Store) (cid.Cid, uint64, error) {
					return func(st *Store) (cid.Cid, uint64, error) { return buildShardedHasher(st, order, fanout, hasher) }
				}
			}
			run("sorted", build(es))
			switch rapid.IntRange(0, 5).Draw(t, "intervene") {
			case 0, 1:
				must(t, "intervening builds", func() { otherBuilds(salt) }) // another name-hash function, other fanouts
			case 2, 3:
				must(t, "intervening failed builds", func() { ev.Count("failed-builds-between:"+bucket(len(failedBuilds(t))), 1) })
			}
			run("again", build(es))
			perm := rapid.Permutation(es).Draw(t, "perm")
			identity := true
			for i := range perm {
				if perm[i].Name != es[i].Name {
					identity = false
				}
			}
			run("permuted", build(perm))
			rev := make([]entrySpec, len(es))
			for i := range es {
				rev[len(es)-1-i] = es[i]
			}
			run("reversed", build(rev))
			if kind == "plain" {
				// the quick builder over the same entries must give the same directory as the plain builder
				run("quick-builder", func(st *Store) (cid.Cid, uint64, error) { return c02Build(st, es, "quick", fanout) })
			}
			nt = (!strings.HasPrefix(kind, "sharded") && len(es) >= 2 && !identity) || (strings.HasPrefix(kind, "sharded") && results[0].nblk >= 3 && !identity)
			fp = fmt.Sprintf("%s f=%d n=%s blocks=%s id=%v", kind, fanout, bucket(len(es)), bucket(results[0].nblk), identity)
		}
		for i := 1; i < len(results); i++ {
			if results[i].root != results[0].root || results[i].size != results[0].size {
				t.Fatalf("C10 %s: build %q returned %s/%d but build %q returned %s/%d", kind, variants[i], results[i].root, results[i].size, variants[0], results[0].root, results[0].size)
			}
			if results[i].blocks != results[0].blocks {
				// not part of the verdict (the statement is about the returned link and size); recorded for the evidence
				ev.Count("block-set-differs-with-equal-link", 1)
			}
		}
		ev.Case(fp, nt, "kind:"+kind, fmt.Sprintf("builds:%d", len(results)), "blocks:"+bucket(results[0].nblk))
		ev.Sample(map[string]any{"kind": kind, "variants": variants, "root": results[0].root.String(), "size": results[0].size, "blocks": results[0].nblk})
	})
}

// Map-order schedules: the sharded builder iterates a Go map while serialising; repeat one deep build many times.
func TestC10_P_RepeatedShardedBuild(t *testing.T) {
	ev := newEvid(t, "one fixed sharded directory (300 entries incl. collision clusters, fanout 16) and one quick-builder map are built repeatedly (Go randomises map iteration order per build); all results must be identical; every build is non-trivial; distinct by build index")
	var es []entrySpec
	for i := 0; i < 10; i++ {
		for _, n := range collisions.Clusters[i] {
			es = append(es, entryFor(n, 3))
		}
	}
	for i := 0; len(es) < 300; i++ {
		es = append(es, entryFor(fmt.Sprintf("e-%d", i), 3))
	}
	var first, firstQ buildResult
	n := scale(60, 400)
	for i := 0; i < n; i++ {
		st := NewStore()
		c, sz, err := buildSharded(st, es, 16)
		if err != nil {
			t.Fatal(err)
		}
		r := buildResult{c, sz, blockSetKey(st), st.Len()}
		stq := NewStore()
		cq, szq, err := c02Build(stq, es, "quick", 16)
		if err != nil {
			t.Fatal(err)
		}
		rq := buildResult{cq, szq, blockSetKey(stq), stq.Len()}
		if i == 0 {
			first, firstQ = r, rq
		} else if r.root != first.root || r.size != first.size || rq.root != firstQ.root || rq.size != firstQ.size {
			t.Fatalf("C10: repeated build #%d differs: sharded %v vs %v; quick %v vs %v", i, r, first, rq, firstQ)
		}
		ev.Case(fmt.Sprintf("repeat-%d", i), true, "repeat")
	}
	ev.Sample(map[string]any{"entries": len(es), "fanout": 16, "builds": n, "root": first.root.String(), "blocks": first.nblk})
}

// Builds interleaved with builds of other inputs (other fanouts, widths, kinds) in one process: the result for an input must
// not depend on what was built before it. Runs first thing in a fresh process, narrow fanouts before and after wide ones.
func TestC10_R_InterveningBuilds(t *testing.T) {
	var es []entrySpec
	for i := 0; i < 40; i++ {
		es = append(es, entryFor(fmt.Sprintf("n-%d", i), 1))
	}
	for _, n := range collisions.Clusters[0] {
		es = append(es, entryFor(n, 1))
	}
	content := lcgBytes(700, 3, 0)
	type key struct {
		kind string
		f    int
	}
	first := map[key]buildResult{}
	order := []int{8, 16, 1024, 8, 256, 16, 64, 512, 32, 8, 128, 1024, 16, 256}
	for round, f := range order {
		if round%3 == 1 {
			otherBuilds(round) // sharded builds with sha2-256 as the name hash in between
		}
		st := NewStore()
		c, sz, err := buildSharded(st, es, f)
		if err != nil {
			t.Fatal(err)
		}
		r := buildResult{c, sz, blockSetKey(st), st.Len()}
		if prev, ok := first[key{"sharded", f}]; ok && (prev.root != r.root || prev.size != r.size) {
			t.Fatalf("C10: sharded build at fanout %d (round %d, after builds at other fanouts) returned %s/%d, the first build at that fanout returned %s/%d", f, round, r.root, r.size, prev.root, prev.size)
		}
		first[key{"sharded", f}] = r
		// a file build at a width derived from the round, and a plain / quick directory, in between
		w := 2 + round%4
		stf := NewStore()
		fc, fsz, err := buildFile(stf, content, "size-7", w)
		if err != nil {
			t.Fatal(err)
		}
		rf := buildResult{fc, fsz, blockSetKey(stf), stf.Len()}
		if prev, ok := first[key{"file", w}]; ok && (prev.root != rf.root || prev.size != rf.size) {
			t.Fatalf("C10: file build at width %d (round %d) returned %s/%d, first time %s/%d", w, round, rf.root, rf.size, prev.root, prev.size)
		}
		first[key{"file", w}] = rf
		for _, how := range []string{"plain", "quick"} {
			std := NewStore()
			dc, dsz, err := c02Build(std, es[:10+round], how, 256)
			if err != nil {
				t.Fatal(err)
			}
			rd := buildResult{dc, dsz, blockSetKey(std), std.Len()}
			k := key{how, 10 + round}
			if prev, ok := first[k]; ok && (prev.root != rd.root || prev.size != rd.size) {
				t.Fatalf("C10: %s directory build differs between rounds", how)
			}
			first[k] = rd
		}
	}
	// and the plain and quick builders agree with each other
	for round := range order {
		if a, b := first[key{"plain", 10 + round}], first[key{"quick", 10 + round}]; a.root != b.root || a.size != b.size {
			t.Fatalf("C10: plain and quick builder disagree on %d entries", 10+round)
		}
	}
}

// errSizeNode is a caller-implemented quickbuilder.Node whose Size() fails (the interface allows it).
type errSizeNode struct{ l datamodel.Link }

func (n errSizeNode) Link() datamodel.Link { return n.l }
func (n errSizeNode) Size() (int64, error) { return 0, fmt.Errorf("size unknown") }

// The quick builder takes its entries as a Go map: whatever it does with an entry whose Size() fails, the directory it
// builds from the same map must be the same every time.
func TestC10_R_QuickBuilderWithFailingSize(t *testing.T) {
	var first cid.Cid
	var firstSize int64
	for run := 0; run < 80; run++ {
		st := NewStore()
		var got cid.Cid
		var gsz int64
		err := quickbuilder.Store(st.LinkSystem(), func(b *quickbuilder.Builder) error {
			m := map[string]quickbuilder.Node{}
			for i := 0; i < 6; i++ {
				m[fmt.Sprintf("file-%d", i)] = b.NewBytesFile(lcgBytes(10+i*100, byte(i), 0))
			}
			m["unsized"] = errSizeNode{cidLink(sumRaw([]byte("somewhere else")))}
			d := b.NewMapDirectory(m)
			if d == nil {
				return fmt.Errorf("NewMapDirectory returned nil")
			}
			got = cidOf(d.Link())
			gsz, _ = d.Size()
			return nil
		})
		if err != nil {
			t.Fatalf("C10 quick builder: %v", err)
		}
		if run == 0 {
			first, firstSize = got, gsz
		} else if got != first || gsz != firstSize {
			t.Fatalf("C10: the quick builder built the same map (one entry's Size() fails) as %s / %d in run %d and as %s / %d in run 0", got, gsz, run, first, firstSize)
		}
	}
}

// lazyDirNode is a caller-implemented quickbuilder.Node that only builds its (sub-)directory, through the Builder it was
// given, when it is first asked for its link or size - i.e. while the enclosing NewMapDirectory is collecting its entries.
type lazyDirNode struct {
	b     *quickbuilder.Builder
	m     map[string]quickbuilder.Node
	built quickbuilder.Node
}

func (n *lazyDirNode) build() quickbuilder.Node {
	if n.built == nil {
		n.built = n.b.NewMapDirectory(n.m)
	}
	return n.built
}
func (n *lazyDirNode) Link() datamodel.Link { return n.build().Link() }
func (n *lazyDirNode) Size() (int64, error) { return n.build().Size() }

// A quick-builder directory one of whose entries is a lazily built sub-directory (built through the same Builder from
// inside the enclosing NewMapDirectory call): the same nested map must give the same link and size on every run, and the
// link the plain builder gives for the same entries.
func TestC10_R_QuickBuilderLazySubdirectory(t *testing.T) {
	var first cid.Cid
	var firstSize int64
	for run := 0; run < 80; run++ {
		st := NewStore()
		var got cid.Cid
		var gsz int64
		var wantRoot cid.Cid
		err := quickbuilder.Store(st.LinkSystem(), func(b *quickbuilder.Builder) error {
			inner := map[string]quickbuilder.Node{}
			for i := 0; i < 4; i++ {
				inner[fmt.Sprintf("inner-%d", i)] = b.NewBytesFile(lcgBytes(5+i*30, byte(40+i), 0))
			}
			m := map[string]quickbuilder.Node{}
			var es []entrySpec
			for i := 0; i < 7; i++ {
				f := b.NewBytesFile(lcgBytes(10+i*100, byte(i), 0))
				m[fmt.Sprintf("file-%d", i)] = f
				sz, _ := f.Size()
				es = append(es, entrySpec{fmt.Sprintf("file-%d", i), cidOf(f.Link()), uint64(sz)})
			}
			eager := b.NewMapDirectory(inner)
			esz, _ := eager.Size()
			es = append(es, entrySpec{"lazy-sub", cidOf(eager.Link()), uint64(esz)})
			m["lazy-sub"] = &lazyDirNode{b: b, m: inner}
			d := b.NewMapDirectory(m)
			if d == nil {
				return fmt.Errorf("NewMapDirectory returned nil")
			}
			got = cidOf(d.Link())
			gsz, _ = d.Size()
			var werr error
			wantRoot, _, werr = buildDir(NewStore(), es)
			return werr
		})
		if err != nil {
			t.Fatalf("C10 quick builder: %v", err)
		}
		if got != wantRoot {
			t.Fatalf("C10: run %d: the quick builder built a map with a lazily built sub-directory as %s, the plain builder builds the same entries as %s", run, got, wantRoot)
		}
		if run == 0 {
			first, firstSize = got, gsz
		} else if got != first || gsz != firstSize {
			t.Fatalf("C10: the quick builder built the same nested map as %s / %d in run %d and as %s / %d in run 0", got, gsz, run, first, firstSize)
		}
	}
}

// F21 (fixed): the identity "hash" from the multihash registry hands out its internal buffer from Sum(nil); the sharded
// builder kept that slice per entry, so earlier entries' digests were overwritten by later names and the outcome (a
// directory, or "too deep") depended on the order of the entries.
func TestC10_R_F21_IdentityHasher(t *testing.T) {
	outcome := func(names []string) string {
		es := make([]entrySpec, len(names))
		for i, n := range names {
			es[i] = entryForKind(n, 1, 0)
		}
		c, sz, err := buildShardedHasher(NewStore(), es, 256, mh.IDENTITY)
		if err != nil {
			return "error"
		}
		return fmt.Sprintf("%s/%d", c, sz)
	}
	sets := [][]string{
		{"short-name", strings.Repeat("L", 200)},
		{"aaaaaaaaaaaa", "bbbbbbbbbbbb"},
		{"alpha-000001", "bravo-000002", "charlie-0003", "delta-000004", "echo-0000005", "alpha-100001"},
		// digests of different lengths (the identity digest IS the name), short ones before and after long ones that share
		// a prefix longer than the short ones
		{"a.txt", "notes-1.md", "notes-2.md", "b", "notes-10.md"},
		{"zz", "chapter-one-draft.txt", "chapter-one-final.txt", "y"},
	}
	for _, names := range sets {
		first := outcome(names)
		rev := make([]string, len(names))
		for i := range names {
			rev[len(names)-1-i] = names[i]
		}
		rot := append(append([]string{}, names[1:]...), names[0])
		rot2 := append(append([]string{}, names[2:]...), names[:2]...)
		sorted := append([]string{}, names...)
		sort.Strings(sorted)
		for _, other := range [][]string{rev, rot, rot2, sorted, names} {
			if got := outcome(other); got != first {
				t.Fatalf("C10: sharded build with the identity name hash: entries %q gave %s, the same entries as %q gave %s", names, first, other, got)
			}
		}
	}
	if outcome(sets[1]) == "error" {
		t.Fatalf("C10: two 12-byte names that differ in their first byte could not be placed under the identity name hash")
	}
}

// The fixture file builder is a builder too: the file it makes from a random source is a function of the bytes that source
// delivers, not of how many of them each Read call hands over.
func TestC10_R_FixtureFileUnderFragmentedRandomSource(t *testing.T) {
	for _, c := range []struct {
		size    int
		chunker string
	}{{5000, "size-1000"}, {600000, ""}, {262144, ""}, {77, "size-16"}} {
		var roots []cid.Cid
		for _, frag := range []string{"whole", "half", "one-byte", "3-5-7"} {
			var src io.Reader = &detReader{s: 424242}
			switch frag {
			case "half":
				src = iotest.HalfReader(src)
			case "one-byte":
				if c.size > 100000 {
					continue
				}
				src = iotest.OneByteReader(src)
			case "3-5-7":
				src = &shortReads{r: src, sizes: []int{3, 5, 7}}
			}
			st := NewStore()
			opts := []testutil.Option{testutil.WithRandReader(src)}
			if c.chunker != "" {
				opts = append(opts, testutil.WithChunker(c.chunker))
			}
			de, err := testutil.UnixFSFile(*st.LinkSystem(), c.size, opts...)
			if err != nil {
				t.Fatalf("C10: fixture file of %d bytes from a random source delivering %s reads: %v", c.size, frag, err)
			}
			if len(de.Content) != c.size {
				t.Fatalf("C10: fixture file of %d bytes from a random source delivering %s reads has %d bytes of content", c.size, frag, len(de.Content))
			}
			roots = append(roots, de.Root)
			if de.Root != roots[0] {
				t.Fatalf("C10: fixture file of %d bytes (chunker %q): root %s when the random source delivers %s reads, %s when it fills every read", c.size, c.chunker, de.Root, frag, roots[0])
			}
		}
	}
}

// shortReads delivers at most sizes[i%len] bytes per Read call.
type shortReads struct {
	r     io.Reader
	sizes []int
	i     int
}

func (s *shortReads) Read(p []byte) (int, error) {
	n := s.sizes[s.i%len(s.sizes)]
	s.i++
	if n > len(p) {
		n = len(p)
	}
	return s.r.Read(p[:n])
}

// stutterReader returns (0, nil) on every other call - allowed by io.Reader, if discouraged - and at most frag bytes otherwise.
type stutterReader struct {
	r    io.Reader
	frag int
	i    int
}

func (s *stutterReader) Read(p []byte) (int, error) {
	s.i++
	if s.i%2 == 1 {
		return 0, nil
	}
	if len(p) > s.frag {
		p = p[:s.frag]
	}
	return s.r.Read(p)
}

// A source that makes no progress on every other call, hundreds of times in the course of one build but never twice in a
// row: the same bytes, the same link and size.
func TestC10_R_SourceWithEmptyReads(t *testing.T) {
	for _, c := range []struct {
		n       int
		chunker string
		w       int
	}{{3 << 20, "", 174}, {5000, "size-7", 3}, {100000, "rabin-64-128-256", 174}} {
		data := lcgBytes(c.n, 9, 0)
		want, wsz, err := buildFile(NewStore(), data, c.chunker, c.w)
		if err != nil {
			t.Fatal(err)
		}
		for _, frag := range []int{1 << 20, 65536, 16384, 1000, 13} {
			if c.n/frag > 20000 {
				continue
			}
			got, gsz, err := buildFileR(NewStore().LinkSystem(), &stutterReader{r: bytes.NewReader(data), frag: frag}, c.chunker, c.w)
			if err != nil || got != want || gsz != wsz {
				t.Fatalf("C10: %d bytes (chunker %q) from a source delivering %d-byte fragments with an empty read before each: %s / %d (err %v), from a plain reader %s / %d", c.n, c.chunker, frag, got, gsz, err, want, wsz)
			}
		}
	}
}

// A request the builder refuses (a fanout that is no power of two) followed by sharded builds of different entry sets on
// eight goroutines at once, round after round: each set gets the link and size it gets alone.
func TestC10_R_ConcurrentShardedBuildsAfterARefusedRequest(t *testing.T) {
	const G = 8
	type job struct {
		es   []entrySpec
		want cid.Cid
		wsz  uint64
	}
	jobs := make([]job, G)
	for g := range jobs {
		for i := 0; i < 400+g*37; i++ {
			jobs[g].es = append(jobs[g].es, entryFor(fmt.Sprintf("set%d-entry-%04d", g, i), g))
		}
		c, sz, err := buildSharded(NewStore(), jobs[g].es, 256)
		if err != nil {
			t.Fatal(err)
		}
		jobs[g].want, jobs[g].wsz = c, sz
	}
	for round := 0; round < 12; round++ {
		for _, bad := range []int{100, 3, 0, 24} {
			if _, _, err := buildSharded(NewStore(), jobs[0].es[:5], bad); err == nil {
				t.Fatalf("harness: fanout %d accepted", bad)
			}
		}
		errs := make([]string, G)
		var wg sync.WaitGroup
		for g := 0; g < G; g++ {
			wg.Add(1)
			go func(g int) {
				defer wg.Done()
				p, _ := safe(func() {
					c, sz, err := buildSharded(NewStore(), jobs[g].es, 256)
					if err != nil || c != jobs[g].want || sz != jobs[g].wsz {
						errs[g] = fmt.Sprintf("set %d (%d entries): %v / %d (err %v), alone %s / %d", g, len(jobs[g].es), c, sz, err, jobs[g].want, jobs[g].wsz)
					}
				})
				if p != nil {
					errs[g] = fmt.Sprintf("set %d: panic: %v", g, p)
				}
			}(g)
		}
		wg.Wait()
		for _, e := range errs {
			if e != "" {
				t.Fatalf("C10: %d sharded builds at once after refused requests (round %d): %s", G, round, e)
			}
		}
	}
}

// One quick Builder used by several goroutines at once (files and directories of one tree built in parallel inside one
// Store callback): every file gets the link it gets when built on its own.
func TestC10_R_QuickBuilderSharedByGoroutines(t *testing.T) {
	const G = 6
	datas := make([][]byte, G)
	want := make([]cid.Cid, G)
	for g := range datas {
		datas[g] = lcgBytes([]int{3 << 20, 100, 1<<20 + 7, 700000, 5, 262145}[g], byte(g+1), 0)
		c, _, err := buildFile(NewStore(), datas[g], "", 174)
		if err != nil {
			t.Fatal(err)
		}
		want[g] = c
	}
	for round := 0; round < 8; round++ {
		st := NewStore()
		st.Yield = true
		errs := make([]string, G)
		err := quickbuilder.Store(st.LinkSystem(), func(b *quickbuilder.Builder) error {
			var wg sync.WaitGroup
			for g := 0; g < G; g++ {
				wg.Add(1)
				go func(g int) {
					defer wg.Done()
					p, _ := safe(func() {
						n := b.NewBytesFile(datas[g])
						if c := cidOf(n.Link()); c != want[g] {
							errs[g] = fmt.Sprintf("file #%d (%d bytes) built as %s, on its own as %s", g, len(datas[g]), c, want[g])
						}
					})
					if p != nil {
						errs[g] = fmt.Sprintf("file #%d: panic: %v", g, p)
					}
				}(g)
			}
			wg.Wait()
			return nil
		})
		if err != nil {
			t.Fatalf("C10: quick builder: %v", err)
		}
		for _, e := range errs {
			if e != "" {
				t.Fatalf("C10: %d goroutines building files through one quick Builder (round %d): %s", G, round, e)
			}
		}
	}
}
