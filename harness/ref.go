package harness

// Thin wrappers over the reference implementation (boxo v0.24.0): balanced / trickle importers and the
// reference HAMT, all writing into a harness Store through a minimal DAGService (DESIGN.md section 3).

import (
	"bytes"
	"context"
	"fmt"

	chunk "github.com/ipfs/boxo/chunker"
	"github.com/ipfs/boxo/ipld/merkledag"
	bhamt "github.com/ipfs/boxo/ipld/unixfs/hamt"
	"github.com/ipfs/boxo/ipld/unixfs/importer/balanced"
	"github.com/ipfs/boxo/ipld/unixfs/importer/helpers"
	"github.com/ipfs/boxo/ipld/unixfs/importer/trickle"
	blocks "github.com/ipfs/go-block-format"
	"github.com/ipfs/go-cid"
	format "github.com/ipfs/go-ipld-format"
	mh "github.com/multiformats/go-multihash"
)

// storeDAG is a format.DAGService over a Store, keyed by full CID.
type storeDAG struct{ st *Store }

func (d storeDAG) Get(_ context.Context, c cid.Cid) (format.Node, error) {
	b, ok := d.st.Get(c)
	if !ok {
		return nil, format.ErrNotFound{Cid: c}
	}
	blk, err := blocks.NewBlockWithCid(b, c)
	if err != nil {
		return nil, err
	}
	switch c.Prefix().Codec {
	case codecDagPB:
		return merkledag.DecodeProtobufBlock(blk)
	case codecRaw:
		return merkledag.DecodeRawBlock(blk)
	}
	return nil, fmt.Errorf("storeDAG: unsupported codec %x", c.Prefix().Codec)
}

func (d storeDAG) GetMany(ctx context.Context, cs []cid.Cid) <-chan *format.NodeOption {
	out := make(chan *format.NodeOption, len(cs))
	for _, c := range cs {
		n, err := d.Get(ctx, c)
		out <- &format.NodeOption{Node: n, Err: err}
	}
	close(out)
	return out
}

func (d storeDAG) Add(_ context.Context, n format.Node) error {
	d.st.Put(n.Cid(), append([]byte(nil), n.RawData()...))
	return nil
}

func (d storeDAG) AddMany(ctx context.Context, ns []format.Node) error {
	for _, n := range ns {
		if err := d.Add(ctx, n); err != nil {
			return err
		}
	}
	return nil
}

func (d storeDAG) Remove(context.Context, cid.Cid) error       { return nil }
func (d storeDAG) RemoveMany(context.Context, []cid.Cid) error { return nil }

func v1Prefix() *cid.Prefix {
	p, _ := merkledag.PrefixForCidVersion(1)
	p.MhType = mh.SHA2_256
	return &p
}

type refFileOpts struct {
	Chunker   string
	Width     int
	RawLeaves bool
	CidV1     bool
	Trickle   bool
	// InlineLimit > 0 (with CidV1): blocks of at most that many bytes get identity CIDs, i.e. are inlined into their links
	// (the importer's --inline option); the block is put into the store all the same
	InlineLimit int
}

// inlineBuilder is a cid.Builder that inlines small blocks (identity multihash) and delegates the rest.
type inlineBuilder struct {
	base  cid.Builder
	limit int
}

func (b inlineBuilder) Sum(data []byte) (cid.Cid, error) {
	if len(data) <= b.limit {
		return cid.Prefix{Version: 1, Codec: b.base.GetCodec(), MhType: mh.IDENTITY, MhLength: -1}.Sum(data)
	}
	return b.base.Sum(data)
}
func (b inlineBuilder) GetCodec() uint64 { return b.base.GetCodec() }
func (b inlineBuilder) WithCodec(c uint64) cid.Builder {
	return inlineBuilder{b.base.WithCodec(c), b.limit}
}

// refImportFile runs the reference importer over data into st.
func refImportFile(st *Store, data []byte, o refFileOpts) (cid.Cid, uint64, error) {
	spl, err := chunk.FromString(bytes.NewReader(data), o.Chunker)
	if err != nil {
		return cid.Undef, 0, err
	}
	params := helpers.DagBuilderParams{Maxlinks: o.Width, RawLeaves: o.RawLeaves, Dagserv: storeDAG{st}}
	if o.CidV1 {
		params.CidBuilder = v1Prefix()
		if o.InlineLimit > 0 {
			params.CidBuilder = inlineBuilder{v1Prefix(), o.InlineLimit}
		}
	}
	db, err := params.New(spl)
	if err != nil {
		return cid.Undef, 0, err
	}
	var nd format.Node
	if o.Trickle {
		nd, err = trickle.Layout(db)
	} else {
		nd, err = balanced.Layout(db)
	}
	if err != nil {
		return cid.Undef, 0, err
	}
	sz, err := nd.Size()
	return nd.Cid(), sz, err
}

// refShard returns an empty reference HAMT writing CIDv1 blocks into st.
func refShard(st *Store, fanout int) (*bhamt.Shard, error) {
	sh, err := bhamt.NewShard(storeDAG{st}, fanout)
	if err != nil {
		return nil, err
	}
	sh.SetCidBuilder(v1Prefix())
	return sh, nil
}
