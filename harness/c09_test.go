package harness

// C09 - the UnixFS Data / Metadata / timestamp codec agrees with the protobuf schema in both directions.
// Reference: gogo-protobuf generated unixfs_pb of boxo. The wire writer below is hand-written so that a bug in a
// shared encoding library cannot cancel out.

import (
	"bytes"
	"fmt"
	"github.com/ipld/go-ipld-prime/datamodel"
	"github.com/ipld/go-ipld-prime/fluent/qp"
	"strings"
	"testing"
	"time"

	"github.com/gogo/protobuf/proto"
	pb "github.com/ipfs/boxo/ipld/unixfs/pb"
	"github.com/ipfs/go-unixfsnode/data"
	"github.com/ipfs/go-unixfsnode/data/builder"
	"pgregory.net/rapid"
)

// ---------------------------------------------------------------- hand-written wire writer

func wVarint(b []byte, v uint64) []byte {
	for v >= 0x80 {
		b = append(b, byte(v)|0x80)
		v >>= 7
	}
	return append(b, byte(v))
}

// wVarintPadded writes v with `pad` redundant continuation bytes (non-minimal but valid, <= 10 bytes in total).
func wVarintPadded(b []byte, v uint64, pad int) []byte {
	enc := wVarint(nil, v)
	if pad == 0 || len(enc)+pad > 10 {
		return append(b, enc...)
	}
	enc[len(enc)-1] |= 0x80
	for i := 0; i < pad-1; i++ {
		enc = append(enc, 0x80)
	}
	enc = append(enc, 0x00)
	return append(b, enc...)
}

// c09TagPad > 0: tags are written as non-minimal varints with that many padding bytes (legal, like any padded varint).
// Set per generated case by drawTagPad; the generators run on one goroutine.
var c09TagPad int

func wTag(b []byte, num int, wt int) []byte {
	if c09TagPad > 0 {
		return wVarintPadded(b, uint64(num)<<3|uint64(wt), c09TagPad)
	}
	return wVarint(b, uint64(num)<<3|uint64(wt))
}

func drawTagPad(t *rapid.T, flags map[string]bool) {
	c09TagPad = 0
	if rapid.IntRange(0, 7).Draw(t, "paddedTags") == 0 {
		c09TagPad = rapid.IntRange(1, 3).Draw(t, "tagPad")
		flags["padded-tags"] = true
	}
}

func wBytes(b []byte, num int, p []byte) []byte {
	b = wTag(b, num, 2)
	b = wVarint(b, uint64(len(p)))
	return append(b, p...)
}

func wFixed32(b []byte, v uint32) []byte {
	return append(b, byte(v), byte(v>>8), byte(v>>16), byte(v>>24))
}

var u64Gen = rapid.OneOf(rapid.SampledFrom([]uint64{0, 1, 2, 127, 128, 1 << 31, 1<<32 - 1, 1 << 32, 1 << 63, ^uint64(0)}), rapid.Uint64())
var modeGen = rapid.OneOf(rapid.SampledFrom([]uint32{0, 0o644, 0o755, 0o100644, 0o40755, 0xFFFFFFFF, 0x1000, 0xFFF}), rapid.Uint32())
var secGen = rapid.OneOf(rapid.SampledFrom([]int64{0, 1, -1, 1 << 31, -1 << 63, 1<<63 - 1}), rapid.Int64())

func genPad(t *rapid.T) int {
	if rapid.IntRange(0, 5).Draw(t, "dopad") != 0 {
		return 0
	}
	return rapid.IntRange(1, 4).Draw(t, "pad")
}

func genUnknownField(t *rapid.T, flags map[string]bool) []byte {
	num := rapid.SampledFrom([]int{9, 10, 15, 16, 100, 1 << 20, 1<<29 - 1}).Draw(t, "unum")
	flags["unknown"] = true
	switch rapid.IntRange(0, 4).Draw(t, "uw") {
	case 0:
		return wVarintPadded(wTag(nil, num, 0), u64Gen.Draw(t, "uv"), genPad(t))
	case 1:
		return wFixed32(wTag(nil, num, 5), 7)
	case 2:
		return append(wTag(nil, num, 1), 1, 2, 3, 4, 5, 6, 7, 8)
	case 3:
		// (the length prefix is a varint like any other: it may be padded too)
		ub := rapid.SliceOfN(rapid.Byte(), 0, 5).Draw(t, "ub")
		return append(wVarintPadded(wTag(nil, num, 2), uint64(len(ub)), genPad(t)), ub...)
	default:
		flags["group"] = true
		g := wTag(nil, num, 3)
		g = wVarint(wTag(g, 1, 0), 5)
		// groups nest: a group inside the group, with another field number or with the very same one (the inner end marker
		// then looks like the outer one), one or two levels deep, followed by more fields of the outer group
		if rapid.IntRange(0, 9).Draw(t, "veryDeepGroup") == 0 {
			// hundreds of levels of nesting (still a few hundred bytes): skipping a field has no depth of its own
			d := rapid.SampledFrom([]int{99, 100, 101, 150, 1000}).Draw(t, "nesting")
			flags["nested-group"] = true
			for i := 0; i < d; i++ {
				g = wTag(g, num, 3)
			}
			g = wVarint(wTag(g, 1, 0), 7)
			for i := 0; i < d; i++ {
				g = wTag(g, num, 4)
			}
			return wTag(g, num, 4)
		}
		for depth := rapid.IntRange(0, 2).Draw(t, "groupDepth"); depth > 0; depth-- {
			inner := num
			if rapid.Bool().Draw(t, "innerOtherNumber") {
				inner = num - 1
			}
			flags["nested-group"] = true
			g = wTag(g, inner, 3)
			g = wBytes(g, 2, []byte("in"))
			if depth > 1 {
				g = wTag(wTag(g, num, 3), num, 4) // an empty group of the outer number inside the inner one
			}
			g = wTag(g, inner, 4)
			g = wVarint(wTag(g, 3, 0), uint64(depth))
		}
		return wTag(g, num, 4)
	}
}

type c09Case struct {
	msg   *pb.Data
	wire  []byte
	flags map[string]bool
}

func genTimestamp(t *rapid.T, flags map[string]bool) (*pb.IPFSTimestamp, []byte) {
	s := secGen.Draw(t, "secs")
	ts := &pb.IPFSTimestamp{Seconds: &s}
	parts := [][]byte{wVarintPadded(wTag(nil, 1, 0), uint64(s), genPad(t))}
	if rapid.Bool().Draw(t, "hasNanos") {
		n := rapid.OneOf(rapid.SampledFrom([]uint32{0, 1, 999999999, 1000000000, 0xFFFFFFFF}), rapid.Uint32()).Draw(t, "nanos")
		ts.Nanos = &n
		parts = append(parts, wFixed32(wTag(nil, 2, 5), n))
	}
	if rapid.IntRange(0, 4).Draw(t, "tsUnknown") == 0 {
		parts = append(parts, genUnknownField(t, flags))
		flags["unknown-in-mtime"] = true
	}
	if len(parts) > 1 && rapid.Bool().Draw(t, "tsPerm") {
		parts = rapid.Permutation(parts).Draw(t, "tsOrder")
		flags["mtime-permuted"] = true
	}
	return ts, bytes.Join(parts, nil)
}

func genDataMessage(t *rapid.T) *c09Case {
	c := &c09Case{msg: &pb.Data{}, flags: map[string]bool{}}
	drawTagPad(t, c.flags)
	typ := pb.Data_DataType(rapid.SampledFrom([]int32{0, 1, 2, 2, 3, 4, 5, 5, 6, 99, 1<<31 - 1}).Draw(t, "type"))
	c.msg.Type = &typ
	var fields [][]byte
	fields = append(fields, wVarintPadded(wTag(nil, 1, 0), uint64(typ), genPad(t)))
	if rapid.Bool().Draw(t, "hasData") {
		c.msg.Data = rapid.SliceOfN(rapid.Byte(), 0, 12).Draw(t, "data")
		if c.msg.Data == nil {
			c.msg.Data = []byte{}
		}
		if rapid.IntRange(0, 7).Draw(t, "bigData") == 0 {
			// inline data of real-world sizes (small files and symlink targets are stored inline): lengths up to a few KiB,
			// which is also where an encoder's buffer has to grow
			n := rapid.IntRange(0, 4200).Draw(t, "dataLen")
			if rapid.Bool().Draw(t, "dataLenNearPow2") {
				n = (1 << rapid.IntRange(6, 12).Draw(t, "dataPow")) - rapid.IntRange(0, 40).Draw(t, "dataBelow")
			}
			c.msg.Data = lcgBytes(n, rapid.Byte().Draw(t, "dataFill"), 0)
			c.flags["inline-data>12"] = true
		}
		fields = append(fields, wBytes(nil, 2, c.msg.Data))
	}
	if rapid.Bool().Draw(t, "hasFileSize") {
		v := u64Gen.Draw(t, "filesize")
		c.msg.Filesize = &v
		fields = append(fields, wVarintPadded(wTag(nil, 3, 0), v, genPad(t)))
	}
	bs := rapid.SliceOfN(u64Gen, 0, 6).Draw(t, "blocksizes")
	if rapid.IntRange(0, 40).Draw(t, "longBlocksizes") == 0 {
		// long runs (a 1 GiB file at the default chunk size has ~4000 entries)
		n := rapid.SampledFrom([]int{174, 255, 256, 1023, 1024, 1025, 2000, 4100, 8191, 8192, 8193, 10000, 16385, 20000}).Draw(t, "nblocksizes")
		bs = make([]uint64, n)
		for i := range bs {
			bs[i] = uint64(262144 + i%3)
		}
		c.flags["long-blocksizes"] = true
	}
	if len(bs) > 0 {
		c.msg.Blocksizes = bs
	}
	var bsUnpacked [][]byte
	if len(bs) > 0 && rapid.Bool().Draw(t, "packed") {
		c.flags["packed"] = true
		var run []byte
		longPad := genPad(t)
		for i, v := range bs {
			pad := longPad * (i % 2) // (long lists: one drawn padding, alternating, instead of a draw per entry)
			if len(bs) <= 100 {
				pad = genPad(t)
			}
			run = wVarintPadded(run, v, pad)
		}
		fields = append(fields, wBytes(nil, 4, run))
	} else {
		longPad := genPad(t)
		for i, v := range bs {
			pad := longPad * (i % 2)
			if len(bs) <= 100 {
				pad = genPad(t)
			}
			bsUnpacked = append(bsUnpacked, wVarintPadded(wTag(nil, 4, 0), v, pad))
		}
	}
	if rapid.Bool().Draw(t, "hasHashType") {
		v := u64Gen.Draw(t, "hashtype")
		c.msg.HashType = &v
		fields = append(fields, wVarintPadded(wTag(nil, 5, 0), v, genPad(t)))
	}
	if rapid.Bool().Draw(t, "hasFanout") {
		v := u64Gen.Draw(t, "fanout")
		c.msg.Fanout = &v
		fields = append(fields, wVarintPadded(wTag(nil, 6, 0), v, genPad(t)))
	}
	if rapid.Bool().Draw(t, "hasMode") {
		v := modeGen.Draw(t, "mode")
		c.msg.Mode = &v
		fields = append(fields, wVarintPadded(wTag(nil, 7, 0), uint64(v), genPad(t)))
	}
	if rapid.Bool().Draw(t, "hasMtime") {
		ts, inner := genTimestamp(t, c.flags)
		c.msg.Mtime = ts
		fields = append(fields, wBytes(nil, 8, inner))
	}
	for i := rapid.IntRange(0, 3).Draw(t, "nunknown"); i > 0; i-- {
		fields = append(fields, genUnknownField(t, c.flags))
	}
	if rapid.Bool().Draw(t, "permute") {
		before := bytes.Join(fields, nil)
		fields = rapid.Permutation(fields).Draw(t, "fieldOrder")
		if !bytes.Equal(before, bytes.Join(fields, nil)) {
			c.flags["permuted"] = true
		}
	}
	// unpacked block sizes keep their relative order but may be interleaved anywhere among the other fields
	pos := 0
	for i, f := range bsUnpacked {
		npos := rapid.IntRange(pos, len(fields)).Draw(t, "bspos")
		if i > 0 && npos != pos {
			c.flags["interleaved"] = true
		}
		fields = append(fields[:npos], append([][]byte{f}, fields[npos:]...)...)
		pos = npos + 1
	}
	c.wire = bytes.Join(fields, nil)
	return c
}

// libToPB converts the library's decoded node into the reference message type, field by field.
func libToPB(d data.UnixFSData) *pb.Data {
	out := &pb.Data{}
	t := pb.Data_DataType(int32(d.FieldDataType().Int()))
	out.Type = &t
	if d.FieldData().Exists() {
		out.Data = d.FieldData().Must().Bytes()
		if out.Data == nil {
			out.Data = []byte{}
		}
	}
	if d.FieldFileSize().Exists() {
		v := uint64(d.FieldFileSize().Must().Int())
		out.Filesize = &v
	}
	for it := d.FieldBlockSizes().Iterator(); !it.Done(); {
		_, v := it.Next()
		out.Blocksizes = append(out.Blocksizes, uint64(v.Int()))
	}
	if d.FieldHashType().Exists() {
		v := uint64(d.FieldHashType().Must().Int())
		out.HashType = &v
	}
	if d.FieldFanout().Exists() {
		v := uint64(d.FieldFanout().Must().Int())
		out.Fanout = &v
	}
	if d.FieldMode().Exists() {
		v := uint32(d.FieldMode().Must().Int())
		if int64(v) != d.FieldMode().Must().Int() {
			v = 0xDEADBEEF // out of range: will not compare equal
		}
		out.Mode = &v
	}
	if d.FieldMtime().Exists() {
		out.Mtime = libTimeToPB(d.FieldMtime().Must())
	}
	return out
}

func libTimeToPB(mt data.UnixTime) *pb.IPFSTimestamp {
	s := mt.FieldSeconds().Int()
	ts := &pb.IPFSTimestamp{Seconds: &s}
	if mt.FieldFractionalNanoseconds().Exists() {
		n := uint32(mt.FieldFractionalNanoseconds().Must().Int())
		ts.Nanos = &n
	}
	return ts
}

var c09DefaultMode = map[pb.Data_DataType]uint32{pb.Data_File: 0o644, pb.Data_Directory: 0o755, pb.Data_HAMTShard: 0o755}

func clearUnknown(m *pb.Data) {
	m.XXX_unrecognized = nil
	if m.Mtime != nil {
		m.Mtime.XXX_unrecognized = nil
	}
}

// c09OtherWires are unrelated messages decoded after a message under test: block sizes as one packed run (1, 3 and 40
// entries), unpacked, and a message with inline data, mode and mtime.
var c09OtherWires = func() [][]byte {
	packed := func(n int) []byte {
		var run []byte
		for i := 0; i < n; i++ {
			run = wVarint(run, uint64(1000+i*7))
		}
		b := wVarint(wTag(nil, 1, 0), 2)
		b = wVarint(wTag(b, 4, 2), uint64(len(run)))
		return append(b, run...)
	}
	unpacked := wVarint(wTag(nil, 1, 0), 2)
	for i := 0; i < 5; i++ {
		unpacked = wVarint(wTag(unpacked, 4, 0), uint64(77+i))
	}
	full := []byte{0x08, 0x02, 0x12, 0x04, 'd', 'a', 't', 'a', 0x18, 0x04, 0x38, 0xed, 0x03, 0x42, 0x02, 0x08, 0x05}
	return [][]byte{packed(1), packed(3), packed(40), unpacked, full}
}()

// c09CheckData runs every codec claim for one (message, wire) pair.
func c09CheckData(msg *pb.Data, wire []byte) error {
	// generator self-check against the reference decoder
	var ref pb.Data
	if err := proto.Unmarshal(wire, &ref); err != nil {
		return fmt.Errorf("HARNESS: reference decoder rejects the generated wire %x: %v", wire, err)
	}
	clearUnknown(&ref)
	if !proto.Equal(&ref, msg) {
		return fmt.Errorf("HARNESS: generated wire %x decodes (reference) to %v, intended %v", wire, &ref, msg)
	}
	d, err := data.DecodeUnixFSData(wire)
	if err != nil {
		return fmt.Errorf("library rejects wire %x that the reference decodes to {%v}: %v", wire, msg, err)
	}
	got := libToPB(d)
	if !proto.Equal(got, msg) {
		return fmt.Errorf("library decodes wire %x to {%v}, reference to {%v}", wire, got, msg)
	}
	// a decoded message belongs to the caller: decoding other messages afterwards (packed and unpacked block sizes, short
	// and long runs, with inline data, mtime and mode) must not change it
	for _, other := range c09OtherWires {
		if _, err := data.DecodeUnixFSData(other); err != nil {
			return fmt.Errorf("HARNESS: fixed message %x rejected: %v", other, err)
		}
	}
	if got := libToPB(d); !proto.Equal(got, msg) {
		return fmt.Errorf("the message decoded from wire %x reads {%v} after other messages were decoded, it was {%v}", wire, got, msg)
	}
	// permissions
	wantPerm := -1
	if msg.Mode != nil {
		wantPerm = int(*msg.Mode & 0xFFF)
	} else if def, ok := c09DefaultMode[msg.GetType()]; ok {
		wantPerm = int(def)
	}
	perm := d.Permissions()
	if wantPerm >= 0 && perm != wantPerm {
		return fmt.Errorf("Permissions() = %o, want %o for {%v}", perm, wantPerm, msg)
	}
	// the exported default rule, asked directly (it must not look at the mode)
	if def, ok := c09DefaultMode[msg.GetType()]; ok && data.DefaultPermissions(d) != int(def) {
		return fmt.Errorf("DefaultPermissions() = %o, want %o for {%v}", data.DefaultPermissions(d), def, msg)
	}
	// encode -> reference decode
	enc := data.EncodeUnixFSData(d)
	// the bytes handed out belong to the caller: encoding something else afterwards must not change them
	snapshot := append([]byte(nil), enc...)
	_ = data.EncodeUnixFSData(c09OtherNode)
	_ = data.EncodeUnixFSData(d)
	_ = data.EncodeUnixFSData(c09OtherNode)
	if !bytes.Equal(enc, snapshot) {
		return fmt.Errorf("the %d bytes returned by EncodeUnixFSData changed after later EncodeUnixFSData calls: now %x, were %x", len(enc), enc, snapshot)
	}
	// ... and they are the caller's to recycle: used as scratch for another message, they do not change what the library
	// returns for this one the next time
	{
		scratch := data.EncodeUnixFSData(d)
		_ = data.AppendEncodeUnixFSData(scratch[:0], c09OtherNode)
		if again := data.EncodeUnixFSData(d); !bytes.Equal(again, snapshot) {
			return fmt.Errorf("after the caller reused the slice EncodeUnixFSData had returned as scratch for another message, EncodeUnixFSData of the same message gives %x, it gave %x", again, snapshot)
		}
	}
	var back pb.Data
	if err := proto.Unmarshal(enc, &back); err != nil {
		return fmt.Errorf("reference rejects the library's encoding %x of {%v}: %v", enc, msg, err)
	}
	want := proto.Clone(msg).(*pb.Data)
	if def, ok := c09DefaultMode[want.GetType()]; want.Mode != nil && ((ok && *want.Mode == def) || (!ok && *want.Mode == 0)) {
		want.Mode = nil // the statement's carve-out: a mode equal to the type's default is elided
	}
	if !proto.Equal(&back, want) {
		return fmt.Errorf("library encoding %x decodes (reference) to {%v}, want {%v}", enc, &back, want)
	}
	canon, err := proto.Marshal(want)
	if err != nil {
		return fmt.Errorf("HARNESS: reference marshal: %v", err)
	}
	if !bytes.Equal(canon, enc) {
		return fmt.Errorf("library encoding %x is not the canonical encoding %x of {%v}", enc, canon, want)
	}
	// the appending entry point, into caller buffers with little or no room to spare, must produce prefix + the same bytes
	slacks := []int{0, 1, 2, 5, 9, 15, 16, 17, 18, 19, 20, 21, 22, 23, 24, 31, 64, len(enc), len(enc) + 1}
	if len(enc) > 8192 {
		slacks = []int{0, 17, len(enc)} // (long block-size lists: keep the case cheap)
	}
	for _, slack := range slacks {
		buf := make([]byte, 3, 3+slack)
		buf[0], buf[1], buf[2] = 0xAA, 0xBB, 0xCC
		out := data.AppendEncodeUnixFSData(buf, d)
		if len(out) != 3+len(enc) || !bytes.Equal(out[:3], []byte{0xAA, 0xBB, 0xCC}) || !bytes.Equal(out[3:], enc) {
			return fmt.Errorf("AppendEncodeUnixFSData into a buffer with %d spare bytes gives %x, EncodeUnixFSData gives %x for {%v}", slack, out, enc, msg)
		}
	}
	// ... and message after message into ONE growing buffer (a framed stream, a block being assembled): each call
	// appends exactly its encoding behind everything the buffer already holds - with the buffer kept tight (no spare room
	// after each step) and with whatever room append leaves
	rounds := 24
	if len(enc) > 512 {
		rounds = 5
	}
	for _, tight := range []bool{true, false} {
		var acc []byte
		for i := 0; i < rounds; i++ {
			if tight {
				acc = acc[:len(acc):len(acc)]
			}
			acc = data.AppendEncodeUnixFSData(acc, d)
			if len(acc) != (i+1)*len(enc) || !bytes.Equal(acc[i*len(enc):], enc) || (i > 0 && !bytes.Equal(acc[:len(enc)], enc)) {
				return fmt.Errorf("AppendEncodeUnixFSData called %d times on one growing buffer (tight=%v): the buffer holds %d bytes, want %d x %d; last frame %x, first frame %x, expected %x", i+1, tight, len(acc), i+1, len(enc), acc[max(0, len(acc)-len(enc)):], acc[:min(len(acc), len(enc))], enc)
			}
		}
	}
	// decode(encode(d)) keeps the permission bits
	d2, err := data.DecodeUnixFSData(enc)
	if err != nil {
		return fmt.Errorf("library rejects its own encoding %x: %v", enc, err)
	}
	if d2.Permissions() != perm {
		return fmt.Errorf("Permissions() changed over encode/decode: %o -> %o for {%v}", perm, d2.Permissions(), msg)
	}
	// canonical input: decode -> encode reproduces the bytes (modulo the elided default mode)
	canonIn, _ := proto.Marshal(msg)
	d3, err := data.DecodeUnixFSData(canonIn)
	if err != nil {
		return fmt.Errorf("library rejects canonical encoding %x: %v", canonIn, err)
	}
	if re := data.EncodeUnixFSData(d3); !bytes.Equal(re, canon) {
		return fmt.Errorf("decode+encode of canonical %x gives %x, want %x", canonIn, re, canon)
	}
	return nil
}

const c09Rule = "case = logical UnixFS Data message (all six types + out-of-range type values; each optional field present/absent; boundary and uniform 64-bit values; modes incl. high bits; negative and extreme seconds) in a generated wire presentation (field permutation, blocksizes unpacked+interleaved or one packed run, unknown fields of every wire type incl. groups and inside mtime, non-minimal varints, mtime inner order); " +
	"oracle = gogo unixfs_pb Unmarshal/Marshal: library decode equals the reference's field by field, library encode is reference-decodable to the same message (default mode elided) and byte-identical to the canonical Marshal, canonical input round-trips, Permissions() rule holds and survives encode/decode; " +
	"non-trivial = >= 4 fields present and a non-identity presentation (permuted, packed, interleaved, unknown field or padded varint); distinct by (type, presence bitmap, presentation flags)"

func TestC09_P_DataCodec(t *testing.T) {
	ev := newEvid(t, c09Rule)
	rapid.Check(t, func(t *rapid.T) {
		c := genDataMessage(t)
		var err error
		// history: decoders are called in arbitrary succession in one process; a rejected input must leave nothing behind
		// that changes how the next, valid message is read
		if rapid.IntRange(0, 2).Draw(t, "failedDecodeFirst") == 0 {
			bad := append([]byte{}, genDataMessage(t).wire...)
			switch rapid.IntRange(0, 3).Draw(t, "badkind") {
			case 0:
				if len(bad) > 1 {
					bad = bad[:rapid.IntRange(1, len(bad)-1).Draw(t, "truncate")]
				}
			case 1:
				bad = append(bad, 0x20, 0x05, 0x20, 0x06, 0x22) // block sizes, then a truncated packed run
			case 2:
				bad = append(append([]byte{0x20, 0x6f, 0x20, 0xde, 0x01}, bad...), 0xff) // block sizes 111, 222, then garbage
			default:
				bad = append(bad, 0x42, 0x7f)
			}
			must(t, "decode of a damaged message", func() {
				_, _ = data.DecodeUnixFSData(bad)
				_, _ = data.DecodeUnixTime(bad)
			})
			c.flags["after-failed-decode"] = true
		}
		must(t, "UnixFS Data codec", func() { err = c09CheckData(c.msg, c.wire) })
		if err != nil {
			t.Fatalf("C09: %v", err)
		}
		m := c.msg
		present := 0
		bitmap := ""
		for _, p := range []bool{m.Data != nil, m.Filesize != nil, len(m.Blocksizes) > 0, m.HashType != nil, m.Fanout != nil, m.Mode != nil, m.Mtime != nil} {
			if p {
				present++
				bitmap += "1"
			} else {
				bitmap += "0"
			}
		}
		// padded varints are detected by comparing with a minimal re-encoding length
		if canon, _ := proto.Marshal(m); len(c.wire) > len(canon) && !c.flags["unknown"] && !c.flags["packed"] {
			c.flags["padded"] = true
		}
		fl := keys(c.flags)
		nt := present+1 >= 4 && len(fl) > 0
		cl := []string{fmt.Sprintf("type:%d", m.GetType()), fmt.Sprintf("fields:%d", present+1)}
		for _, f := range fl {
			cl = append(cl, "flag:"+f)
		}
		ev.Case(fmt.Sprintf("t=%d %s %v", m.GetType(), bitmap, fl), nt, cl...)
		ev.Sample(map[string]any{"message": m.String(), "wire_hex": fmt.Sprintf("%x", c.wire), "flags": fl})
	})
}

const c09AuxRule = "case = Metadata{MimeType?} and bare IPFSTimestamp messages in generated presentations (unknown fields, permutation, padded varints) and builder Permissions(b, mode) calls; oracle = gogo unixfs_pb; " +
	"non-trivial = message with an unknown field or non-canonical order, or a mode with bits above the low twelve; distinct by (kind, presence, flags)"

func TestC09_P_MetadataTimeBuilder(t *testing.T) {
	defer func() { c09TagPad = 0 }()
	ev := newEvid(t, c09AuxRule)
	rapid.Check(t, func(t *rapid.T) {
		switch rapid.SampledFrom([]string{"metadata", "time", "builder-permissions"}).Draw(t, "kind") {
		case "metadata":
			flags := map[string]bool{}
			drawTagPad(t, flags)
			var parts [][]byte
			msg := &pb.Metadata{}
			if rapid.Bool().Draw(t, "hasMime") {
				s := rapid.OneOf(rapid.SampledFrom([]string{"", "text/plain", "a/b; charset=é"}), rapid.String()).Draw(t, "mime")
				if rapid.IntRange(0, 5).Draw(t, "longMime") == 0 {
					// a long value: parameters, a data URI pasted by mistake ... (length prefixes of two and three bytes)
					s = "x-long/" + strings.Repeat("m", rapid.SampledFrom([]int{120, 121, 128, 300, 16376, 16377, 70000}).Draw(t, "mimeLen"))
				}
				msg.MimeType = &s
				parts = append(parts, wBytes(nil, 1, []byte(s)))
			}
			for i := rapid.IntRange(0, 2).Draw(t, "nunknown"); i > 0; i-- {
				parts = append(parts, genUnknownField(t, flags))
			}
			parts = rapid.Permutation(parts).Draw(t, "order")
			wire := bytes.Join(parts, nil)
			var ref pb.Metadata
			if err := proto.Unmarshal(wire, &ref); err != nil {
				t.Fatalf("HARNESS: reference rejects %x: %v", wire, err)
			}
			md, err := data.DecodeUnixFSMetadata(wire)
			if err != nil {
				t.Fatalf("C09: DecodeUnixFSMetadata rejects %x ({%v}): %v", wire, msg, err)
			}
			if md.FieldMimeType().Exists() != (msg.MimeType != nil) || (msg.MimeType != nil && md.FieldMimeType().Must().String() != *msg.MimeType) {
				t.Fatalf("C09: metadata %x decodes to mime %v, want %v", wire, md.FieldMimeType(), msg.MimeType)
			}
			// the MimeType is a Go string: it stays what it is when the caller reuses the buffer the message was decoded from
			if msg.MimeType != nil {
				scratch := append([]byte(nil), wire...)
				md2, err := data.DecodeUnixFSMetadata(scratch)
				if err != nil {
					t.Fatalf("C09: %v", err)
				}
				for i := range scratch {
					scratch[i] = 'X'
				}
				if got := md2.FieldMimeType().Must().String(); got != *msg.MimeType {
					t.Fatalf("C09: metadata decoded from a buffer that was refilled afterwards now reports MimeType %q, it was %q", got, *msg.MimeType)
				}
			}
			enc := data.EncodeUnixFSMetadata(md)
			canon, _ := proto.Marshal(msg)
			if !bytes.Equal(enc, canon) {
				t.Fatalf("C09: metadata encoding %x, canonical %x", enc, canon)
			}
			// the appending form, onto a caller's buffer with content and little or much spare room: prefix kept, message after it
			prefix := rapid.SliceOfN(rapid.Byte(), 0, 40).Draw(t, "appendPrefix")
			buf := make([]byte, len(prefix), len(prefix)+rapid.SampledFrom([]int{0, 1, 2, len(canon), len(canon) + 1, 64}).Draw(t, "spare"))
			copy(buf, prefix)
			app := data.AppendEncodeUnixFSMetadata(buf, md)
			if !bytes.Equal(app[:min(len(prefix), len(app))], prefix) || !bytes.Equal(app[min(len(prefix), len(app)):], canon) {
				t.Fatalf("C09: AppendEncodeUnixFSMetadata onto %x gave %x, want the prefix followed by %x", prefix, app, canon)
			}
			if !bytes.Equal(enc, canon) {
				t.Fatalf("C09: the bytes EncodeUnixFSMetadata returned changed after a later append-encode: %x, were %x", enc, canon)
			}
			ev.Case(fmt.Sprintf("metadata %v %v", msg.MimeType != nil, keys(flags)), len(flags) > 0, "kind:metadata")
			ev.Sample(map[string]any{"kind": "metadata", "wire_hex": fmt.Sprintf("%x", wire)})
		case "time":
			flags := map[string]bool{}
			drawTagPad(t, flags)
			ts, wire := genTimestamp(t, flags)
			var ref pb.IPFSTimestamp
			if err := proto.Unmarshal(wire, &ref); err != nil {
				t.Fatalf("HARNESS: reference rejects %x: %v", wire, err)
			}
			ref.XXX_unrecognized = nil
			if !proto.Equal(&ref, ts) {
				t.Fatalf("HARNESS: timestamp generator")
			}
			ut, err := data.DecodeUnixTime(wire)
			if err != nil {
				t.Fatalf("C09: DecodeUnixTime rejects %x ({%v}): %v", wire, ts, err)
			}
			if got := libTimeToPB(ut); !proto.Equal(got, ts) {
				t.Fatalf("C09: DecodeUnixTime(%x) = {%v}, reference {%v}", wire, got, ts)
			}
			enc := data.AppendEncodeUnixTime(nil, ut)
			canon, _ := proto.Marshal(ts)
			if !bytes.Equal(enc, canon) {
				t.Fatalf("C09: time encoding %x, canonical %x", enc, canon)
			}
			ev.Case(fmt.Sprintf("time n=%v %v", ts.Nanos != nil, keys(flags)), len(flags) > 0, "kind:time")
			ev.Sample(map[string]any{"kind": "time", "wire_hex": fmt.Sprintf("%x", wire)})
		default:
			typ := rapid.SampledFrom([]int64{data.Data_File, data.Data_Directory, data.Data_HAMTShard, data.Data_Raw, data.Data_Symlink, data.Data_Metadata}).Draw(t, "type")
			mode := rapid.OneOf(rapid.SampledFrom([]int{0, 0o644, 0o755, 0o100644, 0xFFF, 0x1000, 0x7FFFFFFF}), rapid.IntRange(0, 1<<31-1)).Draw(t, "mode")
			// one message in three also gets a modification time from a time.Time: any instant a time.Time holds - before the
			// epoch with a fraction of a second, centuries away in either direction, the zero Time
			withTime := rapid.IntRange(0, 2).Draw(t, "withTime") == 0
			var when time.Time
			if withTime {
				sec := rapid.SampledFrom([]int64{0, 1, -1, -1000000, -86400 * 365 * 300, 1 << 31, 1 << 33, 20000000000, 253402300799, -62135596800}).Draw(t, "timeSecs")
				when = time.Unix(sec, int64(rapid.SampledFrom([]int{0, 1, 500000000, 999999999}).Draw(t, "timeNanos")))
			}
			var n data.UnixFSData
			var err error
			must(t, "BuildUnixFS", func() {
				n, err = builder.BuildUnixFS(func(b *builder.Builder) {
					builder.DataType(b, typ)
					builder.Permissions(b, mode)
					if withTime {
						builder.Mtime(b, func(tb builder.TimeBuilder) { builder.Time(tb, when) })
					}
				})
			})
			if err != nil {
				t.Fatalf("BuildUnixFS (mtime %v): %v", when, err)
			}
			if withTime {
				var ref pb.Data
				if err := proto.Unmarshal(data.EncodeUnixFSData(n), &ref); err != nil {
					t.Fatalf("C09: reference decoder rejects a message built with builder.Time(%v): %v", when, err)
				}
				if ref.Mtime == nil || ref.Mtime.GetSeconds() != when.Unix() || int(ref.Mtime.GetNanos()) != when.Nanosecond() {
					t.Fatalf("C09: builder.Time(%v = %d s + %d ns): the reference decoder reads mtime {%v}", when, when.Unix(), when.Nanosecond(), ref.Mtime)
				}
			}
			if !n.FieldMode().Exists() || n.FieldMode().Must().Int() != int64(mode&0xFFF) {
				t.Fatalf("C09: builder Permissions(%o) stored %v, want %o", mode, n.FieldMode(), mode&0xFFF)
			}
			if n.Permissions() != mode&0xFFF {
				t.Fatalf("C09: builder Permissions(%o): Permissions() = %o", mode, n.Permissions())
			}
			d2, err := data.DecodeUnixFSData(data.EncodeUnixFSData(n))
			if err != nil || d2.Permissions() != mode&0xFFF {
				t.Fatalf("C09: builder Permissions(%o) on type %d does not survive encode/decode: %v %v", mode, typ, d2, err)
			}
			ev.Case(fmt.Sprintf("builder t=%d hi=%v", typ, mode > 0xFFF), mode > 0xFFF, "kind:builder-permissions")
			ev.Sample(map[string]any{"kind": "builder-permissions", "type": typ, "mode_octal": fmt.Sprintf("%o", mode)})
		}
	})
}

// F3 (fixed): blocksizes as one packed run.
func TestC09_R_F3_PackedBlockSizes(t *testing.T) {
	two := pb.Data_File
	msg := &pb.Data{Type: &two, Blocksizes: []uint64{1, 2}}
	if err := c09CheckData(msg, []byte{0x08, 0x02, 0x22, 0x02, 0x01, 0x02}); err != nil {
		t.Fatalf("C09 F3: %v", err)
	}
	fs := uint64(300)
	msg = &pb.Data{Type: &two, Filesize: &fs, Blocksizes: []uint64{128, 172}}
	wire := []byte{0x22, 0x04, 0x80, 0x01, 0xac, 0x01, 0x18, 0xac, 0x02, 0x08, 0x02}
	if err := c09CheckData(msg, wire); err != nil {
		t.Fatalf("C09 F3: %v", err)
	}
}

func TestC09_R_Fixtures(t *testing.T) {
	// canonical examples: every type with typical fields
	for typ := int32(0); typ <= 5; typ++ {
		ty := pb.Data_DataType(typ)
		fs, ht, fo := uint64(1<<40), uint64(0x22), uint64(256)
		mode := uint32(0o100755)
		s := int64(-5)
		n := uint32(999999999)
		msg := &pb.Data{Type: &ty, Data: []byte("xyz"), Filesize: &fs, Blocksizes: []uint64{1, 1 << 33}, HashType: &ht, Fanout: &fo, Mode: &mode, Mtime: &pb.IPFSTimestamp{Seconds: &s, Nanos: &n}}
		wire, _ := proto.Marshal(msg)
		if err := c09CheckData(msg, wire); err != nil {
			t.Fatalf("C09 fixture type %d: %v", typ, err)
		}
	}
}

// ---------------------------------------------------------------- native fuzz target (thorough tier)

type strictParser struct {
	b  []byte
	ok bool
}

func (p *strictParser) varint() uint64 {
	var v uint64
	for i := 0; i < 10; i++ {
		if len(p.b) == 0 {
			p.ok = false
			return 0
		}
		c := p.b[0]
		p.b = p.b[1:]
		if i == 9 && c > 1 {
			p.ok = false
			return 0
		}
		v |= uint64(c&0x7f) << (7 * uint(i))
		if c < 0x80 {
			return v
		}
	}
	p.ok = false
	return 0
}

func (p *strictParser) take(n uint64) []byte {
	if uint64(len(p.b)) < n {
		p.ok = false
		return nil
	}
	out := p.b[:n]
	p.b = p.b[n:]
	return out
}

// skipUnknown consumes one unknown field value; groups must nest properly.
func (p *strictParser) skipUnknown(num uint64, wt uint64, depth int) {
	switch wt {
	case 0:
		p.varint()
	case 1:
		p.take(8)
	case 2:
		p.take(p.varint())
	case 5:
		p.take(4)
	case 3:
		if depth > 9000 { // (the wire library the decoder stands on stops at 10000)
			p.ok = false
			return
		}
		for p.ok {
			tag := p.varint()
			if !p.ok {
				return
			}
			n, w := tag>>3, tag&7
			if n == 0 || n > 1<<29-1 {
				p.ok = false
				return
			}
			if w == 4 {
				if n != num {
					p.ok = false
				}
				return
			}
			p.skipUnknown(n, w, depth+1)
		}
	default:
		p.ok = false
	}
}

// strictParseData accepts only the presentations a conformant encoder can emit (see DESIGN.md C09) and returns the
// logical message; ok=false means "outside the conformant subset", not "invalid".
func strictParseData(b []byte) (*pb.Data, bool) {
	p := &strictParser{b: b, ok: true}
	m := &pb.Data{}
	seen := map[uint64]bool{}
	packed, unpacked := false, false
	for p.ok && len(p.b) > 0 {
		tag := p.varint()
		num, wt := tag>>3, tag&7
		if !p.ok || num == 0 || num > 1<<29-1 {
			return nil, false
		}
		if num >= 1 && num <= 8 && num != 4 {
			if seen[num] {
				return nil, false
			}
			seen[num] = true
		}
		switch num {
		case 1:
			v := p.varint()
			if wt != 0 || v > 1<<31-1 {
				return nil, false
			}
			t := pb.Data_DataType(int32(v))
			m.Type = &t
		case 2:
			if wt != 2 {
				return nil, false
			}
			m.Data = append([]byte{}, p.take(p.varint())...)
		case 3, 5, 6:
			v := p.varint()
			if wt != 0 {
				return nil, false
			}
			switch num {
			case 3:
				m.Filesize = &v
			case 5:
				m.HashType = &v
			default:
				m.Fanout = &v
			}
		case 4:
			switch wt {
			case 0:
				if packed {
					return nil, false
				}
				unpacked = true
				m.Blocksizes = append(m.Blocksizes, p.varint())
			case 2:
				if packed || unpacked {
					return nil, false
				}
				packed = true
				run := p.take(p.varint())
				if len(run) == 0 {
					return nil, false
				}
				q := &strictParser{b: run, ok: true}
				for q.ok && len(q.b) > 0 {
					m.Blocksizes = append(m.Blocksizes, q.varint())
				}
				if !q.ok {
					return nil, false
				}
			default:
				return nil, false
			}
		case 7:
			v := p.varint()
			if wt != 0 || v > 1<<32-1 {
				return nil, false
			}
			mode := uint32(v)
			m.Mode = &mode
		case 8:
			if wt != 2 {
				return nil, false
			}
			inner := &strictParser{b: p.take(p.varint()), ok: true}
			if !p.ok {
				return nil, false
			}
			ts := &pb.IPFSTimestamp{}
			for inner.ok && len(inner.b) > 0 {
				itag := inner.varint()
				in, iw := itag>>3, itag&7
				if !inner.ok || in == 0 || in > 1<<29-1 {
					return nil, false
				}
				switch in {
				case 1:
					if iw != 0 || ts.Seconds != nil {
						return nil, false
					}
					s := int64(inner.varint())
					ts.Seconds = &s
				case 2:
					if iw != 5 || ts.Nanos != nil {
						return nil, false
					}
					f := inner.take(4)
					if !inner.ok {
						return nil, false
					}
					n := uint32(f[0]) | uint32(f[1])<<8 | uint32(f[2])<<16 | uint32(f[3])<<24
					ts.Nanos = &n
				default:
					inner.skipUnknown(in, iw, 0)
				}
			}
			if !inner.ok || ts.Seconds == nil {
				return nil, false
			}
			m.Mtime = ts
		default:
			if wt == 4 {
				return nil, false
			}
			p.skipUnknown(num, wt, 0)
		}
	}
	if !p.ok || m.Type == nil {
		return nil, false
	}
	return m, true
}

func FuzzC09_Decode(f *testing.F) {
	for _, h := range [][]byte{
		{}, {0x08, 0x02}, {0x08, 0x01}, {0x08, 0x02, 0x22, 0x02, 0x01, 0x02}, {0x08, 0x05, 0x12, 0x01, 0x01, 0x28, 0x22, 0x30, 0x80, 0x02},
		{0x08, 0x02, 0x12, 0x03, 'a', 'b', 'c', 0x18, 0x03}, {0x08, 0x02, 0x38, 0xa4, 0x03, 0x42, 0x07, 0x08, 0x01, 0x15, 0x01, 0x00, 0x00, 0x00},
		{0x08}, {0x08, 0xff, 0xff, 0xff, 0xff, 0xff, 0xff, 0xff, 0xff, 0xff, 0x7f}, {0x12, 0xff, 0xff, 0xff, 0xff, 0xff, 0xff, 0xff, 0xff, 0x7f},
		{0x4b, 0x08, 0x01, 0x4c, 0x08, 0x02}, {0x42, 0x00}, {0x22, 0x00, 0x08, 0x02}, {0x08, 0x02, 0x20, 0x01, 0x22, 0x01, 0x02},
	} {
		f.Add(h)
	}
	f.Fuzz(func(t *testing.T, b []byte) {
		if len(b) > 4096 {
			return
		}
		var d data.UnixFSData
		var derr error
		if p, st := safe(func() {
			d, derr = data.DecodeUnixFSData(b)
			_, _ = data.DecodeUnixTime(b)
			_, _ = data.DecodeUnixFSMetadata(b)
		}); p != nil {
			t.Fatalf("C09/C13: decoder panic on %x: %v\n%s", b, p, st)
		}
		_ = d
		msg, ok := strictParseData(b)
		if !ok {
			return
		}
		var ref pb.Data
		if err := proto.Unmarshal(b, &ref); err != nil {
			return
		}
		clearUnknown(&ref)
		if len(ref.Blocksizes) == 0 {
			ref.Blocksizes = nil
		}
		if !proto.Equal(&ref, msg) {
			return // harness parsers disagree: not evidence about the library
		}
		if derr != nil {
			t.Fatalf("C09: library rejects conformant wire %x ({%v}): %v", b, msg, derr)
		}
		if err := c09CheckData(msg, b); err != nil {
			t.Fatalf("C09: %v", err)
		}
	})
}

// TestC09_P_StrictParserAgrees keeps the fuzz oracle honest: on generated conformant wires the strict parser must
// accept and agree with the intended message (otherwise the fuzz target would silently check nothing).
func TestC09_P_StrictParserAgrees(t *testing.T) {
	ev := newEvid(t, "self-check of the fuzz oracle: the harness' strict re-parser must accept every generated conformant wire and agree with the intended message; cases as in TestC09_P_DataCodec; non-trivial/distinct as there")
	rapid.Check(t, func(t *rapid.T) {
		c := genDataMessage(t)
		msg, ok := strictParseData(c.wire)
		if !ok {
			t.Fatalf("HARNESS: strict parser rejects generated wire %x", c.wire)
		}
		if !proto.Equal(msg, c.msg) {
			t.Fatalf("HARNESS: strict parser reads %x as {%v}, intended {%v}", c.wire, msg, c.msg)
		}
		ev.Case(fmt.Sprintf("t=%d %v", c.msg.GetType(), keys(c.flags)), len(c.flags) > 0, "self-check")
		ev.Sample(map[string]any{"wire_hex": fmt.Sprintf("%x", c.wire)})
	})
}

// c09OtherNode is a small unrelated message encoded between uses of other encodings.
var c09OtherNode = func() data.UnixFSData {
	n, err := data.DecodeUnixFSData([]byte{0x08, 0x02, 0x12, 0x03, 'x', 'y', 'z', 0x18, 0x03})
	if err != nil {
		panic(err)
	}
	return n
}()

// Long packed block-size runs (a file node with tens of thousands of children, as other writers pack them): 65535 .. 200000
// entries, and runs around and beyond 2^20 entries, decode to what the reference decodes.
func TestC09_R_VeryLongPackedRuns(t *testing.T) {
	for _, n := range []int{65535, 65536, 65537, 70000, 200000, 1 << 20, 1<<20 + 1, 1<<20 + 4097, 2<<20 + 3} {
		var run []byte
		want := make([]uint64, n)
		for i := 0; i < n; i++ {
			want[i] = uint64(i%300 + 1)
			run = wVarint(run, want[i])
		}
		wire := wVarint(wTag(nil, 1, 0), 2)
		wire = wVarint(wTag(wire, 4, 2), uint64(len(run)))
		wire = append(wire, run...)
		var ref pb.Data
		if err := proto.Unmarshal(wire, &ref); err != nil || len(ref.Blocksizes) != n {
			t.Fatalf("HARNESS: reference: %v, %d sizes", err, len(ref.Blocksizes))
		}
		d, err := data.DecodeUnixFSData(wire)
		if err != nil {
			t.Fatalf("C09: a packed run of %d block sizes (reference decodes it): %v", n, err)
		}
		if got := libToPB(d); len(got.Blocksizes) != n || got.Blocksizes[n-1] != want[n-1] || got.Blocksizes[65535%n] != want[65535%n] {
			t.Fatalf("C09: a packed run of %d block sizes decodes to %d sizes", n, len(got.Blocksizes))
		}
	}
}

// One typed builder used for several messages in a row (Build, Reset, assemble the next - the NodeBuilder contract): a
// message that was built stays what it was when the builder moves on.
func TestC09_R_BuilderReusedAfterReset(t *testing.T) {
	nb := data.Type.UnixFSData.NewBuilder()
	assemble := func(typ int64, inline string, size int64) data.UnixFSData {
		ma, err := nb.BeginMap(-1)
		if err != nil {
			t.Fatal(err)
		}
		qp.MapEntry(ma, "DataType", qp.Int(typ))
		if inline != "" {
			qp.MapEntry(ma, "Data", qp.Bytes([]byte(inline)))
		}
		if size >= 0 {
			qp.MapEntry(ma, "FileSize", qp.Int(size))
		}
		qp.MapEntry(ma, "BlockSizes", qp.List(0, func(datamodel.ListAssembler) {}))
		if err := ma.Finish(); err != nil {
			t.Fatal(err)
		}
		return nb.Build().(data.UnixFSData)
	}
	first := assemble(data.Data_File, "the first message", 17)
	firstEnc := append([]byte(nil), data.EncodeUnixFSData(first)...)
	nb.Reset()
	second := assemble(data.Data_Directory, "", -1)
	nb.Reset()
	third := assemble(data.Data_Raw, "x", 1)
	for i, c := range []struct {
		n    data.UnixFSData
		want *pb.Data
	}{
		{first, &pb.Data{Type: pb.Data_File.Enum(), Data: []byte("the first message"), Filesize: u64p(17)}},
		{second, &pb.Data{Type: pb.Data_Directory.Enum()}},
		{third, &pb.Data{Type: pb.Data_Raw.Enum(), Data: []byte("x"), Filesize: u64p(1)}},
	} {
		var back pb.Data
		if err := proto.Unmarshal(data.EncodeUnixFSData(c.n), &back); err != nil || !proto.Equal(&back, c.want) {
			t.Fatalf("C09: message #%d built through one builder (Build, Reset, next): the reference decodes its encoding as {%v} (err %v), it was built as {%v}", i+1, &back, err, c.want)
		}
	}
	if !bytes.Equal(data.EncodeUnixFSData(first), firstEnc) {
		t.Fatalf("C09: the first message encodes differently after the builder was reset and reused")
	}
}
