package harness

// Instrumented content-addressed block store + LinkSystem factory (DESIGN.md section 3.1).
// Keys on the full CID, records every read open and every write open/commit in order,
// and can inject faults on both paths.

import (
	"bytes"
	"context"
	"encoding/binary"
	"errors"
	"fmt"
	"github.com/ipld/go-ipld-prime/codec"
	"github.com/ipld/go-ipld-prime/schema"
	"github.com/ipld/go-ipld-prime/traversal"
	"io"
	"io/fs"
	"os"
	"runtime"
	"sync"
	"syscall"

	"github.com/ipfs/go-cid"
	"github.com/ipfs/go-unixfsnode"
	dagpb "github.com/ipld/go-codec-dagpb"
	"github.com/ipld/go-ipld-prime"
	_ "github.com/ipld/go-ipld-prime/codec/dagcbor"
	_ "github.com/ipld/go-ipld-prime/codec/raw"
	"github.com/ipld/go-ipld-prime/datamodel"
	"github.com/ipld/go-ipld-prime/linking"
	cidlink "github.com/ipld/go-ipld-prime/linking/cid"
	"github.com/ipld/go-ipld-prime/node/basicnode"
	"pgregory.net/rapid"
)

const (
	codecRaw   = 0x55
	codecDagPB = 0x70
	codecCBOR  = 0x71
)

var pbProto = cidlink.LinkPrototype{Prefix: cid.Prefix{Version: 1, Codec: codecDagPB, MhType: 0x12, MhLength: 32}}
var rawProto = cidlink.LinkPrototype{Prefix: cid.Prefix{Version: 1, Codec: codecRaw, MhType: 0x12, MhLength: 32}}

// injected error kinds
type notFoundErr struct{ c cid.Cid }

func (e notFoundErr) Error() string  { return "verif-injected: block not found " + e.c.String() }
func (e notFoundErr) NotFound() bool { return true }

type ioFault struct {
	what  string
	inner error // optional well-known error value this fault wraps (see faultKinds)
}

func (e *ioFault) Error() string {
	if e.inner != nil {
		return "verif-injected i/o fault: " + e.what + ": " + e.inner.Error()
	}
	return "verif-injected i/o fault: " + e.what
}
func (e *ioFault) Unwrap() error { return e.inner }

// faultKinds: the error VALUE a storage fault carries. Real stores fail with errors that are, or wrap, well-known
// values (a dropped connection is io.EOF / io.ErrUnexpectedEOF, a missing directory is fs.ErrNotExist, a cancelled request
// is context.Canceled, a full disk is a short write); code that gives such values a meaning of its own ("end of input",
// "entry vanished") must not apply that meaning to a storage failure.
var faultKinds = []struct {
	Name  string
	Inner error
}{
	{"plain", nil},
	{"wraps-io.EOF", io.EOF},
	{"wraps-fs.ErrNotExist", &fs.PathError{Op: "open", Path: "/blocks/xx", Err: syscall.ENOENT}},
	{"wraps-io.ErrUnexpectedEOF", io.ErrUnexpectedEOF},
	{"wraps-context.Canceled", context.Canceled},
	{"wraps-io.ErrShortWrite", io.ErrShortWrite},
	{"wraps-fs.ErrPermission", &fs.PathError{Op: "open", Path: "/blocks/xx", Err: syscall.EACCES}},
	{"wraps-os.ErrDeadlineExceeded", os.ErrDeadlineExceeded},
	{"wraps-ENOSPC", &fs.PathError{Op: "write", Path: "/blocks/xx", Err: syscall.ENOSPC}},
	{"wraps-fs.ErrExist", fs.ErrExist},
	{"wraps-classy", classyErr{}},
}

// classyErr answers yes to the usual error-classification probes (Timeout, Temporary, NotFound, and errors.Is against the
// fs sentinels): code that sorts errors into "skip it", "retry later" or "does not exist" must not do so with a storage
// failure it was handed by the link system.
type classyErr struct{}

func (classyErr) Error() string   { return "verif-injected: storage unavailable (classy)" }
func (classyErr) Timeout() bool   { return true }
func (classyErr) Temporary() bool { return true }
func (classyErr) NotFound() bool  { return true }
func (classyErr) Is(target error) bool {
	return target == fs.ErrNotExist || target == fs.ErrPermission || target == os.ErrDeadlineExceeded
}

// bareFaults are error values a storage adapter may return unwrapped.
var bareFaults = []error{io.EOF, io.ErrUnexpectedEOF, context.Canceled, fs.ErrNotExist, &fs.PathError{Op: "open", Path: "/blocks/verif-injected", Err: syscall.ENOENT},
	fs.ErrPermission, &fs.PathError{Op: "open", Path: "/blocks/verif-injected", Err: syscall.EACCES}, context.DeadlineExceeded, io.ErrClosedPipe, classyErr{},
	// error values that mean something to go-ipld-prime or to this library when THEY produce them ("skip this link", "no
	// such field", "iterator exhausted"): coming out of storage they are failures like any other
	traversal.SkipMe{}, schema.ErrNoSuchField{Field: datamodel.PathSegmentOfString("verif-injected")}, datamodel.ErrNotExists{Segment: datamodel.PathSegmentOfString("verif-injected")}, datamodel.ErrIteratorOverread{}}

// genWriteFaultKind is genFaultKind for WRITE faults, where the verdict is only "an error and no link": it also draws the
// bare values (negative kinds: -1-i selects bareFaults[i]).
func genWriteFaultKind(t *rapid.T) int {
	if rapid.IntRange(0, 3).Draw(t, "bareFault") == 0 {
		return -1 - rapid.IntRange(0, len(bareFaults)-1).Draw(t, "bareFaultKind")
	}
	return genFaultKind(t)
}

func faultKindName(k int) string {
	if k < 0 {
		return fmt.Sprintf("bare %v", bareFaults[-1-k])
	}
	return faultKinds[k].Name
}

func genFaultKind(t *rapid.T) int {
	if rapid.Bool().Draw(t, "plainFault") {
		return 0
	}
	return rapid.IntRange(1, len(faultKinds)-1).Draw(t, "faultKind")
}

// isInjected reports whether err is (or wraps, or at least textually carries) one of our faults.
func isInjected(err error) bool {
	if err == nil {
		return false
	}
	var nf notFoundErr
	var iof *ioFault
	if errors.As(err, &nf) || errors.As(err, &iof) {
		return true
	}
	return bytes.Contains([]byte(err.Error()), []byte("verif-injected"))
}

// sessionCtx is the context every harness-made request carries: a store with RequireSession set serves only loads whose
// LinkContext still has it (a store that picks the tenant, the session or the credentials from the request context).
type sessionKey struct{}

var sessionCtx = context.WithValue(context.Background(), sessionKey{}, "verif-session")
var lcS = ipld.LinkContext{Ctx: sessionCtx}

// RawEnvelopeUvarint as Store.RawEnvelope: raw blocks are stored behind a uvarint length prefix.
const RawEnvelopeUvarint = -1

// RawEnvelopeStuffed as Store.RawEnvelope: raw blocks are stored byte-stuffed (every byte below 0x40, and 0x7D itself, is
// written as 0x7D followed by the byte with its top bit flipped): the encoded length depends on the content, not only on
// its length - two chunks of equal length need not be stored in equally long blocks.
const RawEnvelopeStuffed = -2

// rawOverhead is the number of framing bytes in front of the content of a raw block stored under the store's raw codec.
func (s *Store) rawOverhead(block []byte) int {
	switch {
	case s.RawEnvelope == RawEnvelopeUvarint:
		_, n := binary.Uvarint(block)
		return max(n, 0)
	case s.RawEnvelope == RawEnvelopeStuffed:
		return bytes.Count(block, []byte{0x7D})
	default:
		return s.RawEnvelope
	}
}

type Store struct {
	mu     sync.Mutex
	Blocks map[cid.Cid][]byte

	Reads   []cid.Cid // every link handed to the read opener, in order (including failing ones)
	Commits []cid.Cid // every successful commit, in order
	Opens   int       // number of write opens so far
	lsCalls int       // number of LinkSystem() calls so far (selects the set-up variant)

	// read faults
	Missing   map[cid.Cid]bool
	MissingIO bool // true: missing blocks fail with an i/o fault instead of not-found
	// MissingBare: when non-nil, missing blocks fail with exactly this value (a bare well-known error such as io.EOF,
	// io.ErrUnexpectedEOF, context.Canceled, fs.ErrNotExist: what a thin storage adapter passes through unwrapped)
	MissingBare error
	FailReadAt  int // 1-based index of the read open that fails (0 = none)

	// write faults: 1-based index of the write open whose stage fails
	FailOpenAt, FailWriteAt, FailCommitAt int
	// PartialWrite: the failing Write accepts the first half of the bytes and returns (n > 0, err), as a full disk would
	PartialWrite bool
	// FaultKind selects the error value injected i/o faults carry (index into faultKinds; 0 = plain)
	FaultKind int

	// PieceWrites > 0: link systems made for this store encode blocks through a writer that passes them on in pieces of
	// that many bytes
	PieceWrites int

	// CancelAt: when the CancelAt-th read open arrives, Cancel() is called (the request's context is cancelled) - and the
	// block is served all the same, as a store that does not look at contexts does
	CancelAt int
	Cancel   func()

	// RequireSession: read opens whose LinkContext does not carry sessionCtx's value fail (injected fault "request context
	// lost"): the library has to pass the context it was given on to every load it makes on behalf of that request
	RequireSession bool
	// HonorCtx: a read open whose context is already done fails with the context's error, as a store that passes the
	// context on to its backend does (the library must use the caller's live context for every load, not one it cancelled)
	HonorCtx bool
	// Trusted: link systems made for this store have TrustedStorage set
	Trusted bool
	// Recycle: blocks are handed out as a *bytes.Buffer over a receive buffer that is overwritten when the next load
	// arrives (or RecycleNow is called). With TrustedStorage the dag-pb decoder works on those bytes in place, so whatever
	// a node keeps of its block has to be a copy.
	Recycle bool
	lent    [][]byte

	// Park: the FIRST read open of a block listed here waits until its channel is closed before it is served (a request
	// that takes long: the block comes from far away). Waiting happens outside the store's lock.
	Park map[cid.Cid]chan struct{}
	// ParkedNow lists the requests that arrived and are (or were) held back
	ParkedNow []cid.Cid

	// RawEnvelope > 0: link systems made for this store encode raw-codec blocks with that many bytes of envelope in
	// front of the content (a storage layer that frames or seals leaf blocks; the link system's EncoderChooser is the
	// caller's to set): the encoded length of a leaf is then more than its content
	RawEnvelope int
	// RawEnvelopeRead: the link systems also get the matching raw DECODER (reads go through the framing codec too)
	RawEnvelopeRead bool
	// PBEnvelope > 0: link systems made for this store write dag-pb blocks behind that many bytes of envelope and strip
	// them again when decoding (a custom EncoderChooser / DecoderChooser pair for the dag-pb codec: framed, encrypted or
	// compressed block formats are set up like this)
	PBEnvelope int

	// Yield: every read open, write open and commit first gives up the processor (runtime.Gosched), as a store that
	// blocks on I/O does: in checks that run several goroutines this opens the windows between a library call's steps
	Yield bool

	// work budget (C13): once more than LoadBudget reads were requested every further read fails
	LoadBudget     int
	BudgetExceeded bool
}

func NewStore() *Store {
	return &Store{Blocks: map[cid.Cid][]byte{}, Missing: map[cid.Cid]bool{}}
}

func (s *Store) fault(what string) error {
	k := s.FaultKind
	if k < 0 && -1-k < len(bareFaults) {
		return bareFaults[-1-k]
	}
	if k < 0 || k >= len(faultKinds) {
		k = 0
	}
	return &ioFault{what: what, inner: faultKinds[k].Inner}
}

func (s *Store) ResetLogs() {
	s.mu.Lock()
	defer s.mu.Unlock()
	s.Reads = nil
	s.Commits = nil
	s.Opens = 0
}

func (s *Store) ReadLog() []cid.Cid {
	s.mu.Lock()
	defer s.mu.Unlock()
	return append([]cid.Cid(nil), s.Reads...)
}

func (s *Store) Put(c cid.Cid, b []byte) {
	s.mu.Lock()
	defer s.mu.Unlock()
	s.Blocks[c] = b
}

func (s *Store) Get(c cid.Cid) ([]byte, bool) {
	s.mu.Lock()
	defer s.mu.Unlock()
	b, ok := s.Blocks[c]
	return b, ok
}

func (s *Store) Len() int {
	s.mu.Lock()
	defer s.mu.Unlock()
	return len(s.Blocks)
}

func (s *Store) openRead(lc linking.LinkContext, l datamodel.Link) (io.Reader, error) {
	c := l.(cidlink.Link).Cid
	if s.HonorCtx && lc.Ctx != nil && lc.Ctx.Err() != nil {
		s.mu.Lock()
		s.Reads = append(s.Reads, c)
		s.mu.Unlock()
		return nil, fmt.Errorf("verif-injected: load of %s with a context that is already done: %w", c, lc.Ctx.Err())
	}
	if s.RequireSession && (lc.Ctx == nil || lc.Ctx.Value(sessionKey{}) != "verif-session") {
		s.mu.Lock()
		s.Reads = append(s.Reads, c)
		s.mu.Unlock()
		return nil, &ioFault{what: "request context lost: load of " + c.String() + " arrived without the session of the request it belongs to"}
	}
	if s.Yield {
		runtime.Gosched()
	}
	if s.Park != nil {
		s.mu.Lock()
		ch := s.Park[c]
		delete(s.Park, c)
		if ch != nil {
			s.ParkedNow = append(s.ParkedNow, c)
		}
		s.mu.Unlock()
		if ch != nil {
			<-ch
		}
	}
	s.mu.Lock()
	defer s.mu.Unlock()
	s.Reads = append(s.Reads, c)
	if s.LoadBudget > 0 && len(s.Reads) > s.LoadBudget {
		s.BudgetExceeded = true
		return nil, &ioFault{what: "load budget exceeded"}
	}
	if s.CancelAt != 0 && len(s.Reads) == s.CancelAt && s.Cancel != nil {
		s.Cancel()
	}
	if s.FailReadAt != 0 && len(s.Reads) == s.FailReadAt {
		return nil, s.fault(fmt.Sprintf("read #%d %s", s.FailReadAt, c))
	}
	if s.Missing[c] {
		if s.MissingBare != nil {
			return nil, s.MissingBare
		}
		if s.MissingIO {
			return nil, s.fault("read " + c.String())
		}
		return nil, notFoundErr{c}
	}
	b, ok := s.Blocks[c]
	if !ok {
		return nil, notFoundErr{c}
	}
	if s.Recycle {
		s.recycleLocked()
		cp := append([]byte(nil), b...)
		s.lent = append(s.lent, cp)
		return bytes.NewBuffer(cp), nil
	}
	return bytes.NewReader(b), nil
}

func (s *Store) recycleLocked() {
	for _, old := range s.lent {
		for i := range old {
			old[i] = 0xA5
		}
	}
	s.lent = s.lent[:0]
}

// RecycleNow overwrites every receive buffer handed out so far (see Recycle).
func (s *Store) RecycleNow() {
	s.mu.Lock()
	defer s.mu.Unlock()
	s.recycleLocked()
}

type faultWriter struct {
	buf     bytes.Buffer
	fail    error
	partial bool
}

func (w *faultWriter) Write(p []byte) (int, error) {
	if w.fail != nil {
		if w.partial && len(p) > 1 {
			n, _ := w.buf.Write(p[:len(p)/2])
			return n, w.fail
		}
		return 0, w.fail
	}
	return w.buf.Write(p)
}

func (s *Store) openWrite(_ linking.LinkContext) (io.Writer, linking.BlockWriteCommitter, error) {
	if s.Yield {
		runtime.Gosched()
	}
	s.mu.Lock()
	s.Opens++
	k := s.Opens
	s.mu.Unlock()
	if k == s.FailOpenAt {
		return nil, nil, s.fault(fmt.Sprintf("write-open #%d", k))
	}
	w := &faultWriter{}
	if k == s.FailWriteAt {
		w.fail = s.fault(fmt.Sprintf("write #%d", k))
		w.partial = s.PartialWrite
	}
	return w, func(l datamodel.Link) error {
		if k == s.FailCommitAt {
			return s.fault(fmt.Sprintf("commit #%d", k))
		}
		c := l.(cidlink.Link).Cid
		if s.Yield {
			runtime.Gosched()
		}
		s.mu.Lock()
		defer s.mu.Unlock()
		if _, ok := s.Blocks[c]; !ok {
			s.Blocks[c] = append([]byte(nil), w.buf.Bytes()...)
		}
		s.Commits = append(s.Commits, c)
		return nil
	}, nil
}

// LinkSystem returns a fresh link system over the store with both UnixFS reifiers registered.
//
// There is more than one legitimate way to set a link system up, and they must all behave alike, so successive calls on one
// store rotate through them (a pure function of the call sequence, hence of the case):
//
//	0: storage first, then AddUnixFSReificationToLinkSystem (the common way)
//	1: another ADL is already registered in KnownReifiers when the UnixFS reifiers are added
//	2: the reifiers are registered on a template link system without storage; the link system in use is a COPY of it whose
//	   storage is set afterwards (KnownReifiers is shared with the template)
//	3: AddUnixFSReificationToLinkSystem is called twice
//	5: KnownReifiers was filled by hand with the lazy reifier only (code written before the helper existed), then the
//	   helper is called
//	4: somebody else set a link system of their own up before and then replaced ITS named reifiers by pass-through ones
//	   (what a caller who wants raw dag-pb from "unixfs" selectors does); ours is set up the common way afterwards
func (s *Store) LinkSystem() *ipld.LinkSystem {
	s.mu.Lock()
	variant := s.lsCalls % 6
	s.lsCalls++
	s.mu.Unlock()
	return s.LinkSystemVariant(variant)
}

func (s *Store) LinkSystemVariant(variant int) *ipld.LinkSystem {
	ls := s.linkSystemVariant(variant)
	ls.TrustedStorage = s.Trusted
	if s.RawEnvelope != 0 {
		inner := ls.EncoderChooser
		fixed := s.RawEnvelope
		ls.EncoderChooser = func(lp datamodel.LinkPrototype) (codec.Encoder, error) {
			enc, err := inner(lp)
			if err != nil {
				return nil, err
			}
			if clp, ok := lp.(cidlink.LinkPrototype); !ok || clp.Codec != codecRaw {
				return enc, nil
			}
			return func(n datamodel.Node, w io.Writer) error {
				if fixed == RawEnvelopeStuffed {
					b, err := n.AsBytes()
					if err != nil {
						return err
					}
					out := make([]byte, 0, len(b)+len(b)/4)
					for _, c := range b {
						if c < 0x40 || c == 0x7D {
							out = append(out, 0x7D, c^0x80)
						} else {
							out = append(out, c)
						}
					}
					_, err = w.Write(out)
					return err
				}
				env := bytes.Repeat([]byte{0xE7}, max(fixed, 0))
				if fixed == RawEnvelopeUvarint {
					// a length prefix: the overhead depends on the content's length (1 byte below 128, 2 below 16384, ...)
					b, err := n.AsBytes()
					if err != nil {
						return err
					}
					env = binary.AppendUvarint(nil, uint64(len(b)))
				}
				if _, err := w.Write(env); err != nil {
					return err
				}
				return enc(n, w)
			}, nil
		}
	}
	if s.RawEnvelope != 0 && s.RawEnvelopeRead {
		// ... and the matching raw decoder, for checks that READ through the framing codec
		innerD, fixed := ls.DecoderChooser, s.RawEnvelope
		ls.DecoderChooser = func(l datamodel.Link) (codec.Decoder, error) {
			dec, err := innerD(l)
			if err != nil {
				return nil, err
			}
			if cl, ok := l.(cidlink.Link); !ok || cl.Cid.Prefix().Codec != codecRaw {
				return dec, nil
			}
			return func(na datamodel.NodeAssembler, r io.Reader) error {
				b, err := io.ReadAll(r)
				if err != nil {
					return err
				}
				switch {
				case fixed == RawEnvelopeStuffed:
					out := make([]byte, 0, len(b))
					for i := 0; i < len(b); i++ {
						if b[i] == 0x7D {
							if i+1 >= len(b) {
								return fmt.Errorf("framed raw block: dangling escape")
							}
							i++
							out = append(out, b[i]^0x80)
						} else {
							out = append(out, b[i])
						}
					}
					b = out
				case fixed == RawEnvelopeUvarint:
					n, k := binary.Uvarint(b)
					if k <= 0 || int(n) != len(b)-k {
						return fmt.Errorf("framed raw block: bad length prefix")
					}
					b = b[k:]
				default:
					if len(b) < fixed {
						return fmt.Errorf("framed raw block: short")
					}
					b = b[fixed:]
				}
				return dec(na, bytes.NewReader(b))
			}, nil
		}
	}
	if s.PBEnvelope > 0 {
		innerE, innerD, k := ls.EncoderChooser, ls.DecoderChooser, s.PBEnvelope
		ls.EncoderChooser = func(lp datamodel.LinkPrototype) (codec.Encoder, error) {
			enc, err := innerE(lp)
			if err != nil {
				return nil, err
			}
			if clp, ok := lp.(cidlink.LinkPrototype); !ok || clp.Codec != codecDagPB {
				return enc, nil
			}
			return func(n datamodel.Node, w io.Writer) error {
				if _, err := w.Write(bytes.Repeat([]byte{0xD7}, k)); err != nil {
					return err
				}
				return enc(n, w)
			}, nil
		}
		ls.DecoderChooser = func(l datamodel.Link) (codec.Decoder, error) {
			dec, err := innerD(l)
			if err != nil {
				return nil, err
			}
			if cl, ok := l.(cidlink.Link); !ok || cl.Cid.Prefix().Codec != codecDagPB {
				return dec, nil
			}
			return func(na datamodel.NodeAssembler, r io.Reader) error {
				env := make([]byte, k)
				if _, err := io.ReadFull(r, env); err != nil {
					return fmt.Errorf("framed dag-pb block: %w", err)
				}
				for _, b := range env {
					if b != 0xD7 {
						return fmt.Errorf("framed dag-pb block: bad envelope")
					}
				}
				rest, err := io.ReadAll(r)
				if err != nil {
					return err
				}
				return dec(na, bytes.NewReader(rest))
			}, nil
		}
	}
	if s.PieceWrites > 0 {
		// an encoder that hands the block to storage in several Write calls (a streaming encoder, or one behind a small
		// buffered writer) - the stock dag-pb and raw encoders happen to use one Write per block
		inner := ls.EncoderChooser
		k := s.PieceWrites
		ls.EncoderChooser = func(lp datamodel.LinkPrototype) (codec.Encoder, error) {
			enc, err := inner(lp)
			if err != nil {
				return nil, err
			}
			return func(n datamodel.Node, w io.Writer) error { return enc(n, pieceWriter{w, k}) }, nil
		}
	}
	return ls
}

type pieceWriter struct {
	w io.Writer
	k int
}

func (p pieceWriter) Write(b []byte) (int, error) {
	total := 0
	var scratch []byte
	for piece := 0; len(b) > 0; piece++ {
		n := p.k
		if n > len(b) {
			n = len(b)
		}
		var m int
		var err error
		if bw, ok := p.w.(io.ByteWriter); ok && piece%4 == 3 {
			// ... and, where the destination offers it, byte by byte (a varint-writing encoder)
			for _, c := range b[:n] {
				if err = bw.WriteByte(c); err != nil {
					break
				}
				m++
			}
		} else if piece%3 == 1 {
			// every third piece the way a text-producing encoder hands bytes over: io.WriteString (which uses the
			// destination's WriteString method when it has one)
			m, err = io.WriteString(p.w, string(b[:n]))
		} else if piece%3 == 2 {
			// ... and every third the way a streaming encoder does: io.CopyBuffer from a reader that has no WriteTo (which uses
			// the destination's ReadFrom method when it has one)
			var m64 int64
			if scratch == nil {
				scratch = make([]byte, 512)
			}
			m64, err = io.CopyBuffer(p.w, struct{ io.Reader }{bytes.NewReader(b[:n])}, scratch)
			m = int(m64)
		} else {
			m, err = p.w.Write(b[:n])
		}
		total += m
		if err != nil {
			return total, err
		}
		b = b[n:]
	}
	return total, nil
}

func (s *Store) linkSystemVariant(variant int) *ipld.LinkSystem {
	ls := cidlink.DefaultLinkSystem()
	switch variant {
	case 5:
		ls.KnownReifiers = map[string]linking.NodeReifier{"unixfs": unixfsnode.Reify}
		ls.StorageReadOpener = s.openRead
		ls.StorageWriteOpener = s.openWrite
		unixfsnode.AddUnixFSReificationToLinkSystem(&ls)
	case 4:
		other := cidlink.DefaultLinkSystem()
		unixfsnode.AddUnixFSReificationToLinkSystem(&other)
		passThrough := func(_ linking.LinkContext, n datamodel.Node, _ *linking.LinkSystem) (datamodel.Node, error) {
			return n, nil
		}
		other.KnownReifiers["unixfs"] = passThrough
		other.KnownReifiers["unixfs-preload"] = passThrough
		ls.StorageReadOpener = s.openRead
		ls.StorageWriteOpener = s.openWrite
		unixfsnode.AddUnixFSReificationToLinkSystem(&ls)
	case 1:
		ls.KnownReifiers = map[string]linking.NodeReifier{
			"verif-other-adl": func(_ linking.LinkContext, n datamodel.Node, _ *linking.LinkSystem) (datamodel.Node, error) {
				return n, nil
			},
		}
		ls.StorageReadOpener = s.openRead
		ls.StorageWriteOpener = s.openWrite
		unixfsnode.AddUnixFSReificationToLinkSystem(&ls)
	case 2:
		template := cidlink.DefaultLinkSystem()
		unixfsnode.AddUnixFSReificationToLinkSystem(&template)
		ls = template
		ls.StorageReadOpener = s.openRead
		ls.StorageWriteOpener = s.openWrite
	case 3:
		ls.StorageReadOpener = s.openRead
		ls.StorageWriteOpener = s.openWrite
		unixfsnode.AddUnixFSReificationToLinkSystem(&ls)
		unixfsnode.AddUnixFSReificationToLinkSystem(&ls)
	default:
		ls.StorageReadOpener = s.openRead
		ls.StorageWriteOpener = s.openWrite
		unixfsnode.AddUnixFSReificationToLinkSystem(&ls)
	}
	return &ls
}

func protoForCid(c cid.Cid) datamodel.NodePrototype {
	if c.Prefix().Codec == codecDagPB {
		return dagpb.Type.PBNode
	}
	return basicnode.Prototype.Any
}

func protoChooser(l datamodel.Link, _ linking.LinkContext) (datamodel.NodePrototype, error) {
	return protoForCid(l.(cidlink.Link).Cid), nil
}

// loadPlain loads the un-reified node behind c.
func loadPlain(ls *ipld.LinkSystem, c cid.Cid) (datamodel.Node, error) {
	return ls.Load(lcS, cidlink.Link{Cid: c}, protoForCid(c))
}

// loadReified loads c and passes it through the named reifier ("unixfs" or "unixfs-preload").
func loadReified(ls *ipld.LinkSystem, c cid.Cid, reifier string) (datamodel.Node, error) {
	n, err := loadPlain(ls, c)
	if err != nil {
		return nil, err
	}
	return ls.KnownReifiers[reifier](lcS, n, ls)
}

var lc0 = ipld.LinkContext{}

func cidOf(l datamodel.Link) cid.Cid { return l.(cidlink.Link).Cid }

func sumRaw(b []byte) cid.Cid {
	c, err := rawProto.Prefix.Sum(b)
	if err != nil {
		panic(err)
	}
	return c
}

func firstOccurrences(log []cid.Cid) []cid.Cid {
	seen := map[cid.Cid]bool{}
	var out []cid.Cid
	for _, c := range log {
		if !seen[c] {
			seen[c] = true
			out = append(out, c)
		}
	}
	return out
}

func cidSet(l []cid.Cid) map[cid.Cid]bool {
	m := map[cid.Cid]bool{}
	for _, c := range l {
		m[c] = true
	}
	return m
}

func shortCids(l []cid.Cid) []string {
	out := make([]string, len(l))
	for i, c := range l {
		s := c.String()
		out[i] = s[len(s)-6:]
	}
	return out
}

func cidLink(c cid.Cid) datamodel.Link { return cidlink.Link{Cid: c} }
